#!/bin/sh
set -e
D=$(cd "$(dirname "$0")/.." && pwd)
mkdir -p "$D/build/lib" "$D/build/obj"
cc -c -O1 -fPIC -o "$D/build/obj/starknet_rs.o" "$D/stubs/starknet_rs.c"
cc -c -O1 -fPIC -o "$D/build/obj/starknet_compiler_rs.o" "$D/stubs/starknet_compiler_rs.c"
ar rcs "$D/build/lib/libjuno_starknet_rs.a" "$D/build/obj/starknet_rs.o"
ar rcs "$D/build/lib/libjuno_starknet_compiler_rs.a" "$D/build/obj/starknet_compiler_rs.o"

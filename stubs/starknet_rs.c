/* Link-only stand-ins for the Rust FFI entry points of juno's vm package (the Rust static
 * libraries are not present in this sandbox). None of the code paths the checks drive may call
 * them; if one does, abort loudly. */
#include <stdio.h>
#include <stdlib.h>
static void die(const char *n) { fprintf(stderr, "verif stub: unexpected FFI call %s\n", n); abort(); }
void cairoVMCall(void) { die("cairoVMCall"); }
void cairoVMExecute(void) { die("cairoVMExecute"); }
char *setVersionedConstants(char *p) { (void)p; return NULL; }
void freeString(char *p) { (void)p; }

#include <stdio.h>
#include <stdlib.h>
static void die(const char *n) { fprintf(stderr, "verif stub: unexpected FFI call %s\n", n); abort(); }
void compileSierraToCasm(void) { die("compileSierraToCasm"); }
void freeCstr(char *p) { (void)p; }

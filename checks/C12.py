"""C12 — Tendermint agreement (spec/consensus/{TendermintAbs,Tendermint,MCTendermint,Quorum}.tla).

TLC:
  * TendermintAbs.tla (the algorithm with global message sets, Byzantine alphabet pre-loaded):
    exhaustive for n=4, f=1, 2 values, rounds 0..1, for a correct and for a faulty first proposer —
    Agreement, Validity, no double vote, lock rule.
  * Quorum.tla: 2q-N >= f+1 and q <= N-f for every total power N up to the bound, with q and f
    written exactly as votecounter computes them.
  * MCTendermint.tla (implementation-shaped: n copies of the process machine of Tendermint.tla, the
    transcription of consensus/tendermint + votecounter): (a) one correct validator against a fully
    adversarial environment, every input sequence up to a delivery bound — the local obligations
    (single vote per kind/round, lock rule, justified votes and commits); (b) the C12 invariants on
    every state of the simulated behaviours that are then replayed.
Binding:
  * replay: TLC-simulated behaviours (n=4 unit power and n=7 weighted, one Byzantine, 3 rounds,
    2 heights) into n REAL tendermint.New machines: action list, exported state, vote-counter answers
    after every input;
  * seeded random adversarial runs of the real machines (equivocation per destination, withholding,
    replay of old rounds, future-round/height floods), monitors = the spec's invariants, and the
    recorded traces validated by TLC against MCTendermintTrace.tla;
  * votecounter thresholds probed for every N up to the bound.
"""
import concurrent.futures
import json
import os
import re
import shutil
import subprocess
import tempfile

import vlib

SHAPES = {
    # must mirror Tendermint_sim4.cfg / Tendermint_sim7.cfg / Tendermint_trace4.cfg / Tendermint_trace7.cfg
    "n4": {"nv": 4, "powers": [[1, 1, 1, 1], [2, 2, 2, 2], [2, 2, 0, 1]], "maxVal": 3, "nValid": 2,
           "maxRound": 2, "corr": [1, 2, 3], "byz": [4], "h0": 1, "propShift": 1},
    "n7": {"nv": 7, "powers": [[3, 2, 2, 1, 1, 1, 1], [6, 4, 4, 2, 2, 2, 2], [1, 1, 1, 1, 1, 1, 1]], "maxVal": 3,
           "nValid": 2, "maxRound": 2, "corr": [2, 3, 4, 5, 6, 7], "byz": [1], "h0": 1, "propShift": 5},
}
SHAPES1 = {"n1": {"nv": 4, "powers": [[1, 1, 1, 1], [2, 2, 2, 2], [2, 2, 0, 1]], "maxVal": 3, "nValid": 2, "maxRound": 3,
                  "corr": [2], "byz": [1, 3, 4], "h0": 1, "propShift": 0}}      # Tendermint_sim1.cfg
SHAPES1["n2"] = {"nv": 2, "powers": [[1, 1], [3, 1]], "maxVal": 3, "nValid": 2, "maxRound": 2,
                 "corr": [1, 2], "byz": [], "h0": 1, "propShift": 1}              # Tendermint_sim2.cfg
SHAPES1["solo"] = {"nv": 1, "powers": [[1], [5]], "maxVal": 3, "nValid": 2, "maxRound": 2,
                   "corr": [1], "byz": [], "h0": 1, "propShift": 1}               # Tendermint_sim_solo.cfg
SIM = {"n2": ("Tendermint_sim2.cfg", 61), "solo": ("Tendermint_sim_solo.cfg", 31), "n4": ("Tendermint_sim4.cfg", 111), "n7": ("Tendermint_sim7.cfg", 151), "n1": ("Tendermint_sim1.cfg", 81)}
ENGINE = "tendermint"
NAMES = ("n4", "n7", "n1", "n2", "solo")
SIM_PAR = 6   # parallel single-threaded TLC -simulate runs (overlapped with the exhaustive checks)


def _trace_fail_event(res, trace_path):
    """TLC stopped (deadlock) at trace index l: return (l, event) for the report."""
    ls = re.findall(r"/\\ l = (\d+)", res["out"])
    if not ls:
        return None, None
    l = int(ls[-1])
    with open(trace_path) as f:
        lines = f.read().splitlines()
    ev = json.loads(lines[l - 1]) if 0 < l <= len(lines) else None
    return l, ev


APALACHE = "/opt/veriftools/apalache/bin/apalache-mc"


def _apalache_quorum(ctx):
    """Optional: the quorum facts for ALL N >= 1 by Apalache (symbolic initial state). A counterexample
    is a defect of the specification (Broken); an unavailable tool is only noted."""
    d = tempfile.mkdtemp(prefix="apalache.", dir=ctx.scratch)
    shutil.copy(os.path.join(vlib.VERIF, "spec", "consensus", "MCQuorumAll.tla"), d)
    env = dict(os.environ, JAVA_IO_TMPDIR=d, TMPDIR=d, JVM_ARGS="-Xmx2g")
    try:
        p = subprocess.run([APALACHE, "check", "--init=InitAll", "--inv=AllN", "--length=0",
                            "--out-dir=" + os.path.join(d, "out"), "MCQuorumAll.tla"],
                           cwd=d, env=env, capture_output=True, text=True, timeout=300)
    except (OSError, subprocess.TimeoutExpired) as e:
        ctx.coverage["quorum_all_N_apalache"] = "not run (%s)" % type(e).__name__
        return
    out = p.stdout + p.stderr
    if "The outcome is: NoError" in out:
        ctx.coverage["quorum_all_N_apalache"] = "2q-N >= f+1, q <= N-f, N-f >= f+1 hold for ALL N >= 1 (SMT)"
        vlib.log("Apalache: quorum arithmetic holds for all N >= 1")
    elif "invariant" in out and "violated" in out:
        raise vlib.Broken("Apalache found a total voting power violating the quorum arithmetic:\n" + out[-1500:])
    else:
        ctx.coverage["quorum_all_N_apalache"] = "not run (tool failure)"
    shutil.rmtree(d, ignore_errors=True)


class _Later:
    """Broken machinery in one section must not hide a divergence another section observed on the real code:
    the first Broken is remembered and raised only if the run ends without any VIOLATION (audit 5d)."""
    err = None

    def __enter__(self):
        return self

    def __exit__(self, t, e, tb):
        if t is not None and issubclass(t, vlib.Broken):
            if self.err is None:
                self.err = e
            vlib.log("deferred until the verdict: %s" % str(e).splitlines()[0])
            return True
        return False


def _retrying(fn, *a, **kw):
    """One retry when TLC ended without any verdict (JVM killed from outside, transient I/O): such a failure
    says nothing about the specification or the code."""
    try:
        return fn(*a, **kw)
    except vlib.Broken as e:
        if not any(t in str(e) for t in ("TLC failed on", "TLC simulate failed", "produced no behaviours")):
            raise
        vlib.log("TLC ended without a verdict, retrying once: %s" % str(e).splitlines()[0])
        return fn(*a, **kw)


def _trace_retry(ctx, *a, **kw):
    """tlc_trace, repeated once when TLC produced no verdict at all (e.g. the JVM was killed from outside)."""
    ok, res = ctx.tlc_trace(*a, **kw)
    if not ok and not res.get("violated"):
        vlib.log("trace validation produced no verdict, retrying once")
        ctx.tlc_runs.pop()
        ok, res = ctx.tlc_trace(*a, **kw)
    return ok, res


def _selftest(ctx, path):
    """Binding self-test: a trace with ONE corrupted output field must be rejected by TLC."""
    with open(path) as f:
        lines = f.read().splitlines()[:400]
    for i, ln in enumerate(lines):
        ev = json.loads(ln)
        votes = [a for a in ev.get("out", []) if a["a"] in ("prevote", "precommit")]
        if ev.get("t") == "step" and votes:
            votes[0]["v"] = 1 if votes[0]["v"] != 1 else 2       # the machine "voted" something else
            lines[i] = json.dumps(ev)
            bad = os.path.join(ctx.scratch, "selftest.ndjson")
            with open(bad, "w") as f:
                f.write("\n".join(lines[:i + 5]) + "\n")
            ok, res = ctx.tlc_trace("consensus", "MCTendermintTrace.tla", "Tendermint_trace4.cfg", bad, timeout=600)
            ctx.tlc_runs[-1]["label"] = "selftest(corrupted trace must be rejected)"
            if ok or res.get("violated") != "deadlock":
                raise vlib.Broken("binding self-test failed: TLC accepted a corrupted trace (%s)" % res.get("violated"))
            ctx.coverage["trace_selftest"] = "corrupted vote at event %d rejected" % (i + 1)
            return
    raise vlib.Broken("binding self-test: no vote found in the first 400 trace events")


def run(ctx):
    binary = ctx.build_engine(ENGINE)
    if ctx.replay:
        with open(ctx.replay) as f:
            rp = json.load(f)
        res = ctx.run_engine(binary, rp["test"], rp["input"])
        ctx.absorb(res, ENGINE, rp["test"])
        return ctx.finish("model_checking", "replay of one recorded behaviour / run")

    thorough = not ctx.quick()
    later = _Later()
    only = os.environ.get("VERIF_C12_ONLY", "")     # development aid, never set by registered commands

    # the single-threaded TLC simulations run in the background while the exhaustive checks use the workers
    sim_futures, pool = [], None
    if not only or "replay" in only:
        nruns = {"n4": 8 if thorough else 2, "n7": 6 if thorough else 1, "n1": 10 if thorough else 3,
                 "n2": 2 if thorough else 1, "solo": 2 if thorough else 1}
        per_run = ({"n4": 120, "n7": 80, "n1": 160, "n2": 100, "solo": 100} if thorough else
                   {"n4": 50, "n7": 30, "n1": 50, "n2": 40, "solo": 40})
        jobs = [(name, i) for name in NAMES for i in range(nruns[name])]

        def sim(job):
            name, i = job
            cfg, period = SIM[name]
            return name, _retrying(ctx.tlc_simulate, "consensus", "TendermintMBT.tla", cfg, depth=period * per_run[name],
                                          seed=ctx.seed * 1000 + i, timeout=2400)
        pool = concurrent.futures.ThreadPoolExecutor(max_workers=SIM_PAR)
        sim_futures = [pool.submit(sim, j) for j in jobs]

    # ------------------------------------------------------------------ TLC on the specifications
    with later:
      if not only or "abs" in only:
        for cfg in (["TendermintAbs_c1c2.cfg", "TendermintAbs_f1c1.cfg"] +
                    (["TendermintAbs_c1f1.cfg"] if thorough else [])):
            r = _retrying(ctx.tlc_check, "consensus", "MCTendermintAbs.tla", cfg, timeout=2400,
                              coverage=(thorough and cfg == "TendermintAbs_f1c1.cfg"))
            if "coverage" in r:
                vlib.require_actions_covered(r)
        # vacuity is checked (thorough) on the small configuration; the large one runs without coverage
        r = _retrying(ctx.tlc_check, "consensus", "MCTendermint.tla", "Tendermint_proc_quick.cfg", timeout=2400,
                          coverage=thorough)
        if "coverage" in r:
            vlib.require_actions_covered(r)
        if thorough:
            _retrying(ctx.tlc_check, "consensus", "MCTendermint.tla", "Tendermint_proc_thorough.cfg", timeout=2400)

    # ------------------------------------------------------------------ replay (spec -> code)
    with later:
      if not only or "replay" in only:
        by_name = {name: [] for name in NAMES}
        for fut in sim_futures:
            name, bs = fut.result()
            by_name[name] += bs
        pool.shutdown()
        total = 0
        for name in NAMES:
            behaviours = by_name[name]
            res = ctx.run_engine(binary, "TestTmReplay",
                                 {"cfg": dict(SHAPES, **SHAPES1)[name], "name": name, "behaviours": behaviours},
                                 timeout=1500)
            ctx.absorb(res, ENGINE, "TestTmReplay")
            total += len(behaviours)
            ctx.coverage["behaviours_%s" % name] = len(behaviours)
            ctx.coverage["steps_replayed_%s" % name] = res.get("steps", 0)
        ctx.coverage["behaviours_generated"] = total

    # ------------------------------------------------------------------ adversarial runs (code -> spec)
    with later:
      if not only or "adv" in only:
        payload = {"runs": 3000 if thorough else 600, "steps": 400, "traceRuns": 40 if thorough else 8,
                   "shapes": SHAPES, "maxHeight": 3, "msgMaxHeight": 4}
        res = ctx.run_engine(binary, "TestTmAdversarial", payload, timeout=1500)
        ctx.absorb(res, ENGINE, "TestTmAdversarial")
        ctx.coverage["adversarial_runs"] = payload["runs"]
        for name in ("n4", "n7"):
            path = res.get("stats", {}).get("trace_" + name)
            if not path or not os.path.exists(path) or os.path.getsize(path) == 0:
                raise vlib.Broken("adversarial engine wrote no trace for shape " + name)
            with open(path) as f:
                nev = sum(1 for _ in f)
            ok, tres = _trace_retry(ctx, "consensus", "MCTendermintTrace.tla", "Tendermint_trace%s.cfg" % name[1:],
                                     path, timeout=1500)
            ntr = int(res["stats"].get("traced_runs_" + name, 0))
            if ok:
                ctx.traces_validated += ntr
                ctx.coverage["trace_events_%s" % name] = nev
                if name == "n4":
                    _selftest(ctx, path)
            elif tres.get("violated") in ("deadlock",) or (tres.get("violated") or "").startswith(
                    ("Agreement", "Validity", "NoDoubleVote", "OneDecision", "LockRule", "VotesJustified")):
                l, ev = _trace_fail_event(tres, path)
                what = ("TLC rejects the trace recorded from the real machines (shape %s) at event %s: %s" %
                        (name, l, "the real output/state is not the model's" if tres["violated"] == "deadlock"
                         else "invariant %s violated" % tres["violated"]))
                key = "tm-trace:%s:%s" % (tres["violated"], (ev or {}).get("in", {}).get("k") or (ev or {}).get("in", {}).get("t"))
                ctx.report(key, what, {"property": "C12", "engine": ENGINE, "test": "TestTmAdversarial",
                                       "seed": ctx.seed, "input": dict(payload, noTrace=False),
                                       "divergence": {"event_index": l, "event": ev}})
            else:
                raise vlib.Broken("trace validation machinery failed for %s:\n%s" % (name, tres["out"][-3000:]))

    # ------------------------------------------------------------------ thresholds
    with later:
      if not only or "quorum" in only:
        _retrying(ctx.tlc_check, "consensus", "Quorum.tla", "Quorum_thorough.cfg" if thorough else "Quorum_quick.cfg",
                      timeout=1200)
        _apalache_quorum(ctx)
        res = ctx.run_engine(binary, "TestTmQuorum", {"maxN": 1000000 if thorough else 100000}, timeout=900)
        ctx.absorb(res, ENGINE, "TestTmQuorum")
        ctx.coverage["quorum_probed_up_to_N"] = res.get("stats", {}).get("quorum_max_n", 0)

    ctx.assumptions += [
        "messages are authenticated: a Byzantine validator cannot forge a correct validator's sender field",
        "timeouts are delivered only to a machine whose height is started (the driver calls ProcessStart right "
        "after construction/commit and logged timeouts follow the Start entry); ProcessTimeout itself does not check it",
        "faulty validators hold at most f = floor((N-1)/3) of the voting power",
        "Application.Valid is a deterministic predicate shared by correct validators",
        "the abstract and the implementation-shaped specification are related by checking the same invariants on "
        "both, not by a mechanised refinement proof",
    ]
    rc = ctx.finish(
        "model_checking",
        "TLC exhaustive: TendermintAbs n=4 f=1 2 values rounds 0..1 (correct / faulty first proposer), Quorum "
        "arithmetic for all N up to the bound, one implementation-shaped validator against every adversarial input "
        "sequence up to the delivery bound; conformance: TLC-simulated system behaviours (60/90 inputs each over "
        "start, every message kind from correct and Byzantine senders incl. duplicates, stale rounds, future "
        "heights, scheduled and arbitrary timeouts) replayed into real tendermint machines comparing action list + "
        "exported state + vote-counter answers after every input; seeded adversarial runs of the real machines "
        "monitored with the spec's invariants and trace-validated by TLC. A behaviour is non-trivial when it "
        "contains broadcasts by at least two validators (all generated ones do; commits/locks/round skips are "
        "counted in replay_act_* / adv_commits)")
    if later.err is not None and rc == 0:
        raise later.err
    return rc

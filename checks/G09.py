"""G09 (specification growth, not a listed property) — the sequencer's transaction mempool and its
consumers: mempool/mempool.go + db_utils.go (in-memory FIFO in front of a persistent linked-list log,
one writer goroutine, Wait() token), sequencer/sequencer.go (listenPool / depletePool over a scripted
builder.Executor — the VM cannot run here) and the RPC add-transaction path (rpc v0.8 / v0.9 / v0.10
AddTransaction -> mempool.Push).  Spec family spec/mempool, engine harness/engines/mempool.

What the check does:
  1. exhaustive TLC on Mempool.tla: the repaired design (both defect switches TRUE) must satisfy
     every property (sequential, concurrent, failing write, liveness under fairness); the code as
     it is must satisfy what the defects do not touch; every property has an expected-violation run
     (the two defects, four stated design limits, nine mutants);
  2. directed probes reproduce the defects on the real pool with the shortest inputs (keys
     mempool-dup:*, mempool-overflow:*) and record the stated design observations;
  3. TLC-simulated behaviours (Push of every validation class incl. duplicates, writer steps with
     ok / failing batch / crash right after the batch, Pop, PopBatch, Wait-poll, Close, Crash,
     Reopen with and without LoadFromDB, chain growth) replayed in lockstep on the real
     SequencerMempool over memory and pebblev2, legacy and new state, a share of the pushes through
     the three RPC versions; compared after every call: results, Len, token, LenDB, head / tail /
     length records, every node's next pointer and stored transaction, the walk, head nonces;
  4. concurrent rounds on real goroutines (pushers, a Wait-based consumer, a free popper, a
     free-running or stalled writer): small rounds validated by TLC against MempoolTrace.tla,
     many rounds by monitors that are the spec's properties;
  5. crash / failing-write sweep over every durable mutation of a scenario, reload and go on;
  6. the real sequencer.Sequencer (Run) over the real pool, chain and builder with a scripted
     executor: every accepted transaction reaches RunTxns exactly once in FIFO order in batches of
     at most 10 without further pushes (rounds validated by TLC against MempoolSeqTrace.tla and by
     monitors); sealed blocks hold exactly the executed ones; shutdown persists everything; a
     swallowed VM error drops the batch, any other error ends the listener;
  7. mempool/p2p over libp2p hosts on the loopback interface, a real pool and chain per node: what
     a node accepted reaches every other pool once and unchanged, what it refused does not travel.

The model in force follows known_findings.json (never the tree): a defect listed `known` is
modelled as coded, otherwise repaired.  VERIF_G09_ONLY=tlc,probes,replay,conc,sweep,seq,gossip restricts a
run (development aid)."""
import json
import os
import re
from concurrent.futures import ThreadPoolExecutor

import vlib

K_DUP = "mempool-dup:tail-loop"
K_OVERFLOW = "mempool-overflow:drops-waiting-transaction"
FAM = "mempool"

EXPECT = [  # cfg, violated property, what it shows
    ("Mempool_x_dedup.cfg", "DbConsistent", "as coded: a transaction pushed twice corrupts the persistent list"),
    ("Mempool_x_closeflush.cfg", "CloseFlushesAll", "as coded: after Close the list is not what was accepted (duplicates)"),
    ("Mempool_x_overflow.cfg", "NothingDropped", "as coded: a full write channel discards a waiting transaction"),
    ("Mempool_x_revival.cfg", "NoRevival", "design: the persistent list is a log, popped transactions come back after a restart"),
    ("Mempool_x_capacity.cfg", "StrictCapacityOnPush", "design: n concurrent pushers overshoot the capacity by n-1"),
    ("Mempool_x_order.cfg", "SameOrder", "design: concurrent pushers can be persisted in the other order than they are popped"),
    ("Mempool_x_sigfirst.cfg", "NoLostWakeup", "mutant"), ("Mempool_x_sigfirst2.cfg", "TokenAfterAppend", "mutant"), ("Mempool_x_lifo.cfg", "ExactlyOnceFIFO", "mutant"),
    ("Mempool_x_latefull.cfg", "RejectHasNoEffect", "mutant"), ("Mempool_x_nodrain.cfg", "CloseFlushesAll", "mutant"),
    ("Mempool_x_splitlen.cfg", "DbConsistent", "mutant"), ("Mempool_x_loadrev.cfg", "ReloadIsTheLog", "mutant"),
    ("Mempool_x_nocap.cfg", "CapacityOnPush", "mutant"), ("Mempool_x_bigbatch.cfg", "ExecBatchBound", "mutant"),
    ("Mempool_x_skipwrite.cfg", "DurablePrefix", "mutant"),
]


def known(ctx, key):
    return any(k.get("status") == "known" and vlib.key_matches(k["key"], key) for k in ctx.known)


def tlc_phase(ctx):
    t = not ctx.quick()
    hold = [("Mempool_seq_quick.cfg", "repaired: sequential API, durability, crash/close/reopen"),
            ("Mempool_conc_quick.cfg", "repaired: two pushers, a listener, a popper"),
            ("Mempool_live.cfg", "repaired: liveness under fairness"),
            ("Mempool_ascoded.cfg" if t else "Mempool_ascoded_quick.cfg", "as coded: what holds in spite of the defects"),
            ("Mempool_ascoded_overflow.cfg", "as coded: the write channel fills")]
    if t:
        hold += [("Mempool_seq_mid.cfg", "repaired: sequential, two pops"),
                 ("Mempool_seq_fail.cfg", "repaired: a failing batch write"),
                 ("Mempool_seq_thorough.cfg", "repaired: sequential, larger"),
                 ("Mempool_conc_thorough.cfg", "repaired: two pushers, two listeners, close and crash"),
                 ("Mempool_ascoded_conc.cfg", "as coded: two pushers and a listener"),
                 ("Mempool_live_ascoded.cfg", "as coded: liveness under fairness")]
    par = 3
    workers = max(2, int(os.environ.get("VERIF_TLC_WORKERS", "16")) // par)

    def one(job):
        cfg, label, expect = job
        return job, ctx.tlc_check(FAM, "MCMempool.tla", cfg, workers=workers if expect is None else 2, timeout=3000,
                                  label=label + " [" + cfg + "]", expect_violation=expect is not None,
                                  coverage=(t and cfg in ("Mempool_seq_quick.cfg", "Mempool_conc_quick.cfg", "Mempool_ascoded_overflow.cfg")))

    jobs = [(c, l, None) for c, l in hold] + [(c, "expected violation of %s (%s)" % (p, w), p) for c, p, w in EXPECT]
    with ThreadPoolExecutor(max_workers=par) as ex:
        results = list(ex.map(one, jobs))
    for (cfg, label, expect), r in results:
        if expect is None:
            if "coverage" in r:
                # actions that cannot fire in that configuration by construction
                vlib.require_actions_covered(r, ignore=("Next", "WLen") + (() if "overflow" in cfg else ("Drop",)) + (("CDrain", "CWake") if "seq" in cfg else ("StoreBlock", "Crash", "Reopen", "CDrain", "CWake", "WaitPoll") if "overflow" in cfg
                                                                   else ("WaitPoll", "StoreBlock", "Close", "CloseDone", "Crash", "Reopen")))
            continue
        if r["ok"] or r["violated"] != expect:
            raise vlib.Broken("expected-violation run %s: expected %s, got %s — the model changed" % (cfg, expect, r["violated"]))


def cfg_with(base, **over):
    src = open(os.path.join(vlib.VERIF, "spec", FAM, base)).read()
    for k, v in over.items():
        src, n = re.subn(r"\b%s = \S+" % k, "%s = %s" % (k, v), src)
        if n != 1:
            raise vlib.Broken("cfg rewrite: %s not found once in %s" % (k, base))
    return src


def tla_bool(b):
    return "TRUE" if b else "FALSE"


def validate_trace(ctx, tracefile, rinfo, cfg_text, engine_test, module="MempoolTrace.tla", what="concurrent"):
    """TLC decides whether the recorded rounds are behaviours of MempoolTrace.tla. A rejected round
    is reported (replayable: its lines) and dropped; the rest is validated again."""
    lines = open(tracefile).read().splitlines()
    if len(lines) < 10:
        raise vlib.Broken("concurrent recorder produced no events")
    accepted = 0
    for _ in range(4):
        with open(tracefile, "w") as f:
            f.write("\n".join(lines) + "\n")
        ok, r = ctx.tlc_trace(FAM, module, "gen.cfg", tracefile, timeout=1500, files={"gen.cfg": cfg_text})
        if ok:
            accepted += len(rinfo)
            break
        if r["violated"] != "postcondition" or not r.get("highwater"):
            raise vlib.Broken("trace validation failed for another reason than rejection:\n%s" % "\n".join(r["out"].splitlines()[-30:]))
        hw = r["highwater"]
        bad = ([x for x in rinfo if x["first"] <= hw <= x["last"]] or [rinfo[-1]])[0]
        seg = lines[bad["first"] - 1: bad["last"]]
        ctx.report("mempool-%s:trace-rejected" % what,
                   "a recorded %s history of the real code is not a behaviour of Mempool.tla (%s; stuck at line %d of the round: %s)" % (
                       what, module, hw - bad["first"] + 1, lines[min(hw, len(lines)) - 1][:200]),
                   {"property": "G09", "engine": FAM, "test": engine_test, "seed": ctx.seed,
                    "input": {"trace": {"lines": seg, "cfg": cfg_text, "module": module, "what": what}}})
        keep, new_info, pos = [], [], 1
        for x in rinfo:
            if x is bad:
                continue
            n = x["last"] - x["first"] + 1
            keep += lines[x["first"] - 1: x["last"]]
            y = dict(x)
            y["first"], y["last"] = pos, pos + n - 1
            new_info.append(y)
            pos += n
        lines, rinfo = keep, new_info
        if not lines:
            break
    ctx.traces_validated += accepted
    k = what + "_rounds_validated_by_tlc"
    ctx.coverage[k] = ctx.coverage.get(k, 0) + accepted
    if lines and len(ctx.samples) < 6:
        ctx.samples.append({what + "_trace_excerpt": [json.loads(x) for x in lines[:12]]})
    return lines


def selftest(ctx, lines, cfg_text):
    """The trace binding must reject corrupted histories (thorough tier)."""
    def corrupt(kind):
        out, done = [], False
        for ln in lines:
            e = json.loads(ln)
            if not done:
                if kind == "swap" and e["ev"] == "PopE" and len(e["txs"]) == 2 and e["txs"][0] != e["txs"][1]:
                    e["txs"] = e["txs"][::-1]
                    done = True
                elif kind == "result" and e["ev"] == "PushE" and e["out"] == "ok":
                    e["out"] = "full"
                    done = True
                elif kind == "length" and e["ev"] == "Final":
                    e["l"] += 1
                    done = True
            out.append(json.dumps(e))
        return out if done else None
    n = 0
    for kind in ("swap", "result", "length"):
        bad = corrupt(kind)
        if bad is None:
            continue
        tf = os.path.join(ctx.scratch, "selftest-%s.ndjson" % kind)
        with open(tf, "w") as f:
            f.write("\n".join(bad) + "\n")
        ok, _ = ctx.tlc_trace(FAM, "MempoolTrace.tla", "gen.cfg", tf, timeout=900, files={"gen.cfg": cfg_text})
        if ok:
            raise vlib.Broken("selftest: the trace binding accepted a corrupted history (%s)" % kind)
        n += 1
    if n == 0:
        raise vlib.Broken("selftest: no corruptible event found")
    ctx.coverage["selftest_corrupted_traces_rejected"] = n
    ctx.tlc_runs[:] = [r for r in ctx.tlc_runs if not (r["label"].startswith("trace:") and not r["ok"])]


def run(ctx):
    binary = ctx.build_engine(FAM, stubs=True)
    if ctx.replay:
        rp = json.load(open(ctx.replay))
        inp = rp["input"]
        if isinstance(inp, dict) and "trace" in inp:
            tf = os.path.join(ctx.scratch, "replay.ndjson")
            with open(tf, "w") as f:
                f.write("\n".join(inp["trace"]["lines"]) + "\n")
            validate_trace(ctx, tf, [{"first": 1, "last": len(inp["trace"]["lines"])}], inp["trace"]["cfg"], rp["test"],
                           module=inp["trace"].get("module", "MempoolTrace.tla"), what=inp["trace"].get("what", "concurrent"))
        else:
            ctx.absorb(ctx.run_engine(binary, rp["test"], inp), FAM, rp["test"])
        return ctx.finish("model_checking", "replay of one recorded behaviour")
    only = [p for p in os.environ.get("VERIF_G09_ONLY", "").split(",") if p] or ["tlc", "probes", "replay", "conc", "sweep", "seq", "gossip"]
    assume = [k for k in os.environ.get("VERIF_G09_ASSUME_KNOWN", "").split(",") if k]
    if assume:
        print("NOTE: property=G09 DEVELOPMENT RUN: treating %s as listed known findings (VERIF_G09_ASSUME_KNOWN)" % assume, flush=True)
        ctx.known += [{"property": "G09", "key": k, "status": "known", "what": "(assumed for development) " + k} for k in assume]
    thorough = not ctx.quick()
    # the exhaustive runs need nothing from the bindings: they go on in the background
    pool = ThreadPoolExecutor(max_workers=1)
    tlc_job = pool.submit(tlc_phase, ctx) if "tlc" in only else None
    try:
        return bindings(ctx, binary, only, thorough, tlc_job)
    finally:
        pool.shutdown(wait=True, cancel_futures=True)


def bindings(ctx, binary, only, thorough, tlc_job):

    # ---- probes first: they decide nothing (the model follows known_findings.json) but tell whether a listed finding still reproduces
    dedup_fix, overflow_fix = not known(ctx, K_DUP), not known(ctx, K_OVERFLOW)
    if "probes" in only:
        res = ctx.run_engine(binary, "TestMempoolProbes", {})
        ctx.absorb(res, FAM, "TestMempoolProbes")
        keys = {d["key"] for d in res.get("divergences") or []}
        if not dedup_fix and not any(k.startswith("mempool-dup:") for k in keys):
            print("NOTE: property=G09 known finding [mempool-dup:*] did not reproduce on this tree", flush=True)
            dedup_fix = True
        if not overflow_fix and K_OVERFLOW not in keys:
            print("NOTE: property=G09 known finding [%s] did not reproduce on this tree" % K_OVERFLOW, flush=True)
            overflow_fix = True
        for k, v in sorted((res.get("stats") or {}).get("observations", {}).items()):
            if k.startswith("revival:memory") or k.startswith("push-after-close:memory"):
                print("OBSERVATION property=G09 (stated design, not a verdict) %s: %s" % (k.split(":")[0], v), flush=True)
            if k == "gossip-v1-invoke" and "panics" in v:
                print("OBSERVATION property=G09 (mempool/p2p is not wired into the node at this commit, not a verdict): %s" % v, flush=True)
    ctx.coverage["model"] = "DedupFix=%s OverflowFix=%s" % (dedup_fix, overflow_fix)
    sw = dict(DedupFix=tla_bool(dedup_fix), OverflowFix=tla_bool(overflow_fix))

    # ---- sequential replay
    if "replay" in only:
        plans = [  # (cfg constants, engine parameters, runs quick / thorough)
            (dict(Max=4, LazyWriter="FALSE", StartEmpty="FALSE"), dict(max=4, start_empty=False), 2, 8),
            (dict(Max=3, LazyWriter="TRUE", StartEmpty="FALSE"), dict(max=3, start_empty=False), 1, 4),
            (dict(Max=5, LazyWriter="FALSE", StartEmpty="TRUE"), dict(max=5, start_empty=True), 1, 4),
            (dict(Max=2, LazyWriter="TRUE", StartEmpty="FALSE"), dict(max=2, start_empty=False), 1, 2),   # capacity 1, channel of 2
        ]
        nb = 0
        for i, (consts, eng, nq, nt) in enumerate(plans):
            cfg = cfg_with("Mempool_sim.cfg", **consts, **sw)
            beh = []
            for j in range(nt if thorough else nq):
                beh += ctx.tlc_simulate(FAM, "MempoolMBT.tla", "gen.cfg", depth=12000 if thorough else 7000,
                                        seed=ctx.seed * 1000 + i * 50 + j, files={"gen.cfg": cfg})
            nb += len(beh)
            payload = dict(eng, behaviours=beh, alphabet="F", naccs=2, rpc=True, first=0)
            ctx.absorb(ctx.run_engine(binary, "TestMempoolReplay", payload, timeout=1500), FAM, "TestMempoolReplay")
        ctx.coverage["behaviours_replayed"] = nb

    diverged = any(v["key"].startswith(("mempool-replay", "crash:")) for v in ctx.violations)
    # ---- concurrent rounds (skipped when the sequential replay already diverged: hammering a
    # divergent pool concurrently adds nothing and may hang the harness)
    if "conc" in only and not diverged:
        tf = os.path.join(ctx.scratch, "mempool.ndjson")
        res = ctx.run_engine(binary, "TestMempoolConcurrent",
                             {"out": tf, "trace_rounds": 60 if thorough else 16, "monitor_rounds": 3000 if thorough else 400,
                              "max": 4, "pushers": 2, "dedup_fix": dedup_fix, "overflow_fix": overflow_fix}, timeout=1500)
        rinfo = (res.get("stats") or {}).pop("rounds", [])
        ctx.absorb(res, FAM, "TestMempoolConcurrent")
        tcfg = cfg_with("MempoolTrace.cfg", **sw)
        if rinfo:
            lines = validate_trace(ctx, tf, rinfo, tcfg, "TestMempoolConcurrent")
            if thorough and lines:
                selftest(ctx, lines, tcfg)
    elif "conc" in only:
        ctx.coverage["concurrent_skipped_after_divergence"] = 1

    if "sweep" in only:
        ctx.absorb(ctx.run_engine(binary, "TestMempoolCrashSweep",
                                  {"pushes": 14 if thorough else 8,
                                   "shapes": ["memory/legacy", "memory/newstate", "pebblev2/legacy", "pebblev2/newstate"] if thorough else ["memory/legacy", "pebblev2/newstate"]}),
                   FAM, "TestMempoolCrashSweep")

    if "seq" in only and not diverged:
        tf = os.path.join(ctx.scratch, "sequencer.ndjson")
        res = ctx.run_engine(binary, "TestSequencerConsumer",
                             {"rounds": 150 if thorough else 30, "out": tf, "trace_rounds": 45 if thorough else 12}, timeout=1500)
        rinfo = (res.get("stats") or {}).pop("rounds", [])
        ctx.absorb(res, FAM, "TestSequencerConsumer")
        if rinfo:
            validate_trace(ctx, tf, rinfo, cfg_with("MempoolSeqTrace.cfg", **sw), "TestSequencerConsumer",
                           module="MempoolSeqTrace.tla", what="sequencer")
        o = (res.get("stats") or {}).get("observations", {})
        if "listener-dies" in o:
            print("OBSERVATION property=G09 (seen on the real sequencer, design level, not a verdict): %s" % o["listener-dies"], flush=True)

    if "gossip" in only and not diverged:
        # mempool/p2p over libp2p hosts on the loopback interface (not wired into node.go at the pinned commit)
        ctx.absorb(ctx.run_engine(binary, "TestMempoolGossip", {"nodes": 4 if thorough else 3, "txs": 24 if thorough else 12}, timeout=600),
                   FAM, "TestMempoolGossip")

    if tlc_job is not None:
        tlc_job.result()
    ctx.assumptions += [
        "one Batch.Write is atomic and durable (C15 examines the backends)",
        "the VM is replaced by a scripted builder.Executor that fills the pre-confirmed block as builder.executor does; "
        "what vm.BuildBlock does with a failing transaction inside a batch is outside this check",
        "a crash is modelled by making the old process's store unreachable (faultkv) and building new objects on the surviving store; "
        "pebblev2 is really closed and reopened only on graceful paths",
        "the order of the event log lines (appended under one mutex around every call) is the real-time order used for trace validation",
    ]
    return ctx.finish(
        "model_checking",
        "exhaustive TLC on Mempool.tla (repaired design: all properties; as coded: what the defects leave intact; one expected-violation "
        "run per property); TLC-simulated call sequences (schema-uniform; a Push's stages, the writer's channel receive and the drain of "
        "Close have priority so every recorded call starts at rest) replayed on the real pool with full comparison after every call; "
        "concurrent rounds validated by TLC (silent linearisation steps) and by monitors; crash sweep over every durable mutation; the "
        "real sequencer over a scripted executor; non-trivial = a behaviour accepts at least one transaction and performs a write")

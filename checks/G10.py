"""G10 (specification growth, not a listed property) — peer-to-peer block synchronisation:
p2p/sync (Service, BlockFetcher, Client, adapters/p2p2core) and p2p/server (iterator, handlers,
adapters/core2p2p). Specification spec/p2psync/{P2PSync,P2PServer}.tla, engine
harness/engines/p2psync. Run with ./check G10. Not registered in MANIFEST.json; evidence is written
to evidence/G10.json."""
import json
import os

import vlib

FAM = "p2psync"
PARTS = {"t": "txs", "e": "evs", "c": "cls", "d": "sd"}

# (name, class) of the simulated peers; the classes are the alphabet of P2PSync.tla (Ans)
SIM_WORLDS = {
    # every class; a fork that branches at height 2 (the node starts below it: it can be captured)
    "mixed": dict(shapes_a=["tecd", "", "te", "d", "tecd", "t"], fork_at=2, shapes_b=["td", "tec", "d"], start=0,
                  peers=[("h1", "honest"), ("h2", "benign"), ("c1", "corrupt"), ("t1", "trunc"), ("o1", "other"),
                         ("m1", "mute"), ("f1", "fork"), ("d1", "down"), ("k1", "flaky")]),
    # no fork, start in the middle of the chain, few peers: long runs of progress
    "plain": dict(shapes_a=["tecd", "te", "", "tecd", "d", "tc", "te"], fork_at=-1, shapes_b=[], start=2,
                  peers=[("h1", "honest"), ("h2", "benign"), ("c1", "corrupt"), ("t1", "trunc")]),
    # a fork below the node's start: harmless
    "forkbelow": dict(shapes_a=["tecd", "d", "te", "tecd", ""], fork_at=1, shapes_b=["t", "tecd", "d"], start=2,
                      peers=[("h1", "honest"), ("f1", "fork"), ("o1", "other"), ("m1", "mute")]),
    # free-running rounds with every faulty class but few enough peers for the honest draw to come up
    "free": dict(shapes_a=["tecd", "te", "", "tecd", "d"], fork_at=-1, shapes_b=[], start=1,
                 peers=[("h1", "honest"), ("h2", "benign"), ("c1", "corrupt"), ("m1", "mute"), ("k1", "flaky")]),
    "freefork": dict(shapes_a=["tecd", "te", "d", "tc"], fork_at=2, shapes_b=["te", "tecd"], start=0,
                     peers=[("h1", "honest"), ("f1", "fork"), ("o1", "other"), ("t1", "trunc")]),
}
SERVER_WORLD = dict(shapes_a=["tecd", "te", "", "tecd", "d"], fork_at=-1, shapes_b=[], start=0, peers=[])
ROBUST_WORLD = dict(shapes_a=["tecd", "te", "", "tecd", "d", "tecd", "tecd"], fork_at=-1, shapes_b=[], start=0, peers=[])

# expected-violation configurations: cfg -> the property that must fail
EXPECTED = {
    "P2PSync_x_leak.cfg": "NoLeak",
    "P2PSync_x_noverify.cfg": "EmittedVerified",
    "P2PSync_x_unchecked.cfg": "StoredIsChain",
    "P2PSync_x_noretry.cfg": "ExitOnlyAfterCancel",
    "P2PSync_x_fork.cfg": "PrefixOfA",
    "P2PSync_x_cancel_live.cfg": "temporal",
    "P2PSync_x_live_noretry.cfg": "temporal",
    "P2PSync_x_live_flaky.cfg": "temporal",
    "P2PSync_x_live_fork.cfg": "temporal",
}
EXPECTED_SERVER = {"P2PServer_x_wrap.cfg": "Conforms", "P2PServer_x_nil.cfg": "NoPanic"}


def empties(shapes, first):
    out = []
    for i, s in enumerate(shapes):
        for letter, part in PARTS.items():
            if letter not in s:
                out.append('<<%d, "%s">>' % (first + i, part))
    return "{" + ", ".join(out) + "}"


def world_json(wd, new_state):
    return dict(new_state=new_state, shapes_a=wd["shapes_a"], fork_at=wd["fork_at"], shapes_b=wd["shapes_b"],
                start=wd["start"], peers=[dict(name=n, **{"class": c}) for n, c in wd["peers"]])


def sim_files(wd, new_state):
    """The TLA+ world module and configurations of one world, and the same world for the engine."""
    ha = len(wd["shapes_a"])
    fork = wd["fork_at"] >= 0
    hb = wd["fork_at"] + len(wd["shapes_b"]) if fork else 0
    cases = " [] ".join('p = "%s" -> "%s"' % (n, c) for n, c in wd["peers"])
    mod = "\n".join([
        "---------------------------- MODULE P2PSyncWorld ----------------------------",
        "EXTENDS MCP2PSync",
        "SimClass == [p \\in Peers |-> CASE %s]" % cases,
        "SimEmptyA == %s" % empties(wd["shapes_a"], 0),
        "SimEmptyB == %s" % (empties(wd["shapes_b"], wd["fork_at"]) if fork else "{}"),
        "=============================================================================", ""])
    consts = "\n".join([
        "CONSTANTS HA = %d HB = %d ForkAt = %d Start = %d MaxIter = 0 WithCancel = TRUE" % (ha, hb, max(wd["fork_at"], 0), wd["start"]),
        "  Peers = {%s}" % ", ".join('"%s"' % n for n, _ in wd["peers"]),
        "  Verify = TRUE Retry = TRUE CheckedStore = TRUE CtxAwareSends = FALSE%s",
        "  ClassOf <- SimClass EmptyA <- SimEmptyA EmptyB <- SimEmptyB", ""])
    cfg = consts % " MaxSteps = 80" + "\n".join(["INIT MBTInit", "NEXT MBTNext", "CHECK_DEADLOCK FALSE", ""])
    tcfg = consts % "" + "\n".join(["INIT TraceInit", "NEXT TraceNext", "VIEW TraceView", "CONSTRAINT TraceConstraint",
                                    "POSTCONDITION TraceAccepted",
                                    "INVARIANTS TypeOK StoredIsChain OnlyVerified EmittedVerified NoSkip", "CHECK_DEADLOCK FALSE", ""])
    return {"P2PSyncWorld.tla": mod, "P2PSync_sim.cfg": cfg, "P2PSync_trace.cfg": tcfg}, world_json(wd, new_state)


def expect(ctx, module, cfg, prop, timeout=1500):
    r = ctx.tlc_check(FAM, module, cfg, timeout=timeout, expect_violation=True)
    if r["ok"] or r["violated"] != prop:
        raise vlib.Broken("expected-violation run %s: %s should fail, TLC says ok=%s violated=%s" % (cfg, prop, r["ok"], r["violated"]))
    ctx.coverage["expected_violations_confirmed"] = ctx.coverage.get("expected_violations_confirmed", 0) + 1


def model_check(ctx):
    q = ctx.quick()
    res = ctx.tlc_check(FAM, "MCP2PSync.tla", "P2PSync_quick.cfg", timeout=1500, coverage=not q)
    if not q:
        vlib.require_actions_covered(res, ignore=("Init",))
    ctx.tlc_check(FAM, "MCP2PSync.tla", "P2PSync_forkbelow.cfg", timeout=1500)
    ctx.tlc_check(FAM, "MCP2PSync.tla", "P2PSync_cancel_live.cfg", timeout=1500)
    ctx.tlc_check(FAM, "MCP2PSync.tla", "P2PSync_live.cfg", timeout=1500)
    quick_x = ["P2PSync_x_leak.cfg", "P2PSync_x_noverify.cfg", "P2PSync_x_unchecked.cfg", "P2PSync_x_noretry.cfg",
               "P2PSync_x_fork.cfg", "P2PSync_x_cancel_live.cfg"]
    for cfg, prop in EXPECTED.items():
        if q and cfg not in quick_x:
            continue
        expect(ctx, "MCP2PSync.tla", cfg, prop)
    if not q:
        for cfg in ["P2PSync_ascoded.cfg", "P2PSync_fork.cfg", "P2PSync_thorough.cfg", "P2PSync_thorough_ascoded.cfg", "P2PSync_live_thorough.cfg"]:
            ctx.tlc_check(FAM, "MCP2PSync.tla", cfg, timeout=2400)
    # the serving side
    ctx.tlc_check(FAM, "P2PServer.tla", "P2PServer_quick.cfg", timeout=900)
    ctx.tlc_check(FAM, "P2PServer.tla", "P2PServer_ascoded.cfg", timeout=900)
    for cfg, prop in EXPECTED_SERVER.items():
        expect(ctx, "P2PServer.tla", cfg, prop, timeout=900)


def server_cases(ctx):
    r = ctx.tlc_check(FAM, "P2PServerMBT.tla", "P2PServer_export.cfg", timeout=900, workers=1, label="server-export")
    cases = []
    for line in r["out"].splitlines():
        if line.startswith('"{'):
            cases.append(json.loads(json.loads(line)))
    if len(cases) < 1000:
        raise vlib.Broken("server export produced only %d requests" % len(cases))
    ctx.coverage["server_requests_in_domain"] = len(cases)
    ctx.coverage["server_requests_where_code_model_differs_from_contract"] = sum(1 for c in cases if c["res"] != c["decl"])
    return cases


def replay(ctx, binary, name, new_state, nbeh, seed):
    files, world = sim_files(SIM_WORLDS[name], new_state)
    behs = ctx.tlc_simulate(FAM, "P2PSyncMBT.tla", "P2PSync_sim.cfg", depth=120 * nbeh, seed=seed, files=files, timeout=1500)
    res = ctx.run_engine(binary, "TestP2PSyncReplay", {"world": world, "behaviours": behs}, timeout=2400)
    ctx.absorb(res, FAM, "TestP2PSyncReplay")
    return behs, world


def validate_traces(ctx, binary, name, new_state, rounds, seed0):
    """Free-running rounds: Go monitors inside the engine, then TLC on the recorded trace."""
    files, world = sim_files(SIM_WORLDS[name], new_state)
    tf = os.path.join(ctx.scratch, "trace-%s.ndjson" % name)
    rm = os.path.join(ctx.scratch, "rmap-%s.json" % name)
    res = ctx.run_engine(binary, "TestP2PSyncFree", dict(world=world, rounds=rounds, seed0=seed0, trace=tf, round_map=rm,
                                                         max_iters=8000, cancel=True), timeout=2400)
    ctx.absorb(res, FAM, "TestP2PSyncFree")
    rinfo = json.load(open(rm))
    lines = open(tf).read().splitlines()
    if not rinfo:
        return None, files
    accepted = 0
    for _ in range(4):
        with open(tf, "w") as f:
            f.write("\n".join(lines) + "\n")
        ok, r = ctx.tlc_trace(FAM, "P2PSyncTrace.tla", "P2PSync_trace.cfg", tf, timeout=1500, files=files)
        if ok:
            accepted = len(rinfo)
            break
        if r["violated"] not in ("postcondition",) or not r.get("highwater"):
            inv = r["violated"]
            if inv in ("StoredIsChain", "OnlyVerified", "EmittedVerified", "NoSkip", "TypeOK"):
                # an invariant of the specification is false on the recorded run of the real code
                ctx.report("p2psync:trace-violates:" + inv, "a recorded run of the real service violates %s of P2PSync.tla" % inv,
                           {"property": "G10", "engine": FAM, "test": "trace", "seed": ctx.seed,
                            "input": {"world_name": name, "new_state": new_state, "lines": lines}})
                break
            raise vlib.Broken("trace validation failed for another reason than rejection:\n%s" % "\n".join(r["out"].splitlines()[-30:]))
        hw = r["highwater"]
        bad = ([x for x in rinfo if x["first"] <= hw <= x["last"]] or [rinfo[-1]])[0]
        seg = lines[bad["first"] - 1: bad["last"]]
        ctx.report("p2psync:trace-rejected", "a recorded run of the real service is not a behaviour of P2PSync.tla (world %s, round seed %s, stuck at "
                   "line %d of the round: %s)" % (name, bad["seed"], hw - bad["first"] + 1, lines[min(hw, len(lines)) - 1][:200]),
                   {"property": "G10", "engine": FAM, "test": "trace", "seed": ctx.seed,
                    "input": {"world_name": name, "new_state": new_state, "lines": seg}})
        # drop the rejected round and validate the rest
        lines = lines[:bad["first"] - 1] + lines[bad["last"]:]
        n = bad["last"] - bad["first"] + 1
        rinfo = [x if x["last"] < bad["first"] else dict(x, first=x["first"] - n, last=x["last"] - n) for x in rinfo if x is not bad]
        if not rinfo:
            break
    ctx.traces_validated += accepted
    ctx.coverage["recorded_traces_accepted_by_tlc"] = ctx.coverage.get("recorded_traces_accepted_by_tlc", 0) + accepted
    return lines, files


def selftest(ctx, binary, lines, files, behs, world):
    """The binding must reject what is wrong: corrupted traces, a flipped expectation."""
    n = 0
    for kind in ("store-flipped", "recv-dropped", "height-shifted"):
        bad, done = [], False
        for ln in lines:
            e = json.loads(ln)
            if not done and kind == "store-flipped" and e["ev"] == "Store" and e["ok"]:
                e["ok"], done = False, True
            elif not done and kind == "recv-dropped" and e["ev"] == "Recv" and e["k"] == "good":
                done = True
                continue
            elif not done and kind == "height-shifted" and e["ev"] == "Req" and e["part"] == "cls":
                e["n"], done = e["n"] + 1, True
            bad.append(json.dumps(e))
        if not done:
            continue
        tf = os.path.join(ctx.scratch, "selftest-%s.ndjson" % kind)
        with open(tf, "w") as f:
            f.write("\n".join(bad) + "\n")
        ok, _ = ctx.tlc_trace(FAM, "P2PSyncTrace.tla", "P2PSync_trace.cfg", tf, timeout=900, files=files)
        if ok:
            raise vlib.Broken("selftest: the trace binding accepted a corrupted trace (%s)" % kind)
        n += 1
    ctx.tlc_runs[:] = [r for r in ctx.tlc_runs if not (r["label"].startswith("trace:") and not r["ok"])]
    # a behaviour whose expected Store result is flipped must diverge on the real code
    for b in behs:
        idx = [i for i, s in enumerate(b) if s["a"]["name"] == "Store" and s["a"]["ok"]]
        if idx:
            bb = json.loads(json.dumps(b))
            bb[idx[0]]["a"]["ok"] = False
            r = ctx.run_engine(binary, "TestP2PSyncReplay", {"world": world, "behaviours": [bb]})
            if not r.get("divergences"):
                raise vlib.Broken("selftest: the replay binding accepted a flipped expectation")
            n += 1
            break
    if n < 3:
        raise vlib.Broken("selftest: only %d corruptions could be applied" % n)
    ctx.coverage["selftest_corruptions_rejected"] = n


def run(ctx):
    binary = ctx.build_engine(FAM, stubs=True)
    if ctx.replay:
        rp = json.load(open(ctx.replay))
        if rp["test"] == "trace":
            wd = rp["input"]
            files, _ = sim_files(SIM_WORLDS[wd["world_name"]], wd["new_state"])
            tf = os.path.join(ctx.scratch, "replay.ndjson")
            with open(tf, "w") as f:
                f.write("\n".join(wd["lines"]) + "\n")
            ok, r = ctx.tlc_trace(FAM, "P2PSyncTrace.tla", "P2PSync_trace.cfg", tf, timeout=1500, files=files)
            if not ok:
                ctx.report(rp.get("divergence", {}).get("key", "p2psync:trace-rejected"), "the recorded run is rejected by P2PSync.tla (replay)", rp)
            return ctx.finish("model_checking", "replay of one recorded trace")
        ctx.absorb(ctx.run_engine(binary, rp["test"], rp["input"]), FAM, rp["test"])
        return ctx.finish("model_checking", "replay")

    try:
        return body(ctx, binary)
    except vlib.Broken as e:
        if not ctx.violations:
            raise
        # a divergence was already observed on the real code; a later stage that cannot run on such a
        # tree (an engine that hangs or dies) must not turn the verdict into "broken"
        print("NOTE: property=G10 a later stage could not run (%s); verdict from the divergences already observed" % str(e).splitlines()[0][:300], flush=True)
        return ctx.finish("model_checking", "stopped after the first stages: divergences observed on the real code")


def body(ctx, binary):
    q = ctx.quick()
    ctx.assumptions += [
        "nothing in p2p/sync stores a block at the pinned commit (the consumer of Listen() is gone from node.go): the harness plays the "
        "consumer the code had before — Blockchain.Store of every error-free body in arrival order",
        "source blocks are restricted to what the p2p wire format carries (see the limit:* observations for what falls outside)",
        "protocol versions 0.13.2 - 0.14.0 (chainkit cannot build older blocks; 0.14.1 class declarations are outside the format)",
        "the Sierra compiler is a deterministic stand-in (the Rust FFI is not linked offline)",
        "peers misbehave within a finite alphabet of classes, each with several concrete variants (harness/engines/p2psync/faults_test.go)",
    ]
    model_check(ctx)

    # replay of TLC-simulated behaviours on the real Service
    plan = [("mixed", False, 60), ("plain", True, 50), ("forkbelow", False, 40)] if q else \
           [("mixed", False, 500), ("mixed", True, 300), ("plain", True, 400), ("plain", False, 300), ("forkbelow", False, 300), ("forkbelow", True, 200)]
    first = None
    for i, (name, ns, nbeh) in enumerate(plan):
        behs, world = replay(ctx, binary, name, ns, nbeh, ctx.seed * 100 + i)
        first = first or (behs, world)

    # free-running rounds: monitors + TLC trace validation
    lines = files = None
    for i, (name, ns, rounds) in enumerate([("free", False, 8), ("freefork", True, 6)] if q else
                                           [("free", False, 40), ("free", True, 30), ("freefork", True, 30), ("freefork", False, 20), ("plain", False, 30)]):
        l2, f2 = validate_traces(ctx, binary, name, ns, rounds, ctx.seed * 10_000 + 1000 * i)
        if l2 and lines is None:
            lines, files = l2, f2

    # the serving side: every request of P2PServer.tla's domain against the contract
    cases = server_cases(ctx)
    sw = world_json(SERVER_WORLD, False)
    ctx.absorb(ctx.run_engine(binary, "TestP2PServerContract", {"world": sw, "m": 16, "cases": cases}), FAM, "TestP2PServerContract")
    ctx.absorb(ctx.run_engine(binary, "TestP2PServerGarbage", {"world": sw, "m": 16, "cases": []}), FAM, "TestP2PServerGarbage")
    if not q:
        ctx.absorb(ctx.run_engine(binary, "TestP2PServerContract", {"world": world_json(SERVER_WORLD, True), "m": 16, "cases": cases}), FAM, "TestP2PServerContract")

    # cancellation races found by TLC in the as-coded model; malformed answers; stated limits
    rw = world_json(ROBUST_WORLD, False)
    ctx.absorb(ctx.run_engine(binary, "TestP2PSyncCancel", {"world": rw}), FAM, "TestP2PSyncCancel")
    ctx.absorb(ctx.run_engine(binary, "TestP2PSyncRobust", {"world": rw, "max_quick": 60}, timeout=2400), FAM, "TestP2PSyncRobust")
    lim = ctx.run_engine(binary, "TestP2PSyncLimits", {})
    for k, v in sorted((lim.get("stats") or {}).items()):
        if k.startswith("limit:"):
            print("OBSERVATION: property=G10 %s: %s" % (k[6:], v), flush=True)
    ctx.coverage["limit_probes"] = {k: str(v).split(" — ")[0] for k, v in (lim.get("stats") or {}).items()}

    if not q and lines:
        selftest(ctx, binary, lines, files, first[0], first[1])

    return ctx.finish("model_checking",
                      "exhaustive TLC on P2PSync.tla (repaired and as-coded designs, liveness under fairness, expected-violation runs per mechanism) "
                      "and P2PServer.tla; TLC-simulated behaviours (peer classes per request, arrival orders, consumer interleavings, cancellation) "
                      "replayed in lockstep on the real p2p/sync Service against scripted peers that are real p2p/server instances behind a fault "
                      "stage, projection compared before every harness step; free-running rounds judged by monitors and by TLC trace validation; "
                      "every request of the server model's domain replayed on the real handlers against the declared range; one-field-missing "
                      "variants of every answer message; the cancellation races of the as-coded model reproduced with gates")

"""G10 (specification growth, not a listed property) — peer-to-peer block synchronisation:
p2p/sync (Service, BlockFetcher, Client, adapters/p2p2core) and p2p/server (adapters/core2p2p).
Specification spec/p2psync/{P2PSync,P2PServer}.tla, engine harness/engines/p2psync.
Run with ./check G10. Not registered in MANIFEST.json; evidence is written to evidence/G10.json."""
import json

import vlib

PARTS = {"t": "txs", "e": "evs", "c": "cls", "d": "sd"}

# (name, class) of the simulated peers; the classes are the alphabet of P2PSync.tla
SIM_WORLDS = {
    # every class, a fork that branches at height 2 (the node starts below it: it can be captured)
    "mixed": dict(shapes_a=["tecd", "", "te", "d", "tecd", "t"], fork_at=2, shapes_b=["td", "tec", "d"], start=0,
                  peers=[("h1", "honest"), ("h2", "benign"), ("c1", "corrupt"), ("t1", "trunc"), ("o1", "other"),
                         ("m1", "mute"), ("f1", "fork"), ("d1", "down"), ("k1", "flaky")]),
    # no fork, start in the middle of the chain, few peers: long runs of progress
    "plain": dict(shapes_a=["tecd", "te", "", "tecd", "d", "tc", "te"], fork_at=-1, shapes_b=[], start=2,
                  peers=[("h1", "honest"), ("h2", "benign"), ("c1", "corrupt"), ("t1", "trunc")]),
    # a fork below the node's start: harmless
    "forkbelow": dict(shapes_a=["tecd", "d", "te", "tecd", ""], fork_at=1, shapes_b=["t", "tecd", "d"], start=2,
                      peers=[("h1", "honest"), ("f1", "fork"), ("o1", "other"), ("m1", "mute")]),
}


def empties(shapes, first):
    out = []
    for i, s in enumerate(shapes):
        for letter, part in PARTS.items():
            if letter not in s:
                out.append('<<%d, "%s">>' % (first + i, part))
    return "{" + ", ".join(out) + "}"


def sim_files(wd, new_state):
    ha = len(wd["shapes_a"])
    fork = wd["fork_at"] >= 0
    hb = wd["fork_at"] + len(wd["shapes_b"]) if fork else 0
    cases = " [] ".join('p = "%s" -> "%s"' % (n, c) for n, c in wd["peers"])
    mod = "\n".join([
        "---------------------------- MODULE P2PSyncWorld ----------------------------",
        "EXTENDS MCP2PSync",
        "SimClass == [p \\in Peers |-> CASE %s]" % cases,
        "SimEmptyA == %s" % empties(wd["shapes_a"], 0),
        "SimEmptyB == %s" % (empties(wd["shapes_b"], wd["fork_at"]) if fork else "{}"),
        "=============================================================================", ""])
    cfg = "\n".join([
        "CONSTANTS HA = %d HB = %d ForkAt = %d Start = %d MaxIter = 0 WithCancel = TRUE" % (ha, hb, max(wd["fork_at"], 0), wd["start"]),
        "  Peers = {%s}" % ", ".join('"%s"' % n for n, _ in wd["peers"]),
        "  Verify = TRUE Retry = TRUE CheckedStore = TRUE CtxAwareSends = FALSE MaxSteps = 80",
        "  ClassOf <- SimClass EmptyA <- SimEmptyA EmptyB <- SimEmptyB",
        "INIT MBTInit", "NEXT MBTNext", "CHECK_DEADLOCK FALSE", ""])
    world = dict(new_state=new_state, shapes_a=wd["shapes_a"], fork_at=wd["fork_at"], shapes_b=wd["shapes_b"], start=wd["start"],
                 peers=[dict(name=n, **{"class": c}) for n, c in wd["peers"]])
    consts = cfg.split("INIT")[0].replace(" MaxSteps = 80", "")
    tcfg = consts + "\n".join(["INIT TraceInit", "NEXT TraceNext", "VIEW TraceView", "CONSTRAINT TraceConstraint",
                               "POSTCONDITION TraceAccepted",
                               "INVARIANTS TypeOK StoredIsChain OnlyVerified EmittedVerified NoSkip", "CHECK_DEADLOCK FALSE", ""])
    return {"P2PSyncWorld.tla": mod, "P2PSync_sim.cfg": cfg, "P2PSync_trace.cfg": tcfg}, world


def run(ctx):
    binary = ctx.build_engine("p2psync", stubs=True)
    if ctx.replay:
        rp = json.load(open(ctx.replay))
        ctx.absorb(ctx.run_engine(binary, rp["test"], rp["input"]), "p2psync", rp["test"])
        return ctx.finish("model_checking", "replay")
    raise vlib.Broken("not finished")

"""G10 (specification growth, not a listed property) — peer-to-peer block synchronisation:
p2p/sync (Service, BlockFetcher, Client, adapters/p2p2core) and p2p/server (iterator, handlers,
adapters/core2p2p). Specification spec/p2psync/{P2PSync,P2PServer}.tla, engine
harness/engines/p2psync. Run with ./check G10. Not registered in MANIFEST.json; evidence is written
to evidence/G10.json.

Confirmed defects are switches of the specifications (FALSE = the pinned commit, TRUE = repaired);
what this check expects of the tree comes from known_findings.json: a finding listed `known` means
the as-coded behaviour is expected and its divergences print KNOWN-FINDING; `fixed` or not listed
means the REPAIRED model is what the code must conform to (and, for the crash, that peers which
leave fields out take part in the replayed and free-running worlds)."""
import json
import os
import re

import vlib

FAM = "p2psync"
PARTS = {"t": "txs", "e": "evs", "c": "cls", "d": "sd"}

# switch -> a concrete key of each signature family the defect is reported under
FINDINGS = {
    # p2p/sync: sends that do not watch the context (P2PSync.tla)
    "CtxAwareSends": ["p2psync:leak:cancel-during-compile", "p2psync:leak:free-run:x"],
    # adapters/p2p2core: absent sub-messages of a peer's answer are dereferenced (P2PSync.tla, class malformed)
    "FieldsChecked": ["p2psync:crash:absent-field:txs.transaction"],
    # p2p/server: iterator arithmetic modulo 2^64; request without iteration (P2PServer.tla)
    "CheckedArith": ["p2pserver:range:step-wraps-round:fwd"],
    "NilIterChecked": ["p2pserver:crash:request-without-iteration"],
}


def switches(ctx):
    """switch = FALSE (the as-coded behaviour is expected) only while one of its keys is listed `known`"""
    return {sw: not any(k["status"] == "known" and any(vlib.key_matches(k["key"], x) for x in keys) for k in ctx.known)
            for sw, keys in FINDINGS.items()}


def tla(b):
    return "TRUE" if b else "FALSE"


# a peer that leaves sub-messages out joins these worlds once adapters/p2p2core refuses such answers
# (as coded it kills the engine process: the sweep of TestP2PSyncRobust shows that in a child process)
MALFORMED_IN = {"mixed": ("x1", "malformed"), "plain": ("x1", "malformed")}

# (name, class) of the simulated peers; the classes are the alphabet of P2PSync.tla (Ans)
SIM_WORLDS = {
    # every class; a fork that branches at height 2 (the node starts below it: it can be captured)
    "mixed": dict(shapes_a=["tecd", "", "te", "d", "tecd", "t"], fork_at=2, shapes_b=["td", "tec", "d"], start=0,
                  peers=[("h1", "honest"), ("h2", "benign"), ("c1", "corrupt"), ("t1", "trunc"), ("o1", "other"),
                         ("m1", "mute"), ("f1", "fork"), ("d1", "down"), ("k1", "flaky")]),
    # no fork, start in the middle of the chain, few peers: long runs of progress
    "plain": dict(shapes_a=["tecd", "te", "", "tecd", "d", "tc", "te"], fork_at=-1, shapes_b=[], start=2,
                  peers=[("h1", "honest"), ("h2", "benign"), ("c1", "corrupt"), ("t1", "trunc")]),
    # a fork below the node's start: harmless
    "forkbelow": dict(shapes_a=["tecd", "d", "te", "tecd", ""], fork_at=1, shapes_b=["t", "tecd", "d"], start=2,
                      peers=[("h1", "honest"), ("f1", "fork"), ("o1", "other"), ("m1", "mute")]),
    # free-running rounds with every faulty class but few enough peers for the honest draw to come up
    "free": dict(shapes_a=["tecd", "te", "", "tecd", "d"], fork_at=-1, shapes_b=[], start=1,
                 peers=[("h1", "honest"), ("h2", "benign"), ("c1", "corrupt"), ("m1", "mute"), ("k1", "flaky")]),
    "freefork": dict(shapes_a=["tecd", "te", "d", "tc"], fork_at=2, shapes_b=["te", "tecd"], start=0,
                     peers=[("h1", "honest"), ("f1", "fork"), ("o1", "other"), ("t1", "trunc")]),
    # free-running rounds against a peer that leaves sub-messages out (only once FieldsChecked is the expectation)
    "freemal": dict(shapes_a=["tecd", "te", "d", "tecd"], fork_at=-1, shapes_b=[], start=0,
                    peers=[("h1", "honest"), ("h2", "benign"), ("x1", "malformed")]),
}
SERVER_WORLD = dict(shapes_a=["tecd", "te", "", "tecd", "d"], fork_at=-1, shapes_b=[], start=0, peers=[])
# transactions in every block: with chainkit's rotation of kinds, seven blocks contain all ten kinds
ROBUST_WORLD = dict(shapes_a=["tecd", "te", "t", "tecd", "td", "tecd", "tecd"], fork_at=-1, shapes_b=[], start=0, peers=[])

# expected-violation configurations: cfg -> the property that must fail
EXPECTED = {
    "P2PSync_x_leak.cfg": "NoLeak",
    "P2PSync_x_malformed.cfg": "NoCrash",
    "P2PSync_x_truncempty.cfg": "TruncNeverContributes",   # reachability witness, see P2PSync.tla
    "P2PSync_x_noverify.cfg": "EmittedVerified",
    "P2PSync_x_unchecked.cfg": "StoredIsChain",
    "P2PSync_x_noretry.cfg": "ExitOnlyAfterCancel",
    "P2PSync_x_fork.cfg": "PrefixOfA",
    "P2PSync_x_cancel_live.cfg": "temporal",
    "P2PSync_x_live_noretry.cfg": "temporal",
    "P2PSync_x_live_flaky.cfg": "temporal",
    "P2PSync_x_live_fork.cfg": "temporal",
}
EXPECTED_SERVER = {"P2PServer_x_wrap.cfg": "Conforms", "P2PServer_x_nil.cfg": "NoPanic"}


def empties(shapes, first):
    out = []
    for i, s in enumerate(shapes):
        for letter, part in PARTS.items():
            if letter not in s:
                out.append('<<%d, "%s">>' % (first + i, part))
    return "{" + ", ".join(out) + "}"


def world_json(wd, new_state):
    return dict(new_state=new_state, shapes_a=wd["shapes_a"], fork_at=wd["fork_at"], shapes_b=wd["shapes_b"],
                start=wd["start"], peers=[dict(name=n, **{"class": c}) for n, c in wd["peers"]])


def world_of(name, sw):
    wd = dict(SIM_WORLDS[name])
    if sw["FieldsChecked"] and name in MALFORMED_IN:
        wd["peers"] = wd["peers"] + [MALFORMED_IN[name]]
    return wd


def sim_files(wd, new_state, sw):
    """The TLA+ world module and configurations of one world, and the same world for the engine."""
    ha = len(wd["shapes_a"])
    fork = wd["fork_at"] >= 0
    hb = wd["fork_at"] + len(wd["shapes_b"]) if fork else 0
    cases = " [] ".join('p = "%s" -> "%s"' % (n, c) for n, c in wd["peers"])
    mod = "\n".join([
        "---------------------------- MODULE P2PSyncWorld ----------------------------",
        "EXTENDS MCP2PSync",
        "SimClass == [p \\in Peers |-> CASE %s]" % cases,
        "SimEmptyA == %s" % empties(wd["shapes_a"], 0),
        "SimEmptyB == %s" % (empties(wd["shapes_b"], wd["fork_at"]) if fork else "{}"),
        "=============================================================================", ""])
    consts = "\n".join([
        "CONSTANTS HA = %d HB = %d ForkAt = %d Start = %d MaxIter = 0 WithCancel = TRUE" % (ha, hb, max(wd["fork_at"], 0), wd["start"]),
        "  Peers = {%s}" % ", ".join('"%s"' % n for n, _ in wd["peers"]),
        "  Verify = TRUE Retry = TRUE CheckedStore = TRUE CtxAwareSends = " + tla(sw["CtxAwareSends"]) + " FieldsChecked = " + tla(sw["FieldsChecked"]) + "%s",
        "  ClassOf <- SimClass EmptyA <- SimEmptyA EmptyB <- SimEmptyB", ""])
    cfg = consts % " MaxSteps = 80" + "\n".join(["INIT MBTInit", "NEXT MBTNext", "CHECK_DEADLOCK FALSE", ""])
    tcfg = consts % "" + "\n".join(["INIT TraceInit", "NEXT TraceNext", "VIEW TraceView", "CONSTRAINT TraceConstraint",
                                    "POSTCONDITION TraceAccepted",
                                    "INVARIANTS TypeOK StoredIsChain OnlyVerified EmittedVerified NoSkip NoCrash", "CHECK_DEADLOCK FALSE", ""])
    return {"P2PSyncWorld.tla": mod, "P2PSync_sim.cfg": cfg, "P2PSync_trace.cfg": tcfg}, world_json(wd, new_state)


def expect(ctx, module, cfg, prop, timeout=1500):
    r = ctx.tlc_check(FAM, module, cfg, timeout=timeout, expect_violation=True)
    if r["ok"] or r["violated"] != prop:
        raise vlib.Broken("expected-violation run %s: %s should fail, TLC says ok=%s violated=%s" % (cfg, prop, r["ok"], r["violated"]))
    ctx.coverage["expected_violations_confirmed"] = ctx.coverage.get("expected_violations_confirmed", 0) + 1


def model_check(ctx):
    q = ctx.quick()
    if q:
        ctx.tlc_check(FAM, "MCP2PSync.tla", "P2PSync_q2.cfg", timeout=1500)
    else:
        res = ctx.tlc_check(FAM, "MCP2PSync.tla", "P2PSync_quick.cfg", timeout=1500, coverage=True)
        # AdaptCrash exists in the as-coded model only (P2PSync_x_malformed.cfg)
        vlib.require_actions_covered(res, ignore=("Init", "AdaptCrash"))
    ctx.tlc_check(FAM, "MCP2PSync.tla", "P2PSync_forkbelow.cfg", timeout=1500)
    ctx.tlc_check(FAM, "MCP2PSync.tla", "P2PSync_malformed.cfg", timeout=1500)
    ctx.tlc_check(FAM, "MCP2PSync.tla", "P2PSync_forktrunc_quick.cfg", timeout=1500)
    ctx.tlc_check(FAM, "MCP2PSync.tla", "P2PSync_cancel_live.cfg", timeout=1500)
    ctx.tlc_check(FAM, "MCP2PSync.tla", "P2PSync_live.cfg", timeout=1500)
    quick_x = ["P2PSync_x_leak.cfg", "P2PSync_x_malformed.cfg", "P2PSync_x_truncempty.cfg", "P2PSync_x_noverify.cfg",
               "P2PSync_x_unchecked.cfg", "P2PSync_x_noretry.cfg", "P2PSync_x_fork.cfg", "P2PSync_x_cancel_live.cfg"]
    for cfg, prop in EXPECTED.items():
        if q and cfg not in quick_x:
            continue
        expect(ctx, "MCP2PSync.tla", cfg, prop)
    if not q:
        for cfg in ["P2PSync_ascoded.cfg", "P2PSync_fork.cfg", "P2PSync_forktrunc.cfg", "P2PSync_thorough.cfg", "P2PSync_thorough_ascoded.cfg",
                    "P2PSync_live_thorough.cfg"]:
            ctx.tlc_check(FAM, "MCP2PSync.tla", cfg, timeout=2400)
    # the serving side
    ctx.tlc_check(FAM, "P2PServer.tla", "P2PServer_quick.cfg", timeout=900)
    ctx.tlc_check(FAM, "P2PServer.tla", "P2PServer_ascoded.cfg", timeout=900)
    for cfg, prop in EXPECTED_SERVER.items():
        expect(ctx, "P2PServer.tla", cfg, prop, timeout=900)


def server_cases(ctx):
    r = ctx.tlc_check(FAM, "P2PServerMBT.tla", "P2PServer_export.cfg", timeout=900, workers=1, label="server-export")
    cases = []
    for line in r["out"].splitlines():
        if line.startswith('"{'):
            cases.append(json.loads(json.loads(line)))
    if len(cases) < 1000:
        raise vlib.Broken("server export produced only %d requests" % len(cases))
    ctx.coverage["server_requests_in_domain"] = len(cases)
    ctx.coverage["server_requests_where_code_model_differs_from_contract"] = sum(1 for c in cases if c["res"] != c["decl"])
    return cases


JUNO = "github.com/NethermindEth/juno/"


def crash_in_juno_goroutine(out):
    """vlib attributes an engine crash to juno when the innermost frame is a juno function. A nil felt
    dereferenced one library call deeper (gnark's field arithmetic under core/felt) is the same thing:
    here the crashing goroutine must have been started by juno code and have no frame of the harness
    on its stack. Returns (headline, innermost juno function) or None."""
    m = re.search(r"^(panic: .*|fatal error: .*)$", out, re.M)
    if not m:
        return None
    rest = out[m.end():]
    g = re.search(r"^goroutine \d+ .*:$", rest, re.M)
    if not g:
        return None
    block = rest[g.end():].split("\n\n", 1)[0]
    frames = [ln.strip() for ln in block.splitlines() if ln.strip() and not ln.startswith(("\t", " ", "/"))]
    created = [f for f in frames if f.startswith("created by ")]
    funcs = [f for f in frames if not f.startswith("created by ")]
    if any("verifharness/" in f for f in frames) or not created or not created[-1].startswith("created by " + JUNO):
        return None
    for f in funcs:
        if f.startswith(JUNO):
            fn = f[len(JUNO):]
            return m.group(1)[:200], fn[:fn.rfind("(")] if "(" in fn else fn
    return None


def engine(ctx, binary, test, payload, timeout=1200):
    """run_engine; an engine process killed by a panic in a goroutine of the code under test is a
    divergence observed on the real code (the later stages still run)."""
    try:
        return ctx.run_engine(binary, test, payload, timeout=timeout)
    except vlib.Broken as e:
        site = crash_in_juno_goroutine(str(e))
        if not site:
            raise
        print("[verif] engine %s %s: the process died in %s" % (FAM, test, site[1]), flush=True)
        return {"replayed": 0, "steps": 0, "samples": [], "stats": {},
                "divergences": [{"key": "p2psync:crash:engine-process:" + site[1], "step": 0, "input": payload,
                                 "what": "the code under test killed the engine process during %s: %s in %s" % (test, site[0], site[1]),
                                 "observed": str(e)[-1500:]}]}


def absorb(ctx, res, test):
    """A condition of the harness itself (a driver that could not set its scenario up) is broken
    machinery (exit 2), never a verdict about the code."""
    hs = [d for d in (res.get("divergences") or []) if str(d.get("key", "")).startswith("p2psync:harness")]
    if hs:
        raise vlib.Broken("engine %s %s: harness condition: %s" % (FAM, test, "; ".join(str(d.get("what"))[:300] for d in hs[:3])))
    ctx.absorb(res, FAM, test)


def replay(ctx, binary, name, new_state, nbeh, seed, sw):
    files, world = sim_files(world_of(name, sw), new_state, sw)
    behs = ctx.tlc_simulate(FAM, "P2PSyncMBT.tla", "P2PSync_sim.cfg", depth=120 * nbeh, seed=seed, files=files, timeout=1500)
    res = engine(ctx, binary, "TestP2PSyncReplay", {"world": world, "behaviours": behs}, timeout=2400)
    absorb(ctx, res, "TestP2PSyncReplay")
    return behs, world


def rejection_key(name, sw, lines, at):
    """The signature of a recorded run TLC rejects: the event the specification could not take and
    the class of the peer that answered each part of the iteration it belongs to."""
    cls = dict(world_of(name, sw)["peers"])
    e = json.loads(lines[at])
    asked = {}
    for ln in reversed(lines[:at]):
        x = json.loads(ln)
        if x["ev"] == "Req" and x["part"] not in asked:
            asked[x["part"]] = cls.get(x["peer"], "?")
        if len(asked) == 5 or x["ev"] == "Reset" or (x["ev"] == "Recv" and e["ev"] != "Store"):
            break
    what = e["ev"]
    if e["ev"] == "Recv":
        what += ":" + e["k"] + (":%s%d" % (e["c"], e["h"]) if e["k"] == "good" else "")
    elif e["ev"] == "Store":
        what += ":%s:%s%d" % ("accepted" if e["ok"] else "refused", e["c"], e["h"])
    elif e["ev"] in ("Open", "Req"):
        what += ":%s:%s" % (e["part"], cls.get(e["peer"], "?"))
    elif e["ev"] == "DialFail":
        what += ":" + cls.get(e["peer"], "?")
    return "p2psync:trace:not-a-behaviour:%s:%s" % (what, ",".join("%s=%s" % (p, asked[p]) for p in ("hdr", "txs", "evs", "cls", "sd") if p in asked))


def validate_traces(ctx, binary, name, new_state, rounds, seed0, sw):
    """Free-running rounds: Go monitors inside the engine, then TLC on the recorded trace."""
    files, world = sim_files(world_of(name, sw), new_state, sw)
    tf = os.path.join(ctx.scratch, "trace-%s.ndjson" % name)
    rm = os.path.join(ctx.scratch, "rmap-%s.json" % name)
    for f in (tf, rm):
        if os.path.exists(f):
            os.remove(f)
    res = engine(ctx, binary, "TestP2PSyncFree", dict(world=world, rounds=rounds, seed0=seed0, trace=tf, round_map=rm,
                                                     max_iters=8000, cancel=True), timeout=2400)
    absorb(ctx, res, "TestP2PSyncFree")
    if not os.path.exists(rm):     # the engine process died (reported above): nothing was recorded
        return None, files
    rinfo = json.load(open(rm))
    lines = open(tf).read().splitlines()
    if not rinfo:
        return None, files
    accepted = 0
    for _ in range(4):
        with open(tf, "w") as f:
            f.write("\n".join(lines) + "\n")
        ok, r = ctx.tlc_trace(FAM, "P2PSyncTrace.tla", "P2PSync_trace.cfg", tf, timeout=1500, files=files)
        if ok:
            accepted = len(rinfo)
            break
        if r["violated"] not in ("postcondition",) or not r.get("highwater"):
            inv = r["violated"]
            if inv in ("StoredIsChain", "OnlyVerified", "EmittedVerified", "NoSkip", "TypeOK"):
                # an invariant of the specification is false on the recorded run of the real code
                ctx.report("p2psync:trace-violates:" + inv, "a recorded run of the real service violates %s of P2PSync.tla" % inv,
                           {"property": "G10", "engine": FAM, "test": "trace", "seed": ctx.seed, "divergence": {"key": "p2psync:trace-violates:" + inv},
                            "input": {"world_name": name, "new_state": new_state, "lines": lines, "switches": sw}})
                break
            raise vlib.Broken("trace validation failed for another reason than rejection:\n%s" % "\n".join(r["out"].splitlines()[-30:]))
        hw = r["highwater"]
        bad = ([x for x in rinfo if x["first"] <= hw <= x["last"]] or [rinfo[-1]])[0]
        seg = lines[bad["first"] - 1: bad["last"]]
        at = min(hw, bad["last"]) - bad["first"]
        key = rejection_key(name, sw, seg, at)
        ctx.report(key, "a recorded run of the real service is not a behaviour of P2PSync.tla (world %s, round seed %s, stuck at "
                   "line %d of the round: %s)" % (name, bad["seed"], at + 1, seg[at][:200]),
                   {"property": "G10", "engine": FAM, "test": "trace", "seed": ctx.seed, "divergence": {"key": key},
                    "input": {"world_name": name, "new_state": new_state, "lines": seg, "switches": sw}})
        # drop the rejected round and validate the rest
        lines = lines[:bad["first"] - 1] + lines[bad["last"]:]
        n = bad["last"] - bad["first"] + 1
        rinfo = [x if x["last"] < bad["first"] else dict(x, first=x["first"] - n, last=x["last"] - n) for x in rinfo if x is not bad]
        if not rinfo:
            break
    ctx.traces_validated += accepted
    ctx.coverage["recorded_traces_accepted_by_tlc"] = ctx.coverage.get("recorded_traces_accepted_by_tlc", 0) + accepted
    return lines, files


def selftest(ctx, binary, lines, files, behs, world):
    """The binding must reject what is wrong: corrupted traces, a flipped expectation."""
    n = 0
    for kind in ("store-flipped", "recv-dropped", "height-shifted"):
        bad, done = [], False
        for ln in lines:
            e = json.loads(ln)
            if not done and kind == "store-flipped" and e["ev"] == "Store" and e["ok"]:
                e["ok"], done = False, True
            elif not done and kind == "recv-dropped" and e["ev"] == "Recv" and e["k"] == "good":
                done = True
                continue
            elif not done and kind == "height-shifted" and e["ev"] == "Req" and e["part"] == "cls":
                e["n"], done = e["n"] + 1, True
            bad.append(json.dumps(e))
        if not done:
            continue
        tf = os.path.join(ctx.scratch, "selftest-%s.ndjson" % kind)
        with open(tf, "w") as f:
            f.write("\n".join(bad) + "\n")
        ok, _ = ctx.tlc_trace(FAM, "P2PSyncTrace.tla", "P2PSync_trace.cfg", tf, timeout=900, files=files)
        if ok:
            raise vlib.Broken("selftest: the trace binding accepted a corrupted trace (%s)" % kind)
        n += 1
    ctx.tlc_runs[:] = [r for r in ctx.tlc_runs if not (r["label"].startswith("trace:") and not r["ok"])]
    # a behaviour whose expected Store result is flipped must diverge on the real code
    for b in behs:
        idx = [i for i, s in enumerate(b) if s["a"]["name"] == "Store" and s["a"]["ok"]]
        if idx:
            bb = json.loads(json.dumps(b))
            bb[idx[0]]["a"]["ok"] = False
            r = ctx.run_engine(binary, "TestP2PSyncReplay", {"world": world, "behaviours": [bb]})
            if not r.get("divergences"):
                raise vlib.Broken("selftest: the replay binding accepted a flipped expectation")
            n += 1
            break
    if n < 3:
        raise vlib.Broken("selftest: only %d corruptions could be applied" % n)
    ctx.coverage["selftest_corruptions_rejected"] = n


def run(ctx):
    binary = ctx.build_engine(FAM, stubs=True)
    if ctx.replay:
        rp = json.load(open(ctx.replay))
        if rp["test"] == "trace":
            wd = rp["input"]
            sw = wd.get("switches") or switches(ctx)
            files, _ = sim_files(world_of(wd["world_name"], sw), wd["new_state"], sw)
            tf = os.path.join(ctx.scratch, "replay.ndjson")
            with open(tf, "w") as f:
                f.write("\n".join(wd["lines"]) + "\n")
            ok, r = ctx.tlc_trace(FAM, "P2PSyncTrace.tla", "P2PSync_trace.cfg", tf, timeout=1500, files=files)
            if not ok:
                ctx.report(rp.get("divergence", {}).get("key", "p2psync:trace:not-a-behaviour"), "the recorded run is rejected by P2PSync.tla (replay)", rp)
            return ctx.finish("model_checking", "replay of one recorded trace")
        absorb(ctx, engine(ctx, binary, rp["test"], rp["input"]), rp["test"])
        return ctx.finish("model_checking", "replay")

    try:
        return body(ctx, binary)
    except vlib.Broken as e:
        if not ctx.violations:
            raise
        # a divergence was already observed on the real code; a later stage that cannot run on such a
        # tree (an engine that hangs or dies) must not turn the verdict into "broken"
        print("NOTE: property=G10 a later stage could not run (%s); verdict from the divergences already observed" % str(e).splitlines()[0][:300], flush=True)
        return ctx.finish("model_checking", "stopped after the first stages: divergences observed on the real code")


def body(ctx, binary):
    q = ctx.quick()
    sw = switches(ctx)
    ctx.coverage["switches_expected_of_this_tree"] = {k: ("repaired" if v else "as coded (listed known)") for k, v in sw.items()}
    ctx.assumptions += [
        "nothing in p2p/sync stores a block at the pinned commit (the consumer of Listen() is gone from node.go): the harness plays the "
        "consumer the code had before — Blockchain.Store of every error-free body in arrival order",
        "source blocks are restricted to what the p2p wire format carries (see the limit:* observations for what falls outside)",
        "protocol versions 0.13.2 - 0.14.0 (chainkit cannot build older blocks; 0.14.1 class declarations are outside the format)",
        "the Sierra compiler is a deterministic stand-in (the Rust FFI is not linked offline)",
        "peers misbehave within a finite alphabet of classes, each with several concrete variants (harness/engines/p2psync/faults_test.go)",
    ]
    model_check(ctx)

    # replay of TLC-simulated behaviours on the real Service
    plan = [("mixed", False, 60), ("plain", True, 50), ("forkbelow", False, 40)] if q else \
           [("mixed", False, 500), ("mixed", True, 300), ("plain", True, 400), ("plain", False, 300), ("forkbelow", False, 300), ("forkbelow", True, 200)]
    first = None
    for i, (name, ns, nbeh) in enumerate(plan):
        behs, world = replay(ctx, binary, name, ns, nbeh, ctx.seed * 100 + i, sw)
        first = first or (behs, world)

    # free-running rounds: monitors + TLC trace validation
    free = [("free", False, 8), ("freefork", True, 6)] if q else \
           [("free", False, 40), ("free", True, 30), ("freefork", True, 30), ("freefork", False, 20), ("plain", False, 30)]
    if sw["FieldsChecked"]:
        free += [("freemal", False, 4)] if q else [("freemal", False, 20), ("freemal", True, 20)]
    lines = files = None
    for i, (name, ns, rounds) in enumerate(free):
        l2, f2 = validate_traces(ctx, binary, name, ns, rounds, ctx.seed * 10_000 + 1000 * i, sw)
        if l2 and lines is None:
            lines, files = l2, f2

    # the serving side: every request of P2PServer.tla's domain against the contract
    cases = server_cases(ctx)
    srvw = world_json(SERVER_WORLD, False)
    absorb(ctx, engine(ctx, binary, "TestP2PServerContract", {"world": srvw, "m": 16, "cases": cases}), "TestP2PServerContract")
    absorb(ctx, engine(ctx, binary, "TestP2PServerGarbage", {"world": srvw, "m": 16, "cases": []}), "TestP2PServerGarbage")
    if not q:
        absorb(ctx, engine(ctx, binary, "TestP2PServerContract", {"world": world_json(SERVER_WORLD, True), "m": 16, "cases": cases}), "TestP2PServerContract")

    # cancellation races found by TLC in the as-coded model; malformed answers (EVERY one-field-missing shape in both tiers:
    # a few seconds on a tree that refuses them, a child-process restart per crash on one that does not); stated limits
    rw = world_json(ROBUST_WORLD, False)
    absorb(ctx, engine(ctx, binary, "TestP2PSyncCancel", {"world": rw}), "TestP2PSyncCancel")
    absorb(ctx, engine(ctx, binary, "TestP2PSyncRobust", {"world": rw}, timeout=2400), "TestP2PSyncRobust")
    lim = ctx.run_engine(binary, "TestP2PSyncLimits", {})
    for k, v in sorted((lim.get("stats") or {}).items()):
        if k.startswith("limit:"):
            print("OBSERVATION: property=G10 %s: %s" % (k[6:], v), flush=True)
    ctx.coverage["limit_probes"] = {k: str(v).split(" — ")[0] for k, v in (lim.get("stats") or {}).items()}

    # a finding listed `known` that did not show up is only worth a note
    for swname, on in sw.items():
        if not on and not any(any(vlib.key_matches(h["key"], x) for x in FINDINGS[swname]) for h in ctx.known_hits):
            print("NOTE: property=G10 the known finding behind %s = FALSE did not reproduce in this run" % swname, flush=True)

    if not q and lines:
        selftest(ctx, binary, lines, files, first[0], first[1])

    return ctx.finish("model_checking",
                      "exhaustive TLC on P2PSync.tla (repaired and as-coded designs, liveness under fairness, expected-violation runs per mechanism) "
                      "and P2PServer.tla; TLC-simulated behaviours (peer classes per request, arrival orders, consumer interleavings, cancellation) "
                      "replayed in lockstep on the real p2p/sync Service against scripted peers that are real p2p/server instances behind a fault "
                      "stage, projection compared before every harness step; free-running rounds judged by monitors and by TLC trace validation; "
                      "every request of the server model's domain replayed on the real handlers against the declared range; every "
                      "one-field-missing shape of every answer message (real messages of all ten transaction kinds, synthetic ones for the rest "
                      "of the wire format) in a child process; the cancellation races of the as-coded model reproduced with gates; expectations "
                      "(repaired / as coded) per defect switch from known_findings.json")

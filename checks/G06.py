"""G06 (specification growth, not a listed property) — juno's small concurrency primitives:
utils/broadcast, utils/throttler, utils/pipeline, migration/pipeline, migration/semaphore and the
feeder client's retry/backoff/timeout loop (spec/prims/*.tla, engine `prims`).

Per primitive: exhaustive TLC on the fine-grained model (safety + liveness under fairness),
sequential replay of TLC-simulated call sequences on the real object inside a testing/synctest
bubble (fake clock; quiescence = every goroutine durably blocked, so "blocked for ever" is decided,
never timed out), concurrent rounds with real goroutines validated by TLC against trace specs with
silent linearisation steps and/or by monitors that are the specs' invariants, retained-result and
goroutine-leak checks. Run with ./check G06; evidence in evidence/G06.json; not in MANIFEST.json.

VERIF_G06_ONLY=broadcast,retry restricts a run to some primitives (development aid)."""
import json
import os
from concurrent.futures import ThreadPoolExecutor

import vlib

K_STAGE_LEAK = "stages:stage-blocked-on-send-after-cancel"


def _cfg(consts, init, nxt, extra=""):
    return "CONSTANTS %s\nINIT %s\nNEXT %s\n%sCHECK_DEADLOCK FALSE\n" % (
        " ".join("%s = %s" % kv for kv in consts.items()), init, nxt, extra)


# ------------------------------------------------------------------------------------ TLC phase
def tlc_plan(thorough):
    """(primitive, module, cfg, label, expect) — expect: None = must hold; else the violation the
    run must end with (design as coded / stated observation)."""
    t = thorough
    return [
        ("broadcast", "Broadcast.tla", "Broadcast_quick.cfg", "Broadcast safety cap=2 subs=2 sends=5", None),
        ("broadcast", "Broadcast.tla", "Broadcast_live.cfg" if t else "Broadcast_live_quick.cfg", "Broadcast liveness (fair)", None),
        ("broadcast", "Broadcast.tla", "Broadcast_cap1.cfg", "Broadcast safety cap=1 (degenerate ring)", None),
    ] + ([("broadcast", "Broadcast.tla", "Broadcast_cap4.cfg", "Broadcast safety cap=4", None)] if t else []) + [
        ("throttler", "Throttler.tla", "Throttler_thorough.cfg" if t else "Throttler_quick.cfg", "Throttler safety+deadlock n=2 q=1", None),
        ("throttler", "Throttler.tla", "Throttler_zeroq_thorough.cfg" if t else "Throttler_zeroq.cfg", "Throttler safety+deadlock n=1 q=0", None),
        ("throttler", "Throttler.tla", "Throttler_live.cfg" if t else "Throttler_live_quick.cfg", "Throttler liveness (fair)", None),
        ("throttler", "Throttler.tla", "Throttler_obs.cfg", "Throttler observation: QueueLen() can be negative (two unsynchronised reads)", "QueueLenNonNegative"),
        ("throttler", "Throttler.tla", "Throttler_obs2.cfg", "Throttler observation: a call can be rejected while fewer than N+Q accepted calls exist", "StrictAdmission"),
        ("semaphore", "Semaphore.tla", "Semaphore_quick.cfg", "Semaphore safety size=2", None),
        ("semaphore", "Semaphore.tla", "Semaphore_size1.cfg", "Semaphore safety size=1", None),
        ("semaphore", "Semaphore.tla", "Semaphore_live.cfg", "Semaphore liveness (fair)", None),
        ("retry", "MCRetry.tla", "Retry_quick.cfg", "Retry safety exponential backoff", None),
        ("retry", "MCRetry.tla", "Retry_nop.cfg", "Retry safety NopBackoff", None),
        ("retry", "MCRetry.tla", "Retry_zero.cfg", "Retry safety maxRetries=0, minWait>maxWait", None),
        ("retry", "MCRetry.tla", "Retry_live.cfg", "Retry liveness (fair)", None),
        ("pipeline", "Pipeline.tla", "Pipeline_thorough.cfg" if t else "Pipeline_quick.cfg", "Pipeline safety+deadlock 2 stages x 2 workers", None),
        ("pipeline", "Pipeline.tla", "Pipeline_k3.cfg", "Pipeline safety+deadlock 3 stages x 1 worker", None),
        ("pipeline", "Pipeline.tla", "Pipeline_live.cfg", "Pipeline liveness (fair)", None),
        ("stages", "Stages.tla", "Stages_thorough.cfg" if t else "Stages_quick.cfg", "Stages (Stage+FanIn, repaired) safety+deadlock", None),
        ("stages", "Stages.tla", "Stages_live.cfg", "Stages (repaired) liveness", None),
        ("stages", "Stages.tla", "Stages_bridge_live.cfg", "Stages (Bridge) safety+liveness", None),
        ("stages", "Stages.tla", "Stages_ascoded.cfg", "Stages as coded: a Stage blocked for ever after cancellation", "deadlock"),
        ("stages", "Stages.tla", "Stages_live_ascoded.cfg", "Stages as coded: EverythingEnds", "temporal"),
    ]


def tlc_phase(ctx, only):
    plan = [p for p in tlc_plan(not ctx.quick()) if p[0] in only]
    par = max(1, min(4, int(os.environ.get("VERIF_G06_TLC_PAR", "3"))))
    workers = max(2, int(os.environ.get("VERIF_TLC_WORKERS", "16")) // par)

    def one(p):
        _, module, cfg, label, expect = p
        r = ctx.tlc_check("prims", module, cfg, workers=workers, timeout=3000, label=label,
                          expect_violation=expect is not None, coverage=cfg in ("Throttler_thorough.cfg", "Pipeline_thorough.cfg"))
        return p, r

    with ThreadPoolExecutor(max_workers=par) as ex:
        results = list(ex.map(one, plan))
    for (prim, module, cfg, label, expect), r in results:
        if expect is None:
            if "coverage" in r:
                vlib.require_actions_covered(r, ignore=("ObsReadCnt", "ObsReadSem", "Finished"))
            continue
        if r["ok"] or r["violated"] != expect:
            raise vlib.Broken("expected-violation run %s/%s: expected %s, got %s — the model changed" % (module, cfg, expect, r["violated"]))
        if prim == "throttler":
            print("OBSERVATION property=G06 (TLC, design level, not a verdict): %s" % label, flush=True)


# ------------------------------------------------------------------------------------ helpers
def validate_trace(ctx, module, cfg, tracefile, rinfo, prop_key, engine_test, files=None, timeout=900):
    """TLC decides whether the recorded rounds are behaviours of the trace spec. A rejected round is
    reported (replayable: the recorded lines themselves) and dropped; the rest is validated again."""
    lines = open(tracefile).read().splitlines()
    if len(lines) < 5:
        raise vlib.Broken("%s: concurrent recorder produced no events" % prop_key)
    accepted = 0
    for _ in range(4):
        with open(tracefile, "w") as f:
            f.write("\n".join(lines) + "\n")
        ok, r = ctx.tlc_trace("prims", module, cfg, tracefile, timeout=timeout, files=files)
        if ok:
            accepted += len(rinfo)
            break
        if r["violated"] != "postcondition" or not r.get("highwater"):
            raise vlib.Broken("trace validation of %s failed for another reason than rejection:\n%s" % (
                module, "\n".join(r["out"].splitlines()[-30:])))
        hw = r["highwater"]
        bad = ([x for x in rinfo if x["first"] <= hw <= x["last"]] or [rinfo[-1]])[0]
        seg = lines[bad["first"] - 1: bad["last"]]
        ctx.report("%s-concurrent:trace-rejected" % prop_key,
                   "%s: recorded concurrent history is not a behaviour of %s (stuck at line %d of the round: %s)" % (
                       prop_key, module, hw - bad["first"] + 1, lines[min(hw, len(lines)) - 1][:200]),
                   {"property": "G06", "engine": "prims", "test": engine_test, "seed": ctx.seed,
                    "input": {"trace": {"lines": seg, "module": module, "cfg": cfg, "files": files or {}}}})
        keep, new_info, pos = [], [], 1
        for x in rinfo:
            if x is bad:
                continue
            n = x["last"] - x["first"] + 1
            keep += lines[x["first"] - 1: x["last"]]
            y = dict(x)
            y["first"], y["last"] = pos, pos + n - 1
            new_info.append(y)
            pos += n
        lines, rinfo = keep, new_info
        if not lines:
            break
    ctx.traces_validated += accepted
    k = prop_key + "_concurrent_rounds_validated_by_tlc"
    ctx.coverage[k] = ctx.coverage.get(k, 0) + accepted
    if lines and len(ctx.samples) < 6:
        ctx.samples.append({prop_key + "_trace_excerpt": [json.loads(x) for x in lines[:10]]})


def absorb(ctx, res, test):
    """As ctx.absorb, but the engine's `rounds` bookkeeping stays out of the evidence."""
    res = dict(res)
    res["stats"] = {k: v for k, v in (res.get("stats") or {}).items() if k not in ("rounds",)}
    ctx.absorb(res, "prims", test)


def diverged(ctx, before, name):
    """The sequential replay already showed the real primitive diverging from its specification:
    hammering a divergent primitive concurrently adds nothing and may hang the harness (which would
    turn a verdict into BROKEN), so the concurrent rounds of that primitive are skipped."""
    if any(v["key"].startswith((name, "crash:")) for v in ctx.violations):
        vlib.log("%s: replay diverged; concurrent rounds skipped" % name)
        ctx.coverage[name + "_concurrent_skipped_after_divergence"] = 1
        return True
    return False


def simulate(ctx, module, consts, depth, seed_base, runs, extra_cfg=None):
    cfg = extra_cfg or _cfg(consts, "MBTInit", "MBTNext")
    beh = []
    for j in range(runs):
        beh += ctx.tlc_simulate("prims", module, "simgen.cfg", depth=depth, seed=ctx.seed * 1000 + seed_base + j, files={"simgen.cfg": cfg})
    return beh


# ------------------------------------------------------------------------------------ bindings
def broadcast(ctx, binary):
    thorough = not ctx.quick()
    nv = len(ctx.violations)
    # requested capacity -> actual capacity (New rounds up to a power of two)
    shapes = [(2, 2), (0, 1), (3, 4)] if not thorough else [(2, 2), (0, 1), (1, 1), (3, 4), (4, 4)]
    nb = 0
    for i, (req, cap) in enumerate(shapes):
        beh = simulate(ctx, "BroadcastMBT.tla", {"Cap": cap, "NSubs": 3, "MaxSends": 60, "NProd": 1, "MaxSteps": 45},
                       40000 if thorough else 12000, i * 10, 3 if thorough else 1)
        nb += len(beh)
        absorb(ctx, ctx.run_engine(binary, "TestBroadcastReplay", {"cap": req, "speccap": cap, "behaviours": beh}), "TestBroadcastReplay")
    ctx.coverage["broadcast_behaviours_replayed"] = nb
    if diverged(ctx, nv, "broadcast"):
        return
    tf = os.path.join(ctx.scratch, "bcast.ndjson")
    res = ctx.run_engine(binary, "TestBroadcastConcurrent",
                         {"out": tf, "trace_rounds": 40 if thorough else 12, "monitor_rounds": 6000 if thorough else 1000, "cap": 2}, timeout=1500)
    absorb(ctx, res, "TestBroadcastConcurrent")
    validate_trace(ctx, "BroadcastTrace.tla", "BroadcastTrace.cfg", tf, res["stats"]["rounds"], "broadcast", "TestBroadcastConcurrent")


def throttler(ctx, binary):
    thorough = not ctx.quick()
    nv = len(ctx.violations)
    nb = 0
    shapes = [(2, 2), (1, 0), (1, 1)] if not thorough else [(2, 2), (1, 0), (1, 1), (3, 1), (2, 0)]
    for i, (n, q) in enumerate(shapes):
        beh = simulate(ctx, "ThrottlerMBT.tla", {"N": n, "Q": q, "NCalls": 12, "WithObs": "FALSE", "MaxSteps": 30},
                       30000 if thorough else 9000, 100 + i * 10, 3 if thorough else 1)
        nb += len(beh)
        absorb(ctx, ctx.run_engine(binary, "TestThrottlerReplay", {"n": n, "q": q, "behaviours": beh}), "TestThrottlerReplay")
    ctx.coverage["throttler_behaviours_replayed"] = nb
    if diverged(ctx, nv, "throttler"):
        return
    tf = os.path.join(ctx.scratch, "throttler.ndjson")
    res = ctx.run_engine(binary, "TestThrottlerConcurrent",
                         {"out": tf, "trace_rounds": 30 if thorough else 10, "monitor_rounds": 200 if thorough else 40}, timeout=1500)
    absorb(ctx, res, "TestThrottlerConcurrent")
    neg, reads = res["stats"].get("throttler_queue_len_negative_readings", 0), res["stats"].get("throttler_queue_len_reads", 0)
    if neg:
        # racy by nature (a few per million reads): reported, never a verdict
        print("OBSERVATION property=G06 (seen on the real code in this run, not a verdict): throttler.QueueLen() returned a negative "
              "number %d times in %d reads (currentRequests and len(sem) are read separately)" % (neg, reads), flush=True)
    validate_trace(ctx, "ThrottlerTrace.tla", "ThrottlerTrace.cfg", tf, res["stats"]["rounds"], "throttler", "TestThrottlerConcurrent")


def semaphore(ctx, binary):
    thorough = not ctx.quick()
    nv = len(ctx.violations)
    nb = 0
    for i, size in enumerate([2, 1] if not thorough else [2, 1, 3]):
        beh = simulate(ctx, "SemaphoreMBT.tla", {"Size": size, "NCalls": 12, "MaxPuts": 40, "MaxSteps": 30},
                       30000 if thorough else 9000, 200 + i * 10, 3 if thorough else 1)
        nb += len(beh)
        absorb(ctx, ctx.run_engine(binary, "TestSemaphoreReplay", {"size": size, "behaviours": beh}), "TestSemaphoreReplay")
    ctx.coverage["semaphore_behaviours_replayed"] = nb
    if diverged(ctx, nv, "semaphore"):
        return
    tf = os.path.join(ctx.scratch, "semaphore.ndjson")
    res = ctx.run_engine(binary, "TestSemaphoreConcurrent",
                         {"out": tf, "trace_rounds": 30 if thorough else 10, "monitor_rounds": 100 if thorough else 20}, timeout=1500)
    absorb(ctx, res, "TestSemaphoreConcurrent")
    validate_trace(ctx, "SemaphoreTrace.tla", "SemaphoreTrace.cfg", tf, res["stats"]["rounds"], "semaphore", "TestSemaphoreConcurrent")


def retry(ctx, binary):
    thorough = not ctx.quick()
    nv = len(ctx.violations)
    nb = 0
    ladder = [10, 20, 40]  # MCRetry.MCLadder (ticks)
    shapes = [dict(max_retries=4, min_wait=4, max_wait=20, exp=True), dict(max_retries=3, min_wait=4, max_wait=20, exp=False),
              dict(max_retries=0, min_wait=8, max_wait=4, exp=True)]
    if thorough:
        shapes += [dict(max_retries=6, min_wait=1, max_wait=50, exp=True), dict(max_retries=2, min_wait=30, max_wait=30, exp=True)]
    for i, sh in enumerate(shapes):
        cfg = ("CONSTANTS MaxRetries = %d MinWait = %d MaxWait = %d Exp = %s Ladder <- MCLadder NCallers = 1 MaxGets = 6 MaxSteps = 40\n"
               "INIT MBTInit\nNEXT MBTNext\nCHECK_DEADLOCK FALSE\n") % (sh["max_retries"], sh["min_wait"], sh["max_wait"], "TRUE" if sh["exp"] else "FALSE")
        beh = simulate(ctx, "RetryMBT.tla", None, 24000 if thorough else 8000, 300 + i * 10, 3 if thorough else 1, extra_cfg=cfg)
        nb += len(beh)
        payload = dict(sh)
        payload.update({"ladder": ladder, "behaviours": beh})
        absorb(ctx, ctx.run_engine(binary, "TestRetryReplay", payload), "TestRetryReplay")
    ctx.coverage["retry_behaviours_replayed"] = nb
    if diverged(ctx, nv, "retry"):
        return
    absorb(ctx, ctx.run_engine(binary, "TestRetryLoopback", {"rounds": 3 if thorough else 1}, timeout=900), "TestRetryLoopback")


def pipeline(ctx, binary):
    thorough = not ctx.quick()
    nv = len(ctx.violations)
    nb = 0
    shapes = [(4, 2, 2), (3, 3, 1)] if not thorough else [(4, 2, 2), (3, 3, 1), (5, 1, 3), (3, 2, 3)]
    for i, (n, k, w) in enumerate(shapes):
        beh = simulate(ctx, "PipelineMBT.tla", {"NItems": n, "K": k, "W": w, "FIFO": "TRUE", "MaxFails": 2, "MaxSteps": 70},
                       40000 if thorough else 14000, 400 + i * 10, 3 if thorough else 1)
        nb += len(beh)
        absorb(ctx, ctx.run_engine(binary, "TestPipelineReplay", {"nitems": n, "k": k, "w": w, "behaviours": beh}), "TestPipelineReplay")
    ctx.coverage["pipeline_behaviours_replayed"] = nb
    if diverged(ctx, nv, "pipeline"):
        return
    absorb(ctx, ctx.run_engine(binary, "TestPipelineConcurrent", {"rounds": 1500 if thorough else 300}, timeout=1500), "TestPipelineConcurrent")


def stages(ctx, binary):
    thorough = not ctx.quick()
    nv = len(ctx.violations)
    # expectations: a defect listed as `known` is modelled as coded; fixed or unlisted => repaired model
    as_coded = any(k.get("status") == "known" and vlib.key_matches(k["key"], K_STAGE_LEAK) for k in ctx.known)
    res = ctx.run_engine(binary, "TestStagesCancelLeak", {})
    absorb(ctx, res, "TestStagesCancelLeak")
    if as_coded and not res.get("divergences"):
        print("NOTE: property=G06 known finding [%s] did not reproduce on this tree" % K_STAGE_LEAK, flush=True)
        as_coded = False
    nb = 0
    for i, (nin, nvals, nch) in enumerate([(2, 4, 2)] if not thorough else [(2, 4, 2), (3, 2, 1), (1, 5, 3)]):
        beh = simulate(ctx, "StagesMBT.tla", {"NIn": nin, "NVals": nvals, "NCh": nch, "FIFO": "TRUE", "StageFix": "FALSE" if as_coded else "TRUE",
                                              "PartA": "TRUE", "MaxSteps": 45}, 40000 if thorough else 14000, 500 + i * 10, 3 if thorough else 2)
        nb += len(beh)
        absorb(ctx, ctx.run_engine(binary, "TestStagesReplay", {"nin": nin, "nch": nch, "stagefix": not as_coded, "behaviours": beh}), "TestStagesReplay")
    ctx.coverage["stages_behaviours_replayed"] = nb
    ctx.coverage["stages_model"] = "as coded (known finding listed)" if as_coded else "repaired"
    if diverged(ctx, nv, "stages"):
        return
    absorb(ctx, ctx.run_engine(binary, "TestStagesConcurrent", {"rounds": 600 if thorough else 150}, timeout=1500), "TestStagesConcurrent")


PRIMS = {"broadcast": broadcast, "throttler": throttler, "semaphore": semaphore, "retry": retry, "pipeline": pipeline, "stages": stages}


def run(ctx):
    binary = ctx.build_engine("prims")
    if ctx.replay:
        rp = json.load(open(ctx.replay))
        inp = rp["input"]
        if isinstance(inp, dict) and "trace" in inp:
            tr = inp["trace"]
            tf = os.path.join(ctx.scratch, "replay.ndjson")
            with open(tf, "w") as f:
                f.write("\n".join(tr["lines"]) + "\n")
            validate_trace(ctx, tr["module"], tr["cfg"], tf, [{"first": 1, "last": len(tr["lines"])}],
                           tr["module"].replace("Trace.tla", "").lower(), rp["test"], files=tr.get("files") or None)
        else:
            ctx.absorb(ctx.run_engine(binary, rp["test"], inp), "prims", rp["test"])
        return ctx.finish("model_checking", "replay of one recorded behaviour")
    only = list(ctx.options.get("only") or []) or [p for p in os.environ.get("VERIF_G06_ONLY", "").split(",") if p] or list(PRIMS)
    tlc_phase(ctx, only)
    # the bindings of different primitives are independent processes: two at a time
    with ThreadPoolExecutor(max_workers=max(1, min(3, int(os.environ.get("VERIF_G06_BIND_PAR", "2"))))) as ex:
        for f in [ex.submit(PRIMS[name], ctx, binary) for name in only]:
            f.result()
    ctx.assumptions += [
        "Go runtime: parked goroutines of a channel are served in arrival order (used only to generate replayable behaviours; "
        "the exhaustive models allow any order); an arriving select with two ready cases picks either (never generated for replay)",
        "semaphore: a permit is put back only for a resource that was obtained (x/sync panics otherwise)",
        "migration/pipeline: the caller drains the last stage's outputs until closed, then calls wait() (or the last stage emits nothing)",
        "utils/pipeline: producers stop (close their channel) after a cancellation",
        "retry: cancelling during a request that is followed by a zero wait races with the expired timer (both branches in Retry.tla, not replayed)",
    ]
    return ctx.finish(
        "model_checking",
        "per primitive: exhaustive TLC (safety, deadlock, liveness under fairness) on the fine-grained model; TLC-simulated "
        "call sequences (schema-uniform; internal steps have priority so every recorded call happens at a quiescent point) "
        "replayed on the real object in a synctest bubble with comparison after every call; concurrent rounds of real "
        "goroutines validated by TLC trace specs (silent linearisation steps) and by monitors that are the specs' invariants; "
        "non-trivial = a behaviour performs at least one blocking or state-changing call")

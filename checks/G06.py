"""G06 (specification growth, not a listed property) — juno's small concurrency primitives:
utils/broadcast, utils/throttler, utils/pipeline, migration/pipeline, migration/semaphore and the
feeder client's retry/backoff/timeout loop (spec/prims/*.tla, engine `prims`).

Per primitive: exhaustive TLC on the fine-grained model (safety + liveness under fairness),
sequential replay of TLC-simulated call sequences on the real object inside a testing/synctest
bubble (fake clock; quiescence = every goroutine durably blocked, so "blocked for ever" is decided,
never timed out), concurrent rounds with real goroutines validated by TLC against trace specs with
silent linearisation steps and by monitors that are the specs' invariants, retained-result and
goroutine-leak checks. Run with ./check G06; evidence in evidence/G06.json; not in MANIFEST.json."""
import json
import os
import vlib


def _cfg(consts, init, nxt, extra=""):
    return "CONSTANTS %s\nINIT %s\nNEXT %s\n%sCHECK_DEADLOCK FALSE\n" % (
        " ".join("%s = %s" % kv for kv in consts.items()), init, nxt, extra)


def validate_trace(ctx, module, cfg, tracefile, rinfo, prop_key, engine_test, files=None, timeout=900):
    """TLC decides whether the recorded rounds are behaviours of the trace spec. A rejected round is
    reported (replayable: the recorded lines themselves) and dropped; the rest is validated again."""
    lines = open(tracefile).read().splitlines()
    if len(lines) < 5:
        raise vlib.Broken("%s: concurrent recorder produced no events" % prop_key)
    accepted = 0
    for _ in range(4):
        with open(tracefile, "w") as f:
            f.write("\n".join(lines) + "\n")
        ok, r = ctx.tlc_trace("prims", module, cfg, tracefile, timeout=timeout, files=files)
        if ok:
            accepted += len(rinfo)
            break
        if r["violated"] != "postcondition" or not r.get("highwater"):
            raise vlib.Broken("trace validation of %s failed for another reason than rejection:\n%s" % (
                module, "\n".join(r["out"].splitlines()[-30:])))
        hw = r["highwater"]
        bad = ([x for x in rinfo if x["first"] <= hw <= x["last"]] or [rinfo[-1]])[0]
        seg = lines[bad["first"] - 1: bad["last"]]
        ctx.report("%s-concurrent:trace-rejected" % prop_key,
                   "%s: recorded concurrent history is not a behaviour of %s (stuck at line %d of the round: %s)" % (
                       prop_key, module, hw - bad["first"] + 1, lines[min(hw, len(lines)) - 1][:200]),
                   {"property": "G06", "engine": "prims", "test": engine_test, "seed": ctx.seed,
                    "input": {"trace": {"lines": seg, "module": module, "cfg": cfg, "files": files or {}}}})
        keep, new_info, pos = [], [], 1
        for x in rinfo:
            if x is bad:
                continue
            n = x["last"] - x["first"] + 1
            keep += lines[x["first"] - 1: x["last"]]
            y = dict(x)
            y["first"], y["last"] = pos, pos + n - 1
            new_info.append(y)
            pos += n
        lines, rinfo = keep, new_info
        if not lines:
            break
    ctx.traces_validated += accepted
    ctx.coverage[prop_key + "_concurrent_rounds_validated_by_tlc"] = ctx.coverage.get(prop_key + "_concurrent_rounds_validated_by_tlc", 0) + accepted
    if lines and len(ctx.samples) < 6:
        ctx.samples.append({prop_key + "_trace_excerpt": [json.loads(x) for x in lines[:10]]})


def diverged(ctx, before, name):
    """The sequential replay already showed the real primitive diverging from its specification:
    hammering a divergent primitive concurrently adds nothing and may hang the harness (which would
    turn a verdict into BROKEN), so the concurrent rounds of that primitive are skipped."""
    if len(ctx.violations) + len(ctx.known_hits) > before:
        vlib.log("%s: replay diverged; concurrent rounds skipped" % name)
        ctx.coverage[name + "_concurrent_skipped_after_divergence"] = 1
        return True
    return False


# ------------------------------------------------------------------------------- broadcast
def broadcast(ctx, binary):
    thorough = not ctx.quick()
    ctx.tlc_check("prims", "Broadcast.tla", "Broadcast_quick.cfg", timeout=1200, label="Broadcast safety cap=2 subs=2 sends=5")
    ctx.tlc_check("prims", "Broadcast.tla", "Broadcast_live.cfg" if thorough else "Broadcast_live_quick.cfg",
                  timeout=2400, label="Broadcast liveness (fair)")
    if thorough:
        ctx.tlc_check("prims", "Broadcast.tla", "Broadcast_cap1.cfg", timeout=1200, label="Broadcast safety cap=1")
        ctx.tlc_check("prims", "Broadcast.tla", "Broadcast_cap4.cfg", timeout=2400, label="Broadcast safety cap=4")
    # replay: requested capacity -> actual capacity (rounded up to a power of two)
    shapes = [(2, 2), (0, 1), (3, 4)] if not thorough else [(2, 2), (0, 1), (1, 1), (3, 4), (4, 4)]
    nb, nv = 0, len(ctx.violations) + len(ctx.known_hits)
    for i, (req, cap) in enumerate(shapes):
        cfg = _cfg({"Cap": cap, "NSubs": 3, "MaxSends": 60, "NProd": 1, "MaxSteps": 45}, "MBTInit", "MBTNext")
        beh = []
        for j in range(3 if thorough else 1):
            beh += ctx.tlc_simulate("prims", "BroadcastMBT.tla", "Broadcast_simgen.cfg", depth=(40000 if thorough else 12000),
                                    seed=ctx.seed * 1000 + i * 10 + j, files={"Broadcast_simgen.cfg": cfg})
        nb += len(beh)
        res = ctx.run_engine(binary, "TestBroadcastReplay", {"cap": req, "speccap": cap, "behaviours": beh})
        ctx.absorb(res, "prims", "TestBroadcastReplay")
    ctx.coverage["broadcast_behaviours_replayed"] = nb
    if diverged(ctx, nv, "broadcast"):
        return
    tf = os.path.join(ctx.scratch, "bcast.ndjson")
    res = ctx.run_engine(binary, "TestBroadcastConcurrent",
                         {"out": tf, "trace_rounds": 40 if thorough else 12, "monitor_rounds": 400 if thorough else 60, "cap": 2},
                         timeout=1500)
    ctx.absorb(res, "prims", "TestBroadcastConcurrent")
    validate_trace(ctx, "BroadcastTrace.tla", "BroadcastTrace.cfg", tf, res["stats"]["rounds"], "broadcast", "TestBroadcastConcurrent")


# ------------------------------------------------------------------------------- throttler
def throttler(ctx, binary):
    thorough = not ctx.quick()
    r = ctx.tlc_check("prims", "Throttler.tla", "Throttler_thorough.cfg" if thorough else "Throttler_quick.cfg", timeout=2400,
                      coverage=thorough, label="Throttler safety+deadlock n=2 q=1")
    if thorough:
        vlib.require_actions_covered(r, ignore=("ObsReadCnt", "ObsReadSem"))
    ctx.tlc_check("prims", "Throttler.tla", "Throttler_zeroq_thorough.cfg" if thorough else "Throttler_zeroq.cfg", timeout=1200, label="Throttler safety+deadlock n=1 q=0")
    ctx.tlc_check("prims", "Throttler.tla", "Throttler_live.cfg", timeout=1200, label="Throttler liveness (fair)")
    # design-level observations about the code as it is: expected violations, never a verdict
    for cfg, what in (("Throttler_obs.cfg", "QueueLen() can be negative (two unsynchronised reads)"),
                      ("Throttler_obs2.cfg", "a call can be rejected while fewer than N+Q accepted calls exist (calls being rejected are counted)")):
        r = ctx.tlc_check("prims", "Throttler.tla", cfg, timeout=600, expect_violation=True, label="Throttler observation " + cfg)
        if r["ok"]:
            raise vlib.Broken("expected-violation run %s no longer violates: the model changed" % cfg)
        print("OBSERVATION property=G06 (TLC, design level, not a verdict): throttler: %s" % what, flush=True)
    nv = len(ctx.violations) + len(ctx.known_hits)
    nb = 0
    shapes = [(2, 2), (1, 0), (1, 1)] if not thorough else [(2, 2), (1, 0), (1, 1), (3, 1), (2, 0)]
    for i, (n, q) in enumerate(shapes):
        cfg = _cfg({"N": n, "Q": q, "NCalls": 12, "WithObs": "FALSE", "MaxSteps": 30}, "MBTInit", "MBTNext")
        beh = []
        for j in range(3 if thorough else 1):
            beh += ctx.tlc_simulate("prims", "ThrottlerMBT.tla", "Throttler_simgen.cfg", depth=(30000 if thorough else 9000),
                                    seed=ctx.seed * 1000 + 100 + i * 10 + j, files={"Throttler_simgen.cfg": cfg})
        nb += len(beh)
        ctx.absorb(ctx.run_engine(binary, "TestThrottlerReplay", {"n": n, "q": q, "behaviours": beh}), "prims", "TestThrottlerReplay")
    ctx.coverage["throttler_behaviours_replayed"] = nb
    if diverged(ctx, nv, "throttler"):
        return
    tf = os.path.join(ctx.scratch, "throttler.ndjson")
    res = ctx.run_engine(binary, "TestThrottlerConcurrent",
                         {"out": tf, "trace_rounds": 30 if thorough else 10, "monitor_rounds": 200 if thorough else 40}, timeout=1500)
    ctx.absorb(res, "prims", "TestThrottlerConcurrent")
    validate_trace(ctx, "ThrottlerTrace.tla", "ThrottlerTrace.cfg", tf, res["stats"]["rounds"], "throttler", "TestThrottlerConcurrent")


# ------------------------------------------------------------------------------- semaphore
def semaphore(ctx, binary):
    thorough = not ctx.quick()
    ctx.tlc_check("prims", "Semaphore.tla", "Semaphore_quick.cfg", timeout=1200, label="Semaphore safety size=2")
    ctx.tlc_check("prims", "Semaphore.tla", "Semaphore_size1.cfg", timeout=1200, label="Semaphore safety size=1")
    ctx.tlc_check("prims", "Semaphore.tla", "Semaphore_live.cfg", timeout=1200, label="Semaphore liveness (fair)")
    nv = len(ctx.violations) + len(ctx.known_hits)
    nb = 0
    for i, size in enumerate([2, 1] if not thorough else [2, 1, 3]):
        cfg = _cfg({"Size": size, "NCalls": 12, "MaxPuts": 40, "MaxSteps": 30}, "MBTInit", "MBTNext")
        beh = []
        for j in range(3 if thorough else 1):
            beh += ctx.tlc_simulate("prims", "SemaphoreMBT.tla", "Semaphore_simgen.cfg", depth=(30000 if thorough else 9000),
                                    seed=ctx.seed * 1000 + 200 + i * 10 + j, files={"Semaphore_simgen.cfg": cfg})
        nb += len(beh)
        ctx.absorb(ctx.run_engine(binary, "TestSemaphoreReplay", {"size": size, "behaviours": beh}), "prims", "TestSemaphoreReplay")
    ctx.coverage["semaphore_behaviours_replayed"] = nb
    if diverged(ctx, nv, "semaphore"):
        return
    tf = os.path.join(ctx.scratch, "semaphore.ndjson")
    res = ctx.run_engine(binary, "TestSemaphoreConcurrent",
                         {"out": tf, "trace_rounds": 30 if thorough else 10, "monitor_rounds": 100 if thorough else 20}, timeout=1500)
    ctx.absorb(res, "prims", "TestSemaphoreConcurrent")
    validate_trace(ctx, "SemaphoreTrace.tla", "SemaphoreTrace.cfg", tf, res["stats"]["rounds"], "semaphore", "TestSemaphoreConcurrent")


# ------------------------------------------------------------------------------- retry
def retry(ctx, binary):
    thorough = not ctx.quick()
    for cfg in ("Retry_quick.cfg", "Retry_nop.cfg", "Retry_zero.cfg"):
        ctx.tlc_check("prims", "MCRetry.tla", cfg, timeout=1200, label="Retry safety " + cfg)
    ctx.tlc_check("prims", "MCRetry.tla", "Retry_live.cfg", timeout=1200, label="Retry liveness (fair)")
    nv = len(ctx.violations) + len(ctx.known_hits)
    nb = 0
    ladder = [10, 20, 40]  # MCRetry.MCLadder
    shapes = [dict(max_retries=4, min_wait=4, max_wait=20, exp=True), dict(max_retries=3, min_wait=4, max_wait=20, exp=False),
              dict(max_retries=0, min_wait=8, max_wait=4, exp=True)]
    if thorough:
        shapes += [dict(max_retries=6, min_wait=1, max_wait=50, exp=True), dict(max_retries=2, min_wait=30, max_wait=30, exp=True)]
    for i, sh in enumerate(shapes):
        cfg = ("CONSTANTS MaxRetries = %d MinWait = %d MaxWait = %d Exp = %s Ladder <- MCLadder NCallers = 1 MaxGets = 6 MaxSteps = 40\n"
               "INIT MBTInit\nNEXT MBTNext\nCHECK_DEADLOCK FALSE\n") % (sh["max_retries"], sh["min_wait"], sh["max_wait"], "TRUE" if sh["exp"] else "FALSE")
        beh = []
        for j in range(3 if thorough else 1):
            beh += ctx.tlc_simulate("prims", "RetryMBT.tla", "Retry_simgen.cfg", depth=(24000 if thorough else 8000),
                                    seed=ctx.seed * 1000 + 300 + i * 10 + j, files={"Retry_simgen.cfg": cfg})
        nb += len(beh)
        payload = dict(sh)
        payload.update({"ladder": ladder, "behaviours": beh})
        ctx.absorb(ctx.run_engine(binary, "TestRetryReplay", payload), "prims", "TestRetryReplay")
    ctx.coverage["retry_behaviours_replayed"] = nb
    if diverged(ctx, nv, "retry"):
        return
    ctx.absorb(ctx.run_engine(binary, "TestRetryLoopback", {"rounds": 3 if thorough else 1}, timeout=900), "prims", "TestRetryLoopback")


PRIMS = [broadcast, throttler, semaphore, retry]


def run(ctx):
    binary = ctx.build_engine("prims")
    if ctx.replay:
        rp = json.load(open(ctx.replay))
        inp = rp["input"]
        if isinstance(inp, dict) and "trace" in inp:
            tr = inp["trace"]
            tf = os.path.join(ctx.scratch, "replay.ndjson")
            with open(tf, "w") as f:
                f.write("\n".join(tr["lines"]) + "\n")
            validate_trace(ctx, tr["module"], tr["cfg"], tf, [{"first": 1, "last": len(tr["lines"])}],
                           rp.get("key", "replay"), rp["test"], files=tr.get("files") or None)
        else:
            ctx.absorb(ctx.run_engine(binary, rp["test"], inp), "prims", rp["test"])
        return ctx.finish("model_checking", "replay of one recorded behaviour")
    for p in PRIMS:
        p(ctx, binary)
    return ctx.finish(
        "model_checking",
        "per primitive: exhaustive TLC (safety, liveness under fairness) on the fine-grained model; TLC-simulated "
        "call sequences (schema-uniform, internal steps have priority so every recorded call happens at a quiescent "
        "point) replayed on the real object in a synctest bubble with result comparison after every call; concurrent "
        "rounds of real goroutines validated by TLC trace specs (silent linearisation steps) and by monitors that are "
        "the specs' invariants; non-trivial = a behaviour performs at least one blocking or state-changing call")

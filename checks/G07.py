"""G07 (specification growth, not a listed property) — the LAYERED trie databases under core/trie2:
triedb/pathdb (disk layer + tree of diff layers keyed by state root, dirty buffer, clean cache, flatten,
journal written at shutdown and reloaded at start) and triedb/hashdb (hash-keyed nodes, dirty / clean
caches, no deletion), which C01 states as not covered (the default raw scheme is what C01 covers).
Run with ./check G07. Not registered in MANIFEST.json; evidence is written to evidence/G07.json.

TLC: spec/triedb/PathDB.tla (node-level transcription of layertree.add / cap, difflayer.persist,
disklayer.commit / node, buffer.flush, Journal / loadJournal / getStateRoot, over several tries) and
HashDB.tla, exhaustively on small bounds: every node read under every live root is the node of the
canonical trie of the content that root commits to (through any number of diff layers, after flatten,
commit, journal;close;reopen, crash inside Commit), a layer that lost its base answers with the stale
error or its own state's node, the disk is always the complete node table of ONE state, a new process
serves the persisted state, flatten keeps the branch it was asked to keep, tries do not bleed.
Binding: TLC-simulated behaviours replayed on REAL pathdb / hashdb instances (db/memory and pebblev2 on
an in-memory file system) driven through real trie2 tries (class, contract, two storage tries with
owners; small height and height 251 under the bit-expansion embedding), in lockstep with the raw scheme
and refimpl (three-way), crash images copied at mutation boundaries inside Commit.
The code as it is deviates from the repaired design in three ways (each found by TLC first, each shown
on the real code by TestTriedbProbe through the public API): the probe's result selects the model that
describes THIS code for behaviour generation, and reports each deviation present under its own key.
"""
import json
import re
import vlib

SWITCHES = ("FixJournalStale", "FixDiskRoot", "FixDropByChain")


def read_cfg(name):
    with open(vlib.VERIF + "/spec/triedb/" + name) as f:
        return f.read()


def with_consts(text, **kv):
    for k, v in kv.items():
        if isinstance(v, bool):
            v = "TRUE" if v else "FALSE"
        text, n = re.subn(r"(?m)^(\s*%s\s*=\s*).*$" % re.escape(k), lambda m: m.group(1) + str(v), text)
        if n != 1:
            raise vlib.Broken("cfg constant %s not found exactly once" % k)
    return text


def trie_module():
    # PathDB.tla / HashDB.tla EXTEND the protocol definition of the trie family (one source of truth)
    with open(vlib.VERIF + "/spec/trie/Trie.tla") as f:
        return {"Trie.tla": f.read()}


def tlc_check(ctx, module, cfg, files=None, **kw):
    fs = trie_module()
    fs.update(files or {})
    return ctx.tlc_check("triedb", module, cfg, files=fs, **kw)


def tlc_simulate(ctx, module, cfg, files=None, **kw):
    fs = trie_module()
    fs.update(files or {})
    return ctx.tlc_simulate("triedb", module, cfg, files=fs, **kw)


def absorb(ctx, res, test):
    # a failure of the harness itself is broken machinery, never a verdict about the code
    for dv in res.get("divergences") or []:
        if str(dv.get("key", "")).startswith("triedb-harness:"):
            raise vlib.Broken("engine triedb %s: %s %s" % (test, dv.get("key"), dv.get("what")))
    ctx.absorb(res, "triedb", test)


def run(ctx):
    binary = ctx.build_engine("triedb")
    if ctx.replay:
        with open(ctx.replay) as f:
            rp = json.load(f)
        res = ctx.run_engine(binary, rp["test"], rp["input"], timeout=1800)
        absorb(ctx, res, rp["test"])
        return ctx.finish("model_checking", "replay of one recorded behaviour")

    thorough = not ctx.quick()

    # ---- 0. which pathdb is under test? (directed minimal histories on the real code, public API only)
    probe = ctx.run_engine(binary, "TestTriedbProbe", {}, timeout=900)
    absorb(ctx, probe, "TestTriedbProbe")
    st = probe.get("stats", {})
    for k in ("disk_root_defect", "stale_journal_defect", "repeated_root_defect"):
        if k not in st:
            raise vlib.Broken("probe did not decide %s: %s" % (k, json.dumps(probe.get("divergences"))[:2000]))
    fixes = {"FixDiskRoot": not st["disk_root_defect"], "FixJournalStale": not st["stale_journal_defect"],
             "FixDropByChain": not st["repeated_root_defect"]}
    for k, v in fixes.items():
        ctx.coverage["code_has_" + k] = v

    # development aid (mutation runs against a scratch worktree): skip the exhaustive model checking,
    # which does not depend on the code under test; never honoured for the registered tree
    import os
    dev_fast = vlib.REPO != "/repo" and os.environ.get("VERIF_G07_FAST") == "1"

    # ---- 1. TLC on the specifications (repaired design: every property holds)
    if not dev_fast:
        tlc_check(ctx, "PathDB.tla", "PathDB_thorough.cfg" if thorough else "PathDB_quick.cfg", timeout=3000)
        if thorough:
            tlc_check(ctx, "PathDB.tla", "PathDB_autocap.cfg", timeout=3000)
        tlc_check(ctx, "HashDB.tla", "HashDB_thorough.cfg" if thorough else "HashDB_quick.cfg", timeout=3000)
    # the code as it is: each switch that is FALSE in the tree under test makes TLC refute a property
    # (a vacuity guard for the property AND the design-level statement of the deviation)
    base = read_cfg("PathDB_asis.cfg")
    for sw, inv in (("FixDropByChain", "CapKeepsBranch"), ("FixDiskRoot", "OpensAfterRestart"), ("FixJournalStale", "ReadsRight")):
        if (fixes[sw] and not thorough) or dev_fast:
            continue
        r = tlc_check(ctx, "PathDB.tla", "asis.cfg", files={"asis.cfg": with_consts(base, **{sw: False})},
                          expect_violation=True, timeout=1800, label="PathDB.tla/as-coded(%s=FALSE)" % sw)
        if r["violated"] is None:
            raise vlib.Broken("PathDB.tla with %s = FALSE violates nothing: the switch or the property is vacuous" % sw)
        ctx.coverage["asis_%s_violates" % sw] = r["violated"]
    if thorough:
        # vacuity: every action taken; witnesses reachable; seeded model defects refuted
        r = tlc_check(ctx, "PathDB.tla", "PathDB_quick.cfg", coverage=True, timeout=3000, label="PathDB.tla/coverage")
        vlib.require_actions_covered(r)
        if not r.get("coverage"):
            raise vlib.Broken("no action coverage reported for PathDB.tla")
        r = tlc_check(ctx, "HashDB.tla", "HashDB_quick.cfg", coverage=True, timeout=1200, label="HashDB.tla/coverage")
        vlib.require_actions_covered(r)
        quick = read_cfg("PathDB_quick.cfg")
        for wit, extra in (("WitnessRootReplaced", {}), ("WitnessBufferedJournal", {}),
                           ("WitnessSemiStale", {"FixDropByChain": False}), ("WitnessForkDropped", {"FixDropByChain": False})):
            text = re.sub(r"(?m)^INVARIANTS.*$", "INVARIANTS " + wit, with_consts(quick, **extra))
            r = tlc_check(ctx, "PathDB.tla", "wit.cfg", files={"wit.cfg": text}, expect_violation=True, timeout=1200,
                              label="PathDB.tla/" + wit)
            if r["violated"] is None:
                raise vlib.Broken("witness %s is unreachable: the properties it guards are vacuous" % wit)
        for bug in ("older-over-newer", "drop-del-at-flatten", "journal-misses-top", "no-stale-check", "owner-omitted", "no-clean-invalidate"):
            extra = {"Bug": '"%s"' % bug}
            if bug == "no-stale-check":
                extra["FixDropByChain"] = False
            r = tlc_check(ctx, "PathDB.tla", "bug.cfg", files={"bug.cfg": with_consts(quick, **extra)}, expect_violation=True,
                              timeout=1200, label="PathDB.tla seeded " + bug)
            if r["violated"] is None:
                raise vlib.Broken("seeded model defect %s is not detected by PathDB.tla" % bug)
        hq = read_cfg("HashDB_quick.cfg")
        for bug in ("commit-skips-cached", "update-skips-cached"):
            r = tlc_check(ctx, "HashDB.tla", "bug.cfg", files={"bug.cfg": with_consts(hq, Bug='"%s"' % bug)}, expect_violation=True,
                              timeout=600, label="HashDB.tla seeded " + bug)
            if r["violated"] is None:
                raise vlib.Broken("seeded model defect %s is not detected by HashDB.tla" % bug)
        for wit in ("WitnessLostOnCrash", "WitnessSharedCache"):
            text = re.sub(r"(?m)^INVARIANTS.*$", "INVARIANTS " + wit, hq)
            r = tlc_check(ctx, "HashDB.tla", "wit.cfg", files={"wit.cfg": text}, expect_violation=True, timeout=600,
                              label="HashDB.tla/" + wit)
            if r["violated"] is None:
                raise vlib.Broken("witness %s is unreachable" % wit)

    # ---- 2. replay on the real pathdb: behaviours of the model that describes this code
    sim = with_consts(read_cfg("PathDB_sim.cfg"), **fixes)
    nruns = 8 if thorough else 2
    per_run = 100 if thorough else 40
    behaviours = []
    for i in range(nruns):
        behaviours += tlc_simulate(ctx, "PathDBMBT.tla", "sim.cfg", files={"sim.cfg": sim}, depth=31 * per_run,
                                       seed=ctx.seed * 1000 + i, timeout=900)
    res = ctx.run_engine(binary, "TestPathReplay", {"h": 3, "behaviours": behaviours}, timeout=3000)
    absorb(ctx, res, "TestPathReplay")
    ctx.coverage["behaviours_pathdb"] = len(behaviours)
    ctx.coverage["steps_replayed_pathdb"] = res.get("steps", 0)

    # the flatten Update runs by itself at 128 layers (public API only): AutoCap = 128 model, long behaviours
    deep = with_consts(read_cfg("PathDB_deep_sim.cfg"), **fixes)
    dbeh = []
    for i in range(3 if thorough else 1):
        dbeh += tlc_simulate(ctx, "PathDBMBT.tla", "deep.cfg", files={"deep.cfg": deep}, depth=151 * (3 if thorough else 1) + 2,
                                 seed=ctx.seed * 1000 + 700 + i, timeout=1500)
    res = ctx.run_engine(binary, "TestPathReplay", {"h": 3, "autocap": True, "behaviours": dbeh}, timeout=3000)
    absorb(ctx, res, "TestPathReplay")
    ctx.coverage["behaviours_pathdb_autocap128"] = len(dbeh)

    # ---- 3. replay on the real hashdb
    hbeh = []
    for i in range(4 if thorough else 1):
        hbeh += tlc_simulate(ctx, "HashDBMBT.tla", "HashDB_sim.cfg", depth=31 * (100 if thorough else 40),
                                 seed=ctx.seed * 1000 + 300 + i, timeout=900)
    res = ctx.run_engine(binary, "TestHashReplay", {"h": 3, "behaviours": hbeh}, timeout=3000)
    absorb(ctx, res, "TestHashReplay")
    ctx.coverage["behaviours_hashdb"] = len(hbeh)
    ctx.coverage["steps_replayed_hashdb"] = res.get("steps", 0)

    ctx.assumptions += [
        "neither scheme has a production caller (blockchain/statebackend opens triedb.New(database, nil) = raw scheme); the findings are about library code",
        "core/crypto, core/felt and the trie2 trie itself (C01) are trusted here: the tries are the drivers, the databases are under test",
        "a storage trie's owner is never the zero address (pathdb and hashdb file owner 0 under the contract trie in memory)",
        "one Batch.Write is atomic (C15); a crash is the store as of a mutation boundary",
        "single caller: the locks of pathdb are not exercised (diskLayer.journal takes its read lock twice)",
        "layerTree.cap with a small `layers` argument is reached with go:linkname (harness/engines/triedb/link.go); the public path "
        "(Update flattening at 128 layers) is replayed separately with long behaviours",
    ]
    return ctx.finish(
        "model_checking",
        "exhaustive TLC on PathDB.tla (2 tries of height 2, <= 3 updates with forks / repeated roots / empty blocks, Cap 1..2, Commit, "
        "journal, <= 2 restarts, crash inside Commit, lazy and eager write buffer, auto-flatten at 2 layers) and HashDB.tla; "
        "TLC-simulated behaviours (30 steps, 4 tries of height 3: one to three slot changes per block on the head or an older live root, "
        "reverts to an earlier root, empty blocks, Cap / Commit / Journal / shutdown / crash / crash inside Commit) replayed on the real "
        "pathdb and hashdb over db/memory and pebblev2, at height 5 and at height 251 under a random bit-expansion embedding; plus 170-step "
        "behaviours through the public API only (Update flattening at 128 layers); non-trivial = a behaviour builds at least two layers and "
        "flattens, commits, journals or restarts at least once; every step compares the registration of every root ever created, and for "
        "live roots every Get, every trie root and every node by path / by (path, hash) with the raw scheme, refimpl and the model")

"""C16 — pruning never damages retained blocks, the head state, or L1-unconfirmed history
(spec/chain/Prune.tla, harness/engines/prune).

1. TLC, exhaustive: the REPAIRED design (FixPruneAtomicFloor = TRUE) satisfies NoUnderflow,
   FloorBound, AgeBound, RetainedIntact, StateReadsCorrect, BelowFloorClean, Resumable and
   FloorMonotone for every sequence of <= MaxSteps operations over {new block (old/young), revert of
   an L1-unconfirmed block, new L1 head, delivery of ANY published head / L1-head event, min-age
   sample, restart} with every prune refined into its batch writes and a cancellation or a crash
   after any of them; Retained in {0, 1, 3, 20}, batches of 1 / 2 / all blocks, L1 head lagging,
   equal to and ahead of the local head.  The FAITHFUL model (switch as probed on the code) is
   expected to violate RetainedIntact / StateReadsCorrect iff H12 is still there.
   The windowed event index (aggregated bloom filters over aligned windows of W blocks: running
   window in memory, lazily rebuilt after a start; completed windows persisted; a prune deletes
   the persisted windows wholly below the block it reached) is part of the model with W = 4, so
   that the oldest retained block lands on every residue mod W: EventsCovered, FilterFollowsChain.
   With the bound of that delete moved by one block (WinBound "inclusive" / "short") TLC must
   report EventsCovered / BelowFloorClean violated.
2. Binding (a): TLC-simulated behaviours replayed on a real pruning node (real pruner.Pruner service
   fed through real feeds, real RetentionFloor shared with the Blockchain, fault-injecting store):
   decision of every handler, number of batch writes, projected durable state after every single
   batch write, the in-memory floor; plus every monitor of the property against an unpruned twin.
3. Binding (b): interruption-free behaviours; every prune is re-run with a cancellation and with a
   crash after EVERY batch write, restarted, resumed — same final database as uninterrupted.
4. The same two bindings with ABSOLUTE block numbers across a boundary of the real window size
   (scenarios w0 / w1: the world starts from the image of an earlier life — chain 0..Base pruned
   up to Base, Base = 8184 / 16376 — so that the dozen blocks of a behaviour straddle block 8192 /
   16384; the set of persisted windows is part of the projection compared after every step and
   every batch write), and binding (c): directed boundary scenarios — the oldest retained block
   placed on kW-2..kW+1 (k = 1, 2) by the real service, batches of one block and of all, event index cold / warm /
   not yet initialised / re-initialised after a crash or a graceful stop — judged by unfiltered
   and filtered event queries against a scan of the twin's receipts.
"""
import json
import vlib

WIN = 8192          # core.NumBlocksPerFilter (the engine refuses behaviours generated for another size)
WBASE = WIN - 8     # first block of the boundary scenarios' initial chain: across block W (the first window, which
                    # the code treats apart) ...
WBASE2 = 2 * WIN - 8  # ... and across block 2W (a window in the middle; its predecessor already pruned)
SCEN = {
    # name: MaxH InitH MaxL1 Retained PruneBatch L2PerPrune MinAge [Base]
    "r1": dict(MaxH=13, InitH=11, MaxL1=15, Retained=1, PruneBatch=2, L2PerPrune=2, MinAge=True),
    "r0": dict(MaxH=13, InitH=10, MaxL1=15, Retained=0, PruneBatch=1, L2PerPrune=1, MinAge=False),
    "r3": dict(MaxH=13, InitH=12, MaxL1=15, Retained=3, PruneBatch=99, L2PerPrune=1, MinAge=True),
    "r20": dict(MaxH=13, InitH=11, MaxL1=30, Retained=20, PruneBatch=1, L2PerPrune=1, MinAge=False),
    # across a window boundary: L1 heads near the local head put the oldest retained block on kW-2..kW+1
    "w1": dict(MaxH=WBASE2 + 13, InitH=WBASE2 + 11, MaxL1=WBASE2 + 15, Retained=1, PruneBatch=2, L2PerPrune=1, MinAge=True, Base=WBASE2),
    "w0": dict(MaxH=WBASE + 13, InitH=WBASE + 10, MaxL1=WBASE + 15, Retained=0, PruneBatch=1, L2PerPrune=1, MinAge=False, Base=WBASE),
}


def tla_bool(b):
    return "TRUE" if b else "FALSE"


def cfg_text(sc, sw, interrupts=True, max_steps=8, mbt=False, revert=True):
    c = dict(SCEN[sc])
    c.setdefault("Base", 0)
    # exhaustive: small windows, every residue; behaviours to replay: the code's window size
    c["W"] = WIN if mbt else 4
    lines = ["CONSTANTS"]
    for k in ("MaxH", "InitH", "MaxL1", "Retained", "PruneBatch", "L2PerPrune", "W", "Base"):
        lines.append("  %s = %d" % (k, c[k]))
    lines += ["  Lag = 10", "  MinAge = %s" % tla_bool(c["MinAge"]), "  MaxSteps = %d" % max_steps,
              "  EnableRevert = %s" % tla_bool(revert), "  EnableInterrupts = %s" % tla_bool(interrupts),
              "  FixPruneAtomicFloor = %s" % tla_bool(sw["FixPruneAtomicFloor"]),
              "  FixSampleOnReorg = %s" % tla_bool(sw["FixSampleOnReorg"]),
              '  WinBound = "exact"']
    if mbt:
        lines += ["INIT MBTInit", "NEXT MBTNext"]
    else:
        lines += ["INIT Init", "NEXT Next", "VIEW view",
                  "INVARIANTS TypeOK NoUnderflow FloorBound AgeBound RetainedIntact StateReadsCorrect BelowFloorClean "
                  "EventsCovered FilterFollowsChain",
                  "PROPERTIES Resumable FloorMonotone RestartIsNoOp InitFilterOnlyAdds"]
    lines.append("CHECK_DEADLOCK FALSE")
    return "\n".join(lines) + "\n", dict(c)


# specification switch -> key of the confirmed defect it models
DEFECT_KEYS = {
    "FixPruneAtomicFloor": "prune-crash:floor-reseed-below-deleted-history",
    "FixSampleOnReorg": "min-age:young-block-pruned-after-reorg-below-sample",
}


def engine(ctx, binary, test, payload, timeout=3000):
    """Run an engine test with a deadline shorter than the driver's timeout (a hang still delivers
    what was recorded). A machinery error is exit 2 only if no divergence was recorded before it."""
    payload = dict(payload, deadlineSec=max(60, timeout - 120))
    res = ctx.run_engine(binary, test, payload, timeout=timeout)
    err = res.get("stats", {}).pop("machinery_error", None)
    if err:
        if not res.get("divergences"):
            raise vlib.Broken("engine %s: %s\n%s" % (test, err, res.get("_stdout", "")[-2000:]))
        vlib.log("engine %s stopped early (%s) after recording %d divergences" % (test, err, len(res["divergences"])))
    return res


def model_switches(ctx, probe_stats):
    """Expectations come from known_findings.json: a defect is modelled as present (switch FALSE)
    only if its key is listed `known` for this property AND its directed replay reproduces it;
    listed `fixed` or not listed => repaired model (a returning defect departs from it = VIOLATION)."""
    sw = {}
    for s, key in DEFECT_KEYS.items():
        listed = any(k["status"] == "known" and vlib.key_matches(k["key"], key) for k in ctx.known)
        reproduces = probe_stats.get(s) is False or probe_stats.get(s) == 0
        sw[s] = not (listed and reproduces)
        if listed and not reproduces:
            print("NOTE: property=%s known finding %s did not reproduce on this tree" % (ctx.prop, key), flush=True)
    return sw


def run(ctx):
    binary = ctx.build_engine("prune")
    if ctx.replay:
        with open(ctx.replay) as f:
            rp = json.load(f)
        res = ctx.run_engine(binary, rp["test"], rp["input"], timeout=3000)
        ctx.absorb(res, "prune", rp["test"])
        return ctx.finish("model_checking", "replay of one recorded behaviour / interruption point")

    thorough = not ctx.quick()
    probe = engine(ctx, binary, "TestPruneProbe", {}, timeout=600)
    pstats = dict(probe.get("stats", {}))
    ctx.absorb(probe, "prune", "TestPruneProbe")   # directed replays of the confirmed defects
    faithful = model_switches(ctx, pstats)
    repaired = {k: True for k in faithful}
    ctx.coverage["model_switches"] = faithful
    vlib.log("model switches (from known_findings.json; FALSE = listed known and reproduced): %s" % faithful)

    # ---- 1. TLC on the specification (repaired design)
    ctx.tlc_check("chain", "MCPrune.tla", "Prune_quick.cfg", timeout=900)
    ctx.tlc_check("chain", "MCPrune.tla", "Prune_quick_r0.cfg", timeout=900)
    # the bound of the persisted-window delete moved by one block must be caught by the model's properties
    xw = [("Prune_x_winbound.cfg", ("EventsCovered",))]
    if thorough:
        xw.append(("Prune_x_winleak.cfg", ("BelowFloorClean", "Resumable")))
    for cfg, must in xw:
        r = ctx.tlc_check("chain", "MCPrune.tla", cfg, timeout=900, expect_violation=True,
                          label="model with the window delete bound off by one, %s (expected to violate)" % cfg)
        if r["ok"] or r["violated"] not in must:
            raise vlib.Broken("%s: expected a violation of %s, TLC reports %s" % (cfg, " / ".join(must), r["violated"]))
    cov = None
    if thorough:
        for cfg in ("Prune_thorough.cfg", "Prune_thorough_r0.cfg", "Prune_thorough_r3.cfg", "Prune_thorough_r20.cfg"):
            r = ctx.tlc_check("chain", "MCPrune.tla", cfg, timeout=3000, coverage=(cfg == "Prune_thorough.cfg"))
            if cfg == "Prune_thorough.cfg":
                cov = r

    def self_checks():
        """Vacuity and model self-checks; run AFTER the engines so that they cannot turn a violation
        observed on the code into exit 2."""
        if cov is not None:
            vlib.require_actions_covered(cov)
        if thorough:
            for wname in ("NeverCancelledMidSweep", "NeverCrashedMidSweep", "NeverHeaderPruned", "NeverTimeFloorBinds",
                          "NeverL2PathPrunes", "NeverFloorOnWindowEnd", "NeverFloorOnWindowStart",
                          "NeverWindowDeletedMidSweep", "NeverWindowReopened", "NeverPruneBeforeInit",
                          "NeverAnchorlessRebuild"):
                txt, _ = cfg_text("r1", repaired, max_steps=6)
                if wname == "NeverAnchorlessRebuild":
                    # the oldest retained block inside the head's window: Retained 0, head 10, L1 head 9
                    txt, _ = cfg_text("r0", repaired, max_steps=4)
                if wname == "NeverTimeFloorBinds":
                    # needs young blocks below an L1 head that is below the local head: a shorter old chain
                    txt = txt.replace("InitH = 11", "InitH = 9")
                # no VIEW here: the witnesses speak about act/res, which the view hides
                txt = txt.split("INVARIANTS")[0].replace("VIEW view\n", "") + "INVARIANTS %s\nCHECK_DEADLOCK FALSE\n" % wname
                r = ctx.tlc_check("chain", "MCPrune.tla", "witness.cfg", files={"witness.cfg": txt}, timeout=900,
                                  expect_violation=True, label="witness " + wname)
                if r["ok"]:
                    raise vlib.Broken("vacuity: %s is never violated, i.e. the situation is unreachable in the model" % wname)
        # the model with a listed-known defect switched on must exhibit it
        if not faithful["FixPruneAtomicFloor"]:
            txt, _ = cfg_text("r1", dict(repaired, FixPruneAtomicFloor=False), max_steps=5)
            r = ctx.tlc_check("chain", "MCPrune.tla", "faithful.cfg", files={"faithful.cfg": txt}, timeout=900,
                              expect_violation=True, label="model with H12 (expected to violate)")
            if r["ok"]:
                raise vlib.Broken("the model with FixPruneAtomicFloor = FALSE satisfies every invariant")
            ctx.coverage["faithful_model_violates_h12"] = r["violated"]
        if not faithful["FixSampleOnReorg"]:
            txt, _ = cfg_text("r1", dict(repaired, FixSampleOnReorg=False), max_steps=8)
            r = ctx.tlc_check("chain", "MCPrune.tla", "faithful2.cfg", files={"faithful2.cfg": txt}, timeout=1500,
                              expect_violation=True, label="model with the min-age sample defect (expected to violate)")
            if r["ok"] or r["violated"] != "AgeBound":
                raise vlib.Broken("the model with FixSampleOnReorg = FALSE does not violate AgeBound")
            ctx.coverage["faithful_model_violates_age"] = r["violated"]

    # ---- 2./3. binding
    new_state = [False, True]
    # the image of 16376 blocks is built for the legacy state only in quick
    new_state_of = {"w1": [False]} if not thorough else {}
    n_conf = ({"r1": 100, "r0": 100, "r3": 60, "r20": 20, "w1": 50, "w0": 50} if thorough else
              {"r1": 18, "r0": 18, "r3": 12, "r20": 5, "w1": 6, "w0": 8})
    # (an interruption trial across the real boundary costs 4x one from genesis: every legacy history read copies
    # the memory database with its 8 MB filter rows; thorough only)
    n_enum = ({"r1": 25, "r0": 25, "r3": 15, "r20": 0, "w1": 6, "w0": 8} if thorough else
              {"r1": 6, "r0": 6, "r3": 4, "r20": 0, "w1": 0, "w0": 0})
    # Pebble (thorough): every trial opens and closes a database directory: a slice only
    n_pebble_conf = {"r1": 20, "r0": 20, "r3": 10, "w0": 10}
    n_pebble_enum = {"r0": 4, "r1": 3, "w0": 2}
    total_conf = total_enum = 0
    for i, sc in enumerate(SCEN):
        txt, c = cfg_text(sc, faithful, interrupts=True, mbt=True)
        bs = ctx.tlc_simulate("chain", "PruneMBT.tla", "sim.cfg", depth=30 * n_conf[sc], seed=ctx.seed * 100 + i,
                              files={"sim.cfg": txt}, timeout=900, max_behaviours=n_conf[sc])
        total_conf += len(bs)
        runs = [("memory", bs)]
        if thorough and sc in n_pebble_conf:
            runs.append(("pebble", bs[:n_pebble_conf[sc]]))
        for be, part in runs:
            res = engine(ctx, binary, "TestPruneConform",
                         {"consts": c, "behaviours": part, "newState": new_state_of.get(sc, new_state), "backends": [be]}, timeout=3000)
            ctx.absorb(res, "prune", "TestPruneConform")
            vlib.log("engine TestPruneConform %s %s: %d behaviours, %.0fs" % (sc, be, len(part), res["_wall_s"]))
        if n_enum[sc]:
            txt, c = cfg_text(sc, faithful, interrupts=False, mbt=True)
            bs = ctx.tlc_simulate("chain", "PruneMBT.tla", "ops.cfg", depth=30 * n_enum[sc], seed=ctx.seed * 100 + 50 + i,
                                  files={"ops.cfg": txt}, timeout=900, max_behaviours=n_enum[sc])
            bs = [b for b in bs if any(s["a"]["name"] == "PruneStep" for s in b)]
            total_enum += len(bs)
            runs = [("memory", bs)]
            if thorough and sc in n_pebble_enum:
                runs.append(("pebble", bs[:n_pebble_enum[sc]]))
            for be, part in runs:
                if not part:
                    continue
                res = engine(ctx, binary, "TestPruneEnum",
                             {"consts": c, "behaviours": part, "newState": new_state_of.get(sc, new_state), "backends": [be]}, timeout=3000)
                ctx.absorb(res, "prune", "TestPruneEnum")
                vlib.log("engine TestPruneEnum %s %s: %d sequences, %.0fs" % (sc, be, len(part), res["_wall_s"]))
    # directed boundary scenarios on the real window size (quick: every mode on the legacy state, two on the new one)
    plans = [] if thorough else [{"newState": False, "k": [1], "modes": ["cold", "warm", "lazy", "graceful", "step"]},
                                 {"newState": False, "k": [2], "modes": ["cold", "crash", "step"]},
                                 {"newState": True, "k": [1], "modes": ["cold"]}]
    res = engine(ctx, binary, "TestPruneWindow", {"plans": plans}, timeout=1500)
    ctx.absorb(res, "prune", "TestPruneWindow")
    vlib.log("engine TestPruneWindow: %s boundary cases, %.0fs" % (res.get("stats", {}).get("window_cases"), res["_wall_s"]))
    res = engine(ctx, binary, "TestPruneConcurrent", {"newState": [False, True]}, timeout=1500)
    ctx.absorb(res, "prune", "TestPruneConcurrent")
    vlib.log("engine TestPruneConcurrent: %s reads in %s rounds, %.0fs" % (
        res.get("stats", {}).get("concurrent_reads"), res.get("stats", {}).get("concurrent_rounds"), res["_wall_s"]))
    try:
        self_checks()
    except vlib.Broken:
        if not ctx.violations:
            raise
    ctx.coverage["behaviours_conformance"] = total_conf
    ctx.coverage["sequences_interruption_enumerated"] = total_enum
    if not ctx.violations:
        # "whatever blocks arrive ... whenever pruning runs": the real pruner next to the real Synchronizer and L1 head
        ctx.include("G02", accept=lambda k: k.startswith(("node:state-served-below-pruned-history", "node:head-state-below-floor",
                                                           "node:head-block-pruned", "node:floor-above-retention-bound",
                                                           "node:retained", "node:no-convergence:revert-below-retention-floor",
                                                           "crash:pruner.")),
                    why="the real Pruner service running concurrently with stores, reverts and L1 heads on one store (Node.tla)")
        # migration/historyprunner/migrator.go is anchored here; its check lives in the migration family (C18)
        ctx.include("C18", options={"only": ["historypruner"]},
                    accept=lambda k: k.startswith("historypruner-migration:") and "crash-in-restorer" not in k,
                    why="the optional history-pruning migration: L1 head below / at / ahead of the local head, crash after every "
                        "durable mutation, retained blocks read back")
    ctx.assumptions += [
        "a single Batch.Write is atomic and durable (C15 examines the backends)",
        "L1 heads are recorded in increasing order (L1 reorgs are C17's subject)",
        "block timestamps are monotone and the clock does not advance inside a behaviour (timestamps are placed "
        "50 hours away from the min-age boundary)",
        "events of the trigger feeds are delivered one at a time; the one-element feed buffer's drop-when-full is "
        "modelled as 'any published event may never arrive'",
        "no Store concurrent with a running prune",
    ]
    return ctx.finish(
        "model_checking",
        "exhaustive TLC on Prune.tla (repaired design; chain of 12-14 blocks so that the 10-block header carve-out is "
        "crossed and, with event-filter windows of 4 blocks, the oldest retained block lands on every residue; Retained "
        "0/1/3/20; batches of 1/2/all blocks; cancellation or crash after every batch write) + "
        "TLC-simulated behaviours replayed on a real pruning node with the real pruner service (conformance after every "
        "step and every batch write, all reads against an unpruned twin) + every batch write of every prune of "
        "interruption-free behaviours cancelled/crashed, restarted and resumed; the same from the image of a node "
        "pruned up to block 8184 / 16376 so that the behaviours straddle the real window boundary 8192 / 16384, plus directed "
        "scenarios placing the oldest retained block on kW-2..kW+1 (k = 1, 2) under six states of the event index; non-trivial = the behaviour "
        "contains at least one delivered trigger event")

"""C14 — the consensus write-ahead log never loses flushed entries and never revives pruned ones
(spec/consensus/Wal.tla).

TLC: exhaustive check of Wal.tla (one action per code step of SetWALEntry / DeleteWALEntries /
Flush = write ; fsync ; [watermark tmp ; rename ; dir fsync ; rotate ; unlink*] / Close / crash at
every step with every tail and every subset of not-yet-durable unlinks / Open): the reading after
every Open and of every crash image of every reachable state is the flushed batches, optionally
plus the WHOLE batch in flight; Open never fails; a failed Flush changes nothing durable.
Binding: TLC-simulated behaviours are replayed on the real walstore.NewTendermintWALStore in a
scratch directory; the real Flush runs under a wrapper of pebble's vfs.Default (write / fsync
faults, directory copies at the write, at the fsync, at every unlink) and, when juno carries it,
the verif crash-point hook (watermark tmp written / renamed / rotated).  EVERY copy is reopened
and LoadAllEntries compared with the model's admissible readings; Crash entries make the replay
continue on the copy; the last log is cut at every byte past the last synced record and
corrupted byte by byte (sweep).
"""
import json
import os
import random
import shutil
import subprocess
import time

import vlib

MODEL_INTERVAL = 2  # CleanupInterval in Wal_*.cfg (256 in the code)


def build(ctx):
    """ctx.build_engine plus the `walhook` tag when the juno tree carries the crash-point hook."""
    hook = os.path.exists(os.path.join(vlib.REPO, "consensus", "walstore", "verif_hook.go"))
    os.makedirs(os.path.join(vlib.BUILD, "bin"), exist_ok=True)
    vlib.ensure_harness_mod()
    out = os.path.join(vlib.BUILD, "bin", "wal.test")
    cmd = ["go", "test", "-c", "-tags", "verif,walhook" if hook else "verif", "-vet=off", "-o", out]
    if vlib.REPO != "/repo":
        out = os.path.join(ctx.scratch, "wal.test")
        cmd[cmd.index("-o") + 1] = out
        cmd.append("-modfile=" + vlib.alt_modfile(ctx.scratch))
    cmd.append("./engines/wal")
    t = time.time()
    p = subprocess.run(cmd, cwd=vlib.HARNESS, env=vlib.go_env(), capture_output=True, text=True, timeout=1500)
    if p.returncode != 0:
        raise vlib.Broken("harness build failed for engine wal:\n%s" % (p.stdout + p.stderr)[-6000:])
    vlib.log("built engine wal (crash-point hook %s) in %.1fs" % ("present" if hook else "ABSENT: watermark images synthesised", time.time() - t))
    return out, hook


def decorate(behaviours, seed, sweep_every, thorough):
    """Attach the engine options (deterministic in the seed) that make a replay exact."""
    rnd = random.Random(seed)
    out = []
    for i, steps in enumerate(behaviours):
        ballast = 0
        if i % 4 == 1:   # the next batches straddle a 32 KiB block boundary of the log
            ballast = 32768 * rnd.choice([1, 1, 2]) - rnd.randrange(0, 500)
        fat = i % 24 == 5   # the ballast is one batch of three 32 KiB blocks (a multi-chunk record)
        if fat:
            ballast = 1
        out.append({"steps": steps,
                    "opts": {"rseed": rnd.randrange(1 << 40), "ballast": ballast, "fat": fat,
                             "sweep": (3 if thorough else 2) if i % sweep_every == 0 else 0,
                             "flips": 2 if thorough else 1, "subsets": thorough or i % 3 == 0}})
    return out


def run_parallel(ctx, binary, payload, procs):
    """Reopening images is dominated by the fsync of the tail repair: run several engine processes."""
    from concurrent.futures import ThreadPoolExecutor
    bs = payload["behaviours"]
    chunks = [bs[i::procs] for i in range(procs) if bs[i::procs]]
    conc = payload.get("concurrent", 0)
    with ThreadPoolExecutor(max_workers=len(chunks)) as ex:
        results = list(ex.map(lambda ic: ctx.run_engine(binary, "TestWalReplay",
                                                        dict(payload, behaviours=ic[1], concurrent=conc if ic[0] < 2 else 0),
                                                        timeout=3000), enumerate(chunks)))
    total = {"stats": {}, "steps": 0, "observations": []}
    for r in results:
        total["observations"] += [x["observation"] for x in r.get("samples", []) if isinstance(x, dict) and "observation" in x]
        r["samples"] = [x for x in r.get("samples", []) if not (isinstance(x, dict) and "observation" in x)]
        ctx.absorb(r, "wal", "TestWalReplay")
        total["steps"] += r.get("steps", 0)
        for k, v in r.get("stats", {}).items():
            total["stats"][k] = total["stats"].get(k, 0) + v
    return total


def run(ctx):
    binary, hook = build(ctx)
    if ctx.replay:
        with open(ctx.replay) as f:
            rp = json.load(f)
        res = ctx.run_engine(binary, rp["test"], rp["input"])
        ctx.absorb(res, "wal", rp["test"])
        return ctx.finish("model_checking", "replay of one recorded behaviour")

    thorough = not ctx.quick()
    if not os.environ.get("VERIF_SKIP_TLC"):   # development aid only (mutation runs); never set by registered commands
        r = ctx.tlc_check("consensus", "MCWal.tla", "Wal_quick.cfg", timeout=900, coverage=thorough)
        if thorough:
            vlib.require_actions_covered(r)
            ctx.tlc_check("consensus", "MCWal.tla", "Wal_thorough.cfg", timeout=3000)
            # the properties bite: without "watermark before unlink" TLC must find a lost/revived entry
            m = ctx.tlc_check("consensus", "MCWal.tla", "Wal_mutant.cfg", timeout=900, expect_violation=True,
                              label="design mutant: watermark written after the unlinks")
            if m["ok"]:
                raise vlib.Broken("vacuity: the design mutant (watermark after unlink) satisfies every property")

    nruns = 5 if thorough else 3
    depth = 16000 if thorough else 3000   # model actions per simulation run (~36 per behaviour)
    behaviours = []
    for i in range(nruns):
        behaviours += ctx.tlc_simulate("consensus", "WalMBT.tla", "Wal_sim.cfg", depth=depth,
                                       seed=ctx.seed * 1000 + i, timeout=900)
    payload = {"interval": MODEL_INTERVAL, "concurrent": 6 if thorough else 2,
               "behaviours": decorate(behaviours, ctx.seed, 5 if thorough else 10, thorough)}
    res = run_parallel(ctx, binary, payload, int(os.environ.get("VERIF_ENGINE_PROCS", "6")))
    st = res.get("stats", {})
    # C14 does not quantify over schedules: what only a concurrent writer in the middle of a reader's call can cause
    # is reported, counted and NOT a verdict
    for o in res.get("observations", [])[:5]:
        print("OBSERVATION: property=C14 %s" % o, flush=True)
    ctx.coverage["observations"] = st.get("observations", 0)
    if not ctx.violations:   # vacuity guards never mask an observed violation
        for need in ("cleanups", "failed_flushes", "crashes", "sweeps", "images_reopened", "concurrent_rounds",
                     "concurrent_reads", "retained_entries_rechecked", "recovery_probes", "fat_batches"):
            if not st.get(need):
                raise vlib.Broken("vacuity: the replay exercised no %s" % need)

    if thorough and not ctx.violations:
        # binding self-test: a corrupted expectation must be noticed
        victim = next((b for b in payload["behaviours"]
                       if any(s["a"]["name"] == "SyncOk" and any(s["live"]) for s in b["steps"])), None)
        if victim is None:
            raise vlib.Broken("selftest: no behaviour with a committed entry")
        st_res = ctx.run_engine(binary, "TestWalReplay", {"interval": MODEL_INTERVAL, "behaviours": [victim],
                                                           "selftest": True}, timeout=600)
        if not st_res.get("divergences"):
            raise vlib.Broken("selftest: the replayer accepted a corrupted expectation")
        ctx.coverage["selftest"] = "corrupted expectation rejected"

    ctx.coverage["behaviours_generated"] = len(behaviours)
    ctx.coverage["steps_replayed"] = res.get("steps", 0)
    ctx.coverage["crash_point_hook"] = "present" if hook else "absent (watermark images synthesised)"
    ctx.assumptions += [
        "the file system honours fsync / rename / directory-fsync ordering; an unlink that is not followed by a "
        "directory fsync may be undone by a crash, independently per file",
        "a crash never alters bytes at or before the last synced record (corruption sweeps only touch the tail)",
        "pebble's record reader / LogWriter are the real ones; write and fsync faults are injected below them "
        "through vfs.Default (the WriteRecord-returns-error branch of appendSync is unreachable this way)",
        "cleanupPruneRecordInterval = 256 is reached with 254 filler prune records of heights between two model heights",
    ]
    return ctx.finish(
        "model_checking",
        "exhaustive TLC on Wal.tla (every interleaving of append / prune / flush with write and fsync faults / "
        "close / crash at every code step incl. the five steps of the prune cleanup / reopen, bounded) + TLC "
        "simulation behaviours (26 client steps, heights 1..5, faults, crashes) replayed on the real WAL store with "
        "every directory image taken during every Flush reopened, all subsets of non-durable unlinks, and byte-level "
        "cut/corruption sweeps of the in-flight batch; non-trivial = the replay must contain cleanups, failed flushes, "
        "crashes and sweeps (checked), and the thorough tier shows a design mutant violating the properties")

"""C14 — the consensus write-ahead log never loses flushed entries and never revives pruned ones
(spec/consensus/Wal.tla).

TLC: exhaustive check of Wal.tla (one action per code step of SetWALEntry / DeleteWALEntries /
Flush = write ; fsync ; [watermark tmp ; rename ; dir fsync ; rotate ; unlink*] / Close / crash at
every step with every tail and every subset of not-yet-durable unlinks / Open): the reading after
every Open and of every crash image of every reachable state is the flushed batches, optionally
plus the WHOLE batch in flight; Open never fails; a failed Flush changes nothing durable.
Binding: TLC-simulated behaviours are replayed on the real walstore.NewTendermintWALStore in a
scratch directory; the real Flush runs under a wrapper of pebble's vfs.Default (write / fsync
faults, directory copies at the write, at the fsync, at every unlink) and, when juno carries it,
the verif crash-point hook (watermark tmp written / renamed / rotated).  EVERY copy is reopened
and LoadAllEntries compared with the model's admissible readings; Crash entries make the replay
continue on the copy; the last log is cut at every byte past the last synced record and
corrupted byte by byte (sweep).
Reference counts (which logs may the cleanup remove?): Wal.tla carries walHeightRefs as the code
maintains it (one reference per (live height, log) pair; the cleanup reads only these counts) with
RefsExact / CleanupKeepsLive / CleanupRemovesDead, checked exhaustively with a cleanup at every prune
record (Wal_refs*.cfg) and against design mutants of the counting rule.  WalMBT's "driver" profile
(current height, early messages of the next one, commit = prune + flush, restarts in the middle of a
height) generates behaviours in which heights are spread over several logs; alternative counting
rules are followed as ghosts and the behaviours whose cleanups they would decide differently are
replayed first.  The replay compares, besides the readings of every image, the logs the real
cleanup unlinks with the specification's RemoveFile steps and the log files of the directory with
the specification's after every call, crash and reopen.
"""
import json
import os
import random
import shutil
import subprocess
import time

import vlib

MODEL_INTERVAL = 2  # CleanupInterval in Wal_*.cfg (256 in the code)


def build(ctx):
    """ctx.build_engine plus the `walhook` tag when the juno tree carries the crash-point hook."""
    hook = os.path.exists(os.path.join(vlib.REPO, "consensus", "walstore", "verif_hook.go"))
    os.makedirs(os.path.join(vlib.BUILD, "bin"), exist_ok=True)
    vlib.ensure_harness_mod()
    out = os.path.join(vlib.BUILD, "bin", "wal.test")
    cmd = ["go", "test", "-c", "-tags", "verif,walhook" if hook else "verif", "-vet=off", "-o", out]
    if vlib.REPO != "/repo":
        out = os.path.join(ctx.scratch, "wal.test")
        cmd[cmd.index("-o") + 1] = out
        cmd.append("-modfile=" + vlib.alt_modfile(ctx.scratch))
    cmd.append("./engines/wal")
    t = time.time()
    p = subprocess.run(cmd, cwd=vlib.HARNESS, env=vlib.go_env(), capture_output=True, text=True, timeout=1500)
    if p.returncode != 0:
        raise vlib.Broken("harness build failed for engine wal:\n%s" % (p.stdout + p.stderr)[-6000:])
    vlib.log("built engine wal (crash-point hook %s) in %.1fs" % ("present" if hook else "ABSENT: watermark images synthesised", time.time() - t))
    return out, hook


def decorate(behaviours, seed, sweep_every, thorough):
    """Attach the engine options (deterministic in the seed) that make a replay exact."""
    rnd = random.Random(seed)
    out = []
    for i, steps in enumerate(behaviours):
        ballast = 0
        if i % 4 == 1:   # the next batches straddle a 32 KiB block boundary of the log
            ballast = 32768 * rnd.choice([1, 1, 2]) - rnd.randrange(0, 500)
        fat = i % 24 == 5   # the ballast is one batch of three 32 KiB blocks (a multi-chunk record)
        if fat:
            ballast = 1
        out.append({"steps": steps,
                    "opts": {"rseed": rnd.randrange(1 << 40), "ballast": ballast, "fat": fat,
                             "sweep": (3 if thorough else 2) if i % sweep_every == 0 else 0,
                             "flips": 2 if thorough else 1, "subsets": thorough or i % 3 == 0}})
    return out


def refcount_behaviours(ctx, thorough):
    """The reference-count dimension (which logs may the prune cleanup remove?): behaviours of the
    generator's "driver" profile (WalMBT.DriverIdle: the current height, early messages of the next one,
    commit = prune + flush, restarts in the middle of a height) for CleanupInterval 1 and 2.  WalMBT follows
    alternative bookkeeping rules as ghosts and marks every cleanup whose set of obsolete logs differs under
    one of them; a pool is generated and the behaviours that contain such a cleanup are replayed first
    (`early`: an alternative would remove a log the code must keep; `leak`: it would keep one the code removes),
    then behaviours with a height spread over several logs, then others."""
    pool = []
    nruns, depth = (3, 12000) if thorough else (1, 9000)
    for cfg, interval in (("Wal_sim_c1.cfg", 1), ("Wal_sim_c2.cfg", 2)):
        for i in range(nruns):
            for b in ctx.tlc_simulate("consensus", "WalMBT.tla", cfg, depth=depth,
                                      seed=ctx.seed * 1000 + 100 * interval + i, timeout=900):
                rot = [s for s in b if s["a"]["name"] == "Rotate"]
                pool.append({"steps": b, "interval": interval,
                             "early": sorted({r for s in rot for r in s.get("early", [])}),
                             "leak": sorted({r for s in rot for r in s.get("leak", [])}),
                             "spans": any(s.get("spans", 0) > 0 for s in rot)})
    cap_early, cap_leak, cap_span, cap_rest = (160, 60, 40, 20) if thorough else (48, 16, 10, 6)
    early = [b for b in pool if b["early"]]
    leak = [b for b in pool if not b["early"] and b["leak"]]
    span = [b for b in pool if not b["early"] and not b["leak"] and b["spans"]]
    rest = [b for b in pool if not b["early"] and not b["leak"] and not b["spans"]]
    chosen = early[:cap_early] + leak[:cap_leak] + span[:cap_span] + rest[:cap_rest]
    rules = {}
    for b in chosen:
        for r in b["early"]:
            rules["early:" + r] = rules.get("early:" + r, 0) + 1
        for r in b["leak"]:
            rules["leak:" + r] = rules.get("leak:" + r, 0) + 1
    ctx.coverage["refcount_pool"] = len(pool)
    ctx.coverage["refcount_replayed"] = len(chosen)
    ctx.coverage["refcount_sensitive_behaviours"] = rules
    vlib.log("refcount dimension: pool %d, replayed %d (early-sensitive %d, leak-sensitive %d, multi-log %d, other %d) %s" % (
        len(pool), len(chosen), min(len(early), cap_early), min(len(leak), cap_leak), min(len(span), cap_span),
        min(len(rest), cap_rest), rules))
    for need in ("early:height", "leak:entry"):
        if rules.get(need, 0) < (3 if need.startswith("early") else 1):
            raise vlib.Broken("vacuity: the generated pool has too few behaviours whose cleanup is sensitive to the "
                              "alternative reference-count rule %s (%d)" % (need, rules.get(need, 0)))
    rnd = random.Random(ctx.seed * 7 + 1)
    return [{"steps": b["steps"],
             "opts": {"rseed": rnd.randrange(1 << 40), "ballast": 0, "fat": False, "sweep": 0, "flips": 1,
                      "subsets": True, "interval": b["interval"]}} for b in chosen]


def run_parallel(ctx, binary, payload, procs):
    """Reopening images is dominated by the fsync of the tail repair: run several engine processes."""
    from concurrent.futures import ThreadPoolExecutor
    bs = payload["behaviours"]
    chunks = [bs[i::procs] for i in range(procs) if bs[i::procs]]
    conc = payload.get("concurrent", 0)
    with ThreadPoolExecutor(max_workers=len(chunks)) as ex:
        results = list(ex.map(lambda ic: ctx.run_engine(binary, "TestWalReplay",
                                                        dict(payload, behaviours=ic[1], concurrent=conc if ic[0] < 2 else 0),
                                                        timeout=3000), enumerate(chunks)))
    total = {"stats": {}, "steps": 0, "observations": []}
    for r in results:
        total["observations"] += [x["observation"] for x in r.get("samples", []) if isinstance(x, dict) and "observation" in x]
        r["samples"] = [x for x in r.get("samples", []) if not (isinstance(x, dict) and "observation" in x)]
        ctx.absorb(r, "wal", "TestWalReplay")
        total["steps"] += r.get("steps", 0)
        for k, v in r.get("stats", {}).items():
            total["stats"][k] = total["stats"].get(k, 0) + v
    return total


def run(ctx):
    binary, hook = build(ctx)
    if ctx.replay:
        with open(ctx.replay) as f:
            rp = json.load(f)
        res = ctx.run_engine(binary, rp["test"], rp["input"])
        ctx.absorb(res, "wal", rp["test"])
        return ctx.finish("model_checking", "replay of one recorded behaviour")

    thorough = not ctx.quick()
    if not os.environ.get("VERIF_SKIP_TLC"):   # development aid only (mutation runs); never set by registered commands
        r = ctx.tlc_check("consensus", "MCWal.tla", "Wal_quick.cfg", timeout=900, coverage=thorough)
        # the reference-count dimension: heights spread over several logs by restarts and rotations, a cleanup at
        # every prune record (RefsExact, CleanupKeepsLive, CleanupRemovesDead), and the design mutant of it
        ctx.tlc_check("consensus", "MCWal.tla", "Wal_refs.cfg", timeout=900)
        m = ctx.tlc_check("consensus", "MCWal.tla", "Wal_refs_x_height.cfg", timeout=900, expect_violation=True,
                          label="design mutant: one log reference per height instead of one per (height, log)")
        if m["ok"] or m["violated"] not in ("CrashSafe", "CleanupKeepsLive"):
            raise vlib.Broken("vacuity: the design mutant (references counted once per height) does not violate "
                              "CrashSafe / CleanupKeepsLive (%s)" % m["violated"])
        if thorough:
            vlib.require_actions_covered(r)
            ctx.tlc_check("consensus", "MCWal.tla", "Wal_thorough.cfg", timeout=3000)
            ctx.tlc_check("consensus", "MCWal.tla", "Wal_refs_thorough.cfg", timeout=3000)
            ctx.tlc_check("consensus", "MCWal.tla", "Wal_refs_thorough2.cfg", timeout=3000)
            m = ctx.tlc_check("consensus", "MCWal.tla", "Wal_refs_x_entry.cfg", timeout=900, expect_violation=True,
                              label="design mutant: one log reference per entry (never released completely)")
            if m["ok"] or m["violated"] != "CleanupRemovesDead":
                raise vlib.Broken("vacuity: the design mutant (references counted per entry) does not violate "
                                  "CleanupRemovesDead (%s)" % m["violated"])
            # the properties bite: without "watermark before unlink" TLC must find a lost/revived entry
            m = ctx.tlc_check("consensus", "MCWal.tla", "Wal_mutant.cfg", timeout=900, expect_violation=True,
                              label="design mutant: watermark written after the unlinks")
            if m["ok"]:
                raise vlib.Broken("vacuity: the design mutant (watermark after unlink) satisfies every property")

    nruns = 5 if thorough else 3
    depth = 16000 if thorough else 3000   # model actions per simulation run (~36 per behaviour)
    behaviours = []
    for i in range(nruns):
        behaviours += ctx.tlc_simulate("consensus", "WalMBT.tla", "Wal_sim.cfg", depth=depth,
                                       seed=ctx.seed * 1000 + i, timeout=900)
    refb = refcount_behaviours(ctx, thorough)
    payload = {"interval": MODEL_INTERVAL, "concurrent": 6 if thorough else 2,
               "behaviours": decorate(behaviours, ctx.seed, 5 if thorough else 10, thorough) + refb}
    res = run_parallel(ctx, binary, payload, int(os.environ.get("VERIF_ENGINE_PROCS", "6")))
    st = res.get("stats", {})
    # C14 does not quantify over schedules: what only a concurrent writer in the middle of a reader's call can cause
    # is reported, counted and NOT a verdict
    for o in res.get("observations", [])[:5]:
        print("OBSERVATION: property=C14 %s" % o, flush=True)
    ctx.coverage["observations"] = st.get("observations", 0)
    if not ctx.violations:   # vacuity guards never mask an observed violation
        for need in ("cleanups", "failed_flushes", "crashes", "sweeps", "images_reopened", "concurrent_rounds",
                     "concurrent_reads", "retained_entries_rechecked", "recovery_probes", "fat_batches",
                     "file_sets_compared", "cleanups_refcount_sensitive", "cleanups_sensitive_to:height",
                     "cleanups_leak_sensitive", "cleanups_with_multi_log_heights"):
            if not st.get(need):
                raise vlib.Broken("vacuity: the replay exercised no %s" % need)

    if thorough and not ctx.violations:
        # binding self-test: a corrupted expectation must be noticed
        victim = next((b for b in payload["behaviours"]
                       if any(s["a"]["name"] == "SyncOk" and any(s["live"]) for s in b["steps"])), None)
        if victim is None:
            raise vlib.Broken("selftest: no behaviour with a committed entry")
        st_res = ctx.run_engine(binary, "TestWalReplay", {"interval": MODEL_INTERVAL, "behaviours": [victim],
                                                           "selftest": True}, timeout=600)
        if not st_res.get("divergences"):
            raise vlib.Broken("selftest: the replayer accepted a corrupted expectation")
        victim = next((b for b in refb if any(s["a"]["name"] == "SyncOk" and s["pc"] == "idle" and s["files"]
                                               for s in b["steps"])), None)
        if victim is None:
            raise vlib.Broken("selftest: no reference-count behaviour with a committed batch")
        st_res = ctx.run_engine(binary, "TestWalReplay", {"interval": MODEL_INTERVAL, "behaviours": [victim],
                                                           "selftest_files": True}, timeout=600)
        if not any(d.get("key", "").startswith("wal-files:") for d in st_res.get("divergences") or []):
            raise vlib.Broken("selftest: the replayer accepted a corrupted directory listing")
        ctx.coverage["selftest"] = "corrupted expectation rejected; corrupted directory listing rejected"

    ctx.coverage["behaviours_generated"] = len(behaviours)
    ctx.coverage["steps_replayed"] = res.get("steps", 0)
    ctx.coverage["crash_point_hook"] = "present" if hook else "absent (watermark images synthesised)"
    ctx.assumptions += [
        "the file system honours fsync / rename / directory-fsync ordering; an unlink that is not followed by a "
        "directory fsync may be undone by a crash, independently per file",
        "a crash never alters bytes at or before the last synced record (corruption sweeps only touch the tail)",
        "pebble's record reader / LogWriter are the real ones; write and fsync faults are injected below them "
        "through vfs.Default (the WriteRecord-returns-error branch of appendSync is unreachable this way)",
        "cleanupPruneRecordInterval = 256 is reached with 256 - CleanupInterval filler prune records of heights between "
        "two model heights (CleanupInterval 2, and 1 or 2 in the reference-count behaviours)",
        "log files are compared with the specification's only in behaviours without engine ballast (entries of a height "
        "the specification does not know keep their log referenced)",
    ]
    return ctx.finish(
        "model_checking",
        "exhaustive TLC on Wal.tla (every interleaving of append / prune / flush with write and fsync faults / "
        "close / crash at every code step incl. the five steps of the prune cleanup / reopen, bounded) + TLC "
        "simulation behaviours (26 client steps, heights 1..5, faults, crashes) replayed on the real WAL store with "
        "every directory image taken during every Flush reopened, all subsets of non-durable unlinks, and byte-level "
        "cut/corruption sweeps of the in-flight batch; non-trivial = the replay must contain cleanups, failed flushes, "
        "crashes and sweeps (checked), and the thorough tier shows a design mutant violating the properties; "
        "reference counts: exhaustive TLC with a cleanup at every prune record (heights over several logs by restarts "
        "and rotations) + a design mutant of the counting rule that must violate CrashSafe, and driver-profile "
        "behaviours selected for cleanups that alternative counting rules would decide differently (checked: some "
        "are replayed), with the unlinked logs and the directory's log files compared with the specification's")

"""C07 — everything stored for a block is returned unchanged by every accessor; the partial
decoders agree with the full decoder; encode∘decode = identity (spec/chain/BlockBlob.tla).

TLC: exhaustive check of the indexed-blob access path (offsets, sections, lazy slices, the three
projections, hash index, by-hash lookups) for blocks of 0..3 transactions, every combination of
encoded lengths, every index incl. the first out of range and the block beyond the head; three
plausible slips are switched on one at a time as a self-test (TLC must object).
Binding: TLC-generated chains (random sizes 0..3, all ten transaction kinds, 0..3 events, both
statuses) are concretised into real blocks and stored through the sync path on db/memory and
db/pebblev2 and both state backends; after every Store each accessor the specification lists is
called for every (block, index, hash) and compared with the specification's answer (found /
not found as modelled; a found value deeply equal to what was stored), again after a restart; every
concretised value also round-trips through encoder.Marshal/Unmarshal.
A third backend (memory-poisoned) enforces the database's lending contract: the slice lent to a Get
callback / by UncopiedValue is overwritten as soon as the loan ends, and the lazily decoding
accessors (iterator, blob, prefix scan) are consumed after other reads - an accessor that retains
lent memory returns garbage. Serializer outputs are retained while further values are serialised and
must stay byte-identical; a concurrent-writers round stores distinct blocks from 8 goroutines.
Once per run a chain whose first block holds very large values (Sierra program, CASM bytecode,
calldata and one event payload of 140 000 felts each - above the CBOR library's default array limit)
goes through the codec round trips and the full sweep on memory and pebblev2, both state backends.
L1 handler transactions come with a nonce, with a zero nonce and in the legacy nonce-less form.
The chain is not append-only: the specification has RevertHead and replacement blocks that re-include
reverted transactions at other indices / heights, drop some, add fresh ones (exhaustive for chains of
<= 2 blocks x <= 2 reverts and <= 3 single-transaction blocks x <= 3 reverts; invariants Gone and
IndexesExact: what a reorg dropped is NOT FOUND, hash of a replaced block included). Every generated
behaviour contains three RevertHead (depth 1..3, also down to the empty chain, restarts in between),
with the full sweep after every write except after some reverts (no read between the revert and the
next store) - so reads are warm before a reorg and an answer must follow the block that is NOW at a
height / NOW holds a hash, through blockchain.Blockchain and the core readers under it. Reader-level
memos (a cache of any lookup family that outlives a write) and a RevertHead that keeps the hash
indexes are switched on one at a time as self-tests (TLC must object); the repaired memo is verified.
REPRESENTATION (shape classes): every slice / map / byte-string / pointer field of every stored type
is part of the abstract content - a container is nil / empty / a singleton / many, a pointer nil /
to zero / to non-zero - with a wire form per codec family and, per field, a normal form (the constant
table MCFieldTable of MCBlockBlob.tla, derived from the encoders: cbor tags, the hand-written codecs,
the blob): invariants ShapePreserved (what an accessor returns has, field by field, the normal form
of the stored shape, through the full decoders, the events projection and the lists),
CodecAgreesWithTable, ReencodeIdentity; exhaustive over one object of a block varied at a time (one
field over all its shape classes, all-empty, all-nil) for every transaction type, receipts, header,
state update and declared classes of both kinds; decoder / encoder slips (empty->nil, nil->empty, nil
pointer->zero, zero pointer->nil, an added omitempty) are self-tests that must violate ShapePreserved.
The specification's table with its wire forms / returned shapes is exported (BlockBlobShapeMBT.tla) to
TestShapeSweep: the stored Go types' fields are enumerated by reflection, a fully populated object of
every type is varied one field at a time over every shape class (+ all-empty, all-nil), written through
the real writers on db/memory, db/pebblev2 and the poisoning store x both state backends, read through
every accessor, compared shape-aware field by field, the returned objects are written again into a
second database that must be byte-identical, and the encoding/json renderings are compared.
"""
import json
import vlib


def run(ctx):
    binary = ctx.build_engine("accessors")
    if ctx.replay:
        with open(ctx.replay) as f:
            rp = json.load(f)
        res = ctx.run_engine(binary, rp["test"], rp["input"])
        ctx.absorb(res, "accessors", rp["test"])
        return ctx.finish("model_checking", "replay of one recorded behaviour")

    thorough = not ctx.quick()
    ctx.tlc_check("chain", "MCBlockBlob.tla", "BlockBlob_quick.cfg", timeout=600)
    ctx.tlc_check("chain", "MCBlockBlob.tla", "BlockBlob_chain.cfg", timeout=600)
    # the chain is not append-only: RevertHead and replacement blocks re-including reverted transactions
    ctx.tlc_check("chain", "MCBlockBlob.tla", "BlockBlob_reorg.cfg", timeout=600)
    ctx.tlc_check("chain", "MCBlockBlob.tla", "BlockBlob_reorg_deep.cfg", timeout=600)
    ctx.tlc_check("chain", "MCBlockBlob.tla", "BlockBlob_reorg_classes.cfg", timeout=600)
    # representation: one object of a block varied at a time over all shape classes of all its fields
    r = ctx.tlc_check("chain", "MCBlockBlob.tla", "BlockBlob_shape.cfg", timeout=900, coverage=thorough)
    if thorough:
        vlib.require_actions_covered(r, ignore=("Revert", "ReadAny"))
    shape_selftests = ["emptynil", "nilempty"] + (["nilptrzero", "zeroptrnil", "omitempty"] if thorough else [])
    for name in shape_selftests:
        r = ctx.tlc_check("chain", "MCBlockBlob.tla", "BlockBlob_self_shape_%s.cfg" % name, timeout=300,
                          expect_violation=True, label="selftest:shape_" + name)
        if r["ok"] or r["violated"] != "ShapePreserved":
            raise vlib.Broken("self-test shape_%s: TLC did not object with ShapePreserved to the codec slip (%s)" % (name, r["violated"]))
    selftests = ["lastend", "txsection", "hashindex", "revertindex", "memo_loc", "memo_num", "memo_l1"]
    if thorough:
        selftests += ["memo_hdr", "memo_blob", "memo_su"]
    for name in selftests:
        r = ctx.tlc_check("chain", "MCBlockBlob.tla", "BlockBlob_self_%s.cfg" % name, timeout=300,
                          expect_violation=True, label="selftest:" + name)
        if r["ok"] or not r["violated"]:
            raise vlib.Broken("self-test %s: TLC did not object to the seeded slip" % name)
    ctx.coverage["spec_selftests_caught"] = len(selftests) + len(shape_selftests)
    # the repaired design of a reader-level memo (dropped by every write) satisfies every property
    ctx.tlc_check("chain", "MCBlockBlob.tla", "BlockBlob_memo_purged_loc.cfg", timeout=600)
    if thorough:
        for fam in ("num", "hdr", "blob", "su", "l1"):
            r = ctx.tlc_check("chain", "MCBlockBlob.tla", "BlockBlob_memo_purged_%s.cfg" % fam, timeout=900, coverage=True)
            vlib.require_actions_covered(r)
        r = ctx.tlc_check("chain", "MCBlockBlob.tla", "BlockBlob_reorg_many.cfg", timeout=1800, coverage=True)
        vlib.require_actions_covered(r, ignore=("ReadAny",))      # no reader-level memo in the code as it is
        ctx.tlc_check("chain", "MCBlockBlob.tla", "BlockBlob_reorg_thorough.cfg", timeout=3000)
    if thorough:
        ctx.tlc_check("chain", "MCBlockBlob.tla", "BlockBlob_wide.cfg", timeout=1800)
        r = ctx.tlc_check("chain", "MCBlockBlob.tla", "BlockBlob_deep.cfg", timeout=1800, coverage=True)
        vlib.require_actions_covered(r, ignore=("Revert", "ReadAny"))   # the append-only instance
        ctx.tlc_check("chain", "MCBlockBlob.tla", "BlockBlob_thorough.cfg", timeout=3000)

    # ---- representation sweep: the specification's per-field table (wire forms, returned shapes) drives the engine
    table = ctx.tlc_simulate("chain", "BlockBlobShapeMBT.tla", "BlockBlob_shapeexport.cfg", depth=2, seed=1, timeout=300)[0]
    if len(table) < 100 or not all(row.get("cases") or row.get("norm") == "key" for row in table):
        raise vlib.Broken("the specification exported no usable field table (%d rows)" % len(table))
    for k in range(3 if thorough else 1):
        sres = ctx.run_engine(binary, "TestShapeSweep",
                              {"seed": ctx.seed * 7919 + k, "table": table, "chain": True,
                               "backends": ["memory", "pebblev2", "memory-poisoned"]}, timeout=1500)
        ctx.absorb(sres, "accessors", "TestShapeSweep")
        st = sres.get("stats", {})
        if int(st.get("shape_variants_compared", 0)) < 450 or int(st.get("shape_fields_found", 0)) < 100:
            raise vlib.Broken("shape sweep is vacuous: %s variants compared over %s fields" % (
                st.get("shape_variants_compared"), st.get("shape_fields_found")))
    ctx.coverage["shape_table_rows"] = len(table)
    ctx.coverage["shape_rows_not_exact"] = sorted("%s:%s" % (row["path"], row["norm"]) for row in table if row["norm"] != "exact")

    nruns = 6 if thorough else 1
    depth = 12 * (110 if thorough else 50)          # ~12 states per behaviour (7 stores, 3 reverts, restarts, emit)
    behaviours = []
    for i in range(nruns):
        behaviours += ctx.tlc_simulate("chain", "BlockBlobMBT.tla", "BlockBlob_sim.cfg", depth=depth,
                                       seed=ctx.seed * 1000 + i, timeout=900)
    kinds = set()
    sizes = set()
    restarts = set()
    reorg = set()       # vacuity of the reorg dimension: which re-inclusion patterns the behaviours contain
    for b in behaviours:
        where = {}      # hash -> (height, index) it was last stored at
        height = -1
        prev = None
        for st in b:
            a = st["a"]
            if a["name"] == "Restart":
                restarts.add(a.get("graceful"))
                if prev == "Revert":
                    reorg.add("restart-inside-reorg")
            elif a["name"] == "Revert":
                reorg.add("revert-after-reads" if st.get("read", True) else "revert-then-write-without-reads")
                if prev == "Revert":
                    reorg.add("depth>=2")
                if height == 0:
                    reorg.add("whole-chain-reverted")
                height -= 1
            else:
                height += 1
                sizes.add(a["size"])
                for k, e, r in zip(a["kinds"], a["evs"], a["revs"]):
                    kinds.add((k, e, r))
                for i, src in enumerate(a.get("src", [])):
                    h = tuple(src) if src[0] == "tx" else ("tx", a["ver"], i)
                    if src[0] == "tx":
                        was = where[h]
                        reorg.add("same-height-other-index" if was[0] == height and was[1] != i else
                                  "same-place" if was == (height, i) else "other-height")
                        if a["kinds"][i] == "l1handler":
                            reorg.add("l1handler-reincluded")
                    where[h] = (height, i)
                if st["view"]["gone"]["txs"]:
                    reorg.add("dropped-transaction")
                if any(t["l1"] != "na" for t in st["view"]["gone"]["txs"]):
                    reorg.add("dropped-l1handler")
            prev = a["name"]
    if len({k for k, _, _ in kinds}) < 10 or sizes != {0, 1, 2, 3}:
        raise vlib.Broken("generated behaviours do not cover all ten transaction kinds and block sizes 0..3")
    if restarts != {True, False}:
        raise vlib.Broken("generated behaviours contain no graceful and ungraceful restart between stores")
    need = {"revert-after-reads", "revert-then-write-without-reads", "depth>=2", "same-height-other-index", "other-height",
            "dropped-transaction", "l1handler-reincluded", "dropped-l1handler", "restart-inside-reorg"}
    if need - reorg:
        raise vlib.Broken("generated behaviours lack reorg patterns: %s" % sorted(need - reorg))
    ctx.coverage["reorg_patterns"] = sorted(reorg)
    res = ctx.run_engine(binary, "TestAccessorsReplay",
                         {"seed": 0, "start": 0, "behaviours": behaviours, "concurrent": True, "large": True,
                          "backends": ["memory", "pebblev2", "memory-poisoned"]},
                         timeout=3000)
    ctx.absorb(res, "accessors", "TestAccessorsReplay")
    # concurrency-only misbehaviour is not a verdict for this property (its quantifier has no "schedules")
    obs = res.get("stats", {}).get("observations") or []
    for o in obs:
        print("OBSERVATION: property=%s %s" % (ctx.prop, o), flush=True)
    ctx.coverage["observations"] = len(obs)
    ctx.coverage["behaviours_generated"] = len(behaviours)
    ctx.coverage["store_steps_replayed"] = res.get("steps", 0)
    ctx.assumptions += [
        "byte-level CBOR fidelity is exercised by the concretised round trips, not modelled (DESIGN.md section 8)",
        "equality is strict (nil vs empty slices and maps, nil vs zero pointers, zero values); bloom filters are compared by content; "
        "a mismatch that vanishes when nil and empty are identified is keyed :nil-vs-empty (no hash distinguishes them)",
        "memory-poisoned backend: a wrapper enforcing the db.Get / UncopiedValue lending contract (the lent slice is "
        "overwritten when the callback returns / the iterator moves), so retained database memory shows as garbage",
        "what was stored = the objects handed to SanityCheckNewHeight + Store (chainkit blocks built by the real Simulate)",
        "representation sweep: what was stored = the objects handed to the core.Write* / state.WriteClass writers (any value a "
        "writer takes is a storable value; a variant no writer takes - a nil hash used as database key, a nil element an encoder "
        "dereferences - is listed in shape_variants_not_storable and not judged); per-field normal forms are the constant table "
        "MCFieldTable (exact everywhere except InvokeTransaction.ProofFacts empty=nil [omitempty] and Block.Transactions / "
        "Receipts nil=empty [the blob stores offsets only]); fields the reflection finds that the table does not list are exact",
    ]
    return ctx.finish(
        "model_checking",
        "exhaustive TLC on BlockBlob.tla (block sizes 0..3 x all encoded-length combinations x statuses; chains of "
        "2 blocks; RevertHead + replacement blocks re-including reverted transactions) + TLC simulation chains of 4 "
        "blocks with 3 RevertHead (sizes 0..3, ten transaction kinds, 0..3 events, both statuses; replacement blocks "
        "drawing from the reverted transactions) concretised and stored / reverted on memory and pebblev2, both state "
        "backends; every accessor compared for every (block, index, hash) incl. dropped hashes; distinct non-trivial case = one (transaction kind, event count, status) item shape "
        "or (block size, protocol version) stored and read back through all access paths",
        {"distinct_nontrivial": int(ctx.coverage.get("distinct_item_shapes", 0)),
         "evaluations": int(ctx.coverage.get("accessor_calls_compared", 0))})

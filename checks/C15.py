"""C15 — all database backends implement one contract (spec/kv/KV.tla).

TLC: exhaustive check of the contract's own properties (batch = sequential application,
all-or-nothing helpers, indexed reads-own-writes for Get/Has/iterators, snapshot isolation and
frozen snapshot reads, iterator order/seek/prev) and of five mutants that must violate them.
Binding: differential replay on db/memory, db/pebblev2, db/pebble, on-disk pebblev2 and the
syncbatch/bufferbatch wrappers of (a) an edge cover of the exhaustively enumerated iterator and
batch sub-machines (spec/kv/KVCover.tla: shape-complete in the small, identical in every run) and
(b) TLC-simulated random behaviours; every return value and the full store content after every
call must equal the specification's.
"""
import json
import vlib

KEYS_FULL = [[0], [0, 0], [0, 255], [1], [255], [255, 255]]
KEYS_SMALL = [[0], [0, 0], [0, 255], [255]]


def validate_concurrent(ctx, binary, rounds, payload=None):
    """Record one-writer/three-reader runs on each backend; TLC validates them against KVTrace.tla.
    On a rejection the offending round is reported (replayable: the recorded trace itself) and
    validation continues with the remaining rounds."""
    import os
    tf = os.path.join(ctx.scratch, "kvtrace.ndjson")
    if payload is None:
        res = ctx.run_engine(binary, "TestKVConcurrent", {"keys": KEYS_FULL, "rounds": rounds, "writer_ops": 8, "hammer_rounds": 2 if rounds < 30 else 6, "hammer_batches": 60, "out": tf}, timeout=900)
        lines = open(tf).read().splitlines()
        rinfo = res["stats"]["rounds"]
    else:
        lines = payload["lines"]
        rinfo = [{"backend": payload.get("backend", "?"), "round": 0, "first": 1, "last": len(lines)}]
    if len(lines) < 10:
        raise vlib.Broken("concurrent recorder produced no events")
    accepted = 0
    for _ in range(6):
        with open(tf, "w") as f:
            f.write("\n".join(lines) + "\n")
        ok, r = ctx.tlc_trace("kv", "KVTrace.tla", "KVTrace.cfg", tf, timeout=900)
        if ok:
            accepted += len(rinfo)
            break
        if r["violated"] != "postcondition" or not r.get("highwater"):
            raise vlib.Broken("trace validation failed for another reason than rejection:\n" + "\n".join(r["out"].splitlines()[-30:]))
        hw = r["highwater"]  # index of the first line no behaviour could consume
        bad = [x for x in rinfo if x["first"] <= hw <= x["last"]] or [rinfo[-1]]
        bad = bad[0]
        seg = lines[bad["first"] - 1: bad["last"]]
        ctx.report("kv-concurrent:%s" % bad["backend"],
                   "backend %s: recorded concurrent history is not a behaviour of KVTrace.tla (stuck at line %d of the round: %s)" % (
                       bad["backend"], hw - bad["first"] + 1, lines[hw - 1][:200]),
                   {"property": "C15", "engine": "kv", "test": "TestKVConcurrent", "seed": ctx.seed,
                    "input": {"trace": {"lines": seg, "backend": bad["backend"]}}})
        # drop the rejected round, keep validating the rest
        keep, new_info, pos = [], [], 1
        for x in rinfo:
            if x is bad:
                continue
            n = x["last"] - x["first"] + 1
            keep += lines[x["first"] - 1: x["last"]]
            new_info.append({"backend": x["backend"], "round": x["round"], "first": pos, "last": pos + n - 1})
            pos += n
        lines, rinfo = keep, new_info
        if not lines:
            break
    ctx.traces_validated += accepted
    ctx.coverage["concurrent_rounds_validated"] = accepted
    ctx.coverage["concurrent_trace_events"] = len(lines)
    if lines:
        ctx.samples.append({"concurrent_trace_excerpt": [json.loads(x) for x in lines[:12]]})


KEYS_LIN = [[1], [2], [3]]
LIN_EXPECTED = [
    ("KVLin_x_batch.cfg", "Batch.Write applied key by key"),
    ("KVLin_x_iter2.cfg", "iterator lists the keys and fetches the values at two points"),
]
LIN_EXPECTED_THOROUGH = [
    ("KVLin_x_range.cfg", "DeleteRange applied key by key"),
    ("KVLin_x_iterlazy.cfg", "iterator reads values when asked"),
    ("KVLin_x_snap2.cfg", "snapshot copied in two critical sections"),
    ("KVLin_x_snaplive.cfg", "snapshot is a reference to the live content"),
]


def reader_visible_atomicity(ctx, binary, thorough):
    """KVLin.tla: calls have a duration; the contract is ReadersSeeOnePoint (a completed reader call
    observed ONE abstract content of its window). TLC: the mechanisms as they are satisfy it, each
    excluded mechanism violates it. Binding: TLC-generated writer programs / reader menus on the real
    backends with every model key blown up to a group of thousands of real keys; the engine evaluates
    the invariant on every observation (TestKVLinearizable)."""
    ctx.tlc_check("kv", "KVLin.tla", "KVLin_quick.cfg", timeout=600)
    r = ctx.tlc_check("kv", "KVLin.tla", "KVLin_x_vacuity.cfg", timeout=600, expect_violation=True,
                      label="KVLin: a window spanning two commits is reachable (violation expected)")
    if r["violated"] != "NoWideWindow":
        raise vlib.Broken("KVLin_x_vacuity.cfg should violate NoWideWindow, got %s" % r["violated"])
    for cfg, label in LIN_EXPECTED + (LIN_EXPECTED_THOROUGH if thorough else []):
        r = ctx.tlc_check("kv", "KVLin.tla", cfg, timeout=600, expect_violation=True,
                          label="KVLin: %s (violation expected)" % label)
        if r["violated"] != "ReadersSeeOnePoint":
            raise vlib.Broken("%s should violate ReadersSeeOnePoint, got %s" % (cfg, r["violated"]))
    if thorough:
        ctx.tlc_check("kv", "KVLin.tla", "KVLin_thorough.cfg", timeout=3000)
    nbeh = 12 if thorough else 5
    behaviours = ctx.tlc_simulate("kv", "KVLinMBT.tla", "KVLin_sim.cfg", depth=130 * (nbeh + 1),
                                  seed=ctx.seed * 1000 + 500, timeout=600, max_behaviours=nbeh)
    res = ctx.run_engine(binary, "TestKVLinearizable",
                         {"keys": KEYS_LIN, "behaviours": behaviours, "round_ms": 600 if thorough else 350,
                          "readers": 4, "ghost_ms": 20000}, timeout=1200)
    if res["stats"].get("ghost_missed"):
        raise vlib.Broken("the concurrent round did not open the windows in this run: the ghost mechanism '%s' "
                          "(harness-own, on db/memory) was not reported within its budget" % res["stats"]["ghost_missed"])
    ctx.absorb(res, "kv", "TestKVLinearizable")
    ctx.coverage["lin_behaviours"] = len(behaviours)


def empty_key_probe(ctx, binary):
    """The property's domain names the EMPTY key. Pebble v2's columnar sstable writer panics
    ('unreachable', colblk.PrefixBytesBuilder.Finish) in a background flush goroutine when a
    memtable holding the empty key is flushed — the process dies, db/memory does not mind. juno's
    own keys always start with a bucket byte, so the model's key alphabet is non-empty and the
    empty key is probed in a process of its own."""
    for backend in ("memory", "pebble", "pebblev2"):
        try:
            res = ctx.run_engine(binary, "TestKVEmptyKeyProbe", {"backend": backend}, timeout=120)
        except vlib.Broken as e:
            msg = str(e)
            if "panic:" in msg and "pebble" in msg:
                ctx.report("kv:%s:empty-key:process-dies-on-flush" % backend,
                           "backend %s: Put(empty key) followed by a memtable flush kills the process (%s)" % (
                               backend, msg[msg.find("panic:"):][:80].replace("\n", " ")),
                           {"property": "C15", "engine": "kv", "test": "TestKVEmptyKeyProbe", "seed": ctx.seed,
                            "input": {"backend": backend}})
                continue
            raise
        ctx.absorb(res, "kv", "TestKVEmptyKeyProbe")


MUTANTS = [
    ("KV_x_seekfromcur.cfg", "IterSeekIsLowerBound", "Seek searches from the current position"),
    ("KV_x_prevseekmiss.cfg", "IterPrevIsAdjacent", "Prev after a Seek past the end stays invalid"),
    ("KV_x_hasowndel.cfg", "IndexedReadsOwnWrites", "Has through an indexed batch ignores the batch's own delete"),
    ("KV_x_batchiterrange.cfg", "IndexedReadsOwnWrites", "iterator over an indexed batch ignores the batch's range delete"),
    ("KV_x_snaphaslive.cfg", "SnapshotReadsFrozen", "Has on a snapshot answers from the live store"),
]


def contract_is_sensitive(ctx, thorough=False):
    """All features together over a tiny alphabet (exhaustive), then one wrong implementation of
    one clause at a time: TLC must report exactly the property that names the clause. The runs are
    small and independent: side by side."""
    from concurrent.futures import ThreadPoolExecutor

    def mutant(m):
        cfg, prop, label = m
        r = ctx.tlc_check("kv", "MCKV.tla", cfg, workers=2, timeout=600, expect_violation=True,
                          label="KV mutant: %s (violation expected)" % label)
        if r["violated"] != prop:
            raise vlib.Broken("%s should violate %s, got %s" % (cfg, prop, r["violated"]))

    with ThreadPoolExecutor(max_workers=6) as ex:
        futs = [ex.submit(ctx.tlc_check, "kv", "MCKV.tla", "KV_all_tiny.cfg", 4, 600)]
        futs += [ex.submit(mutant, m) for m in MUTANTS]
        for f in futs:
            f.result()
    if thorough:
        ctx.tlc_check("kv", "MCKV.tla", "KV_all_tiny_thorough.cfg", timeout=3000)


def edge_cover(ctx, mode, cfg):
    """KVCover.tla: TLC enumerates the guided state graph of one sub-machine exhaustively (one worker,
    breadth first) and prints the shortest behaviour leading to every transition SHAPE it has not
    seen before. Returns (behaviours, shapes): behaviours that are a prefix of another one dropped."""
    r = ctx.tlc_check("kv", "KVCover.tla", cfg, workers=1, timeout=900, label="KVCover/%s" % cfg)
    recs = []
    for line in r["out"].splitlines():
        if line.startswith('"{'):
            try:
                recs.append(json.loads(json.loads(line)))
            except Exception:
                raise vlib.Broken("unparsable cover line from %s: %s" % (cfg, line[:200]))
    shapes = set(t for rec in recs for t in rec["cls"])
    if len(recs) < 50 or len(shapes) < len(recs):
        raise vlib.Broken("edge cover %s: %d behaviours, %d shapes - export broken" % (cfg, len(recs), len(shapes)))
    # a behaviour that is a proper prefix of another one adds nothing (same calls, same expectations)
    ser = sorted(([json.dumps(st, sort_keys=True) for st in rec["beh"]], i) for i, rec in enumerate(recs))
    keep = []
    for j, (sj, i) in enumerate(ser):
        nxt = ser[j + 1][0] if j + 1 < len(ser) else None
        if nxt is not None and len(nxt) >= len(sj) and nxt[:len(sj)] == sj:
            continue
        keep.append(recs[i]["beh"])
    ctx.coverage["cover_%s_shapes" % mode] = len(shapes)
    ctx.coverage["cover_%s_behaviours" % mode] = len(keep)
    vlib.log("edge cover %s: %d shapes, %d behaviours (%d calls) after dropping prefixes" % (
        mode, len(shapes), len(keep), sum(len(b) for b in keep)))
    return keep, shapes


READS = ("Get", "Has", "BatchGet", "BatchHas", "BatchSize", "SnapGet", "SnapHas")
MOVES = ("IterFirst", "IterNext", "IterPrev", "IterSeek", "IterClose")


def stitch(behaviours, maxlen=96):
    """Fewer, longer behaviours with the same transitions (the on-disk backend pays per database
    opened and per loaded key). Every cover behaviour is context + tail, where the tail is either
    a run of read calls, or NewIter + moves, or one closing call; reads and a closed iterator leave
    the state (store, batch, snapshot) exactly as the context left it, so the tails of all
    behaviours with the same context can follow each other: context, all read tails, every iterator
    tail followed by IterClose (result ok, store unchanged: the specification's IterClose), then one
    closing tail. Each call keeps the expected result/store TLC computed for it, from the same state."""
    groups, order = {}, []
    for b in behaviours:
        i = next((j for j, st in enumerate(b) if st["a"]["name"] == "NewIter"), None)
        if i is not None and all(st["a"]["name"] in MOVES for st in b[i + 1:]):
            ctxt, tail, kind = b[:i], b[i:], "iter"
        else:
            j = len(b)
            while j > 0 and b[j - 1]["a"]["name"] in READS:
                j -= 1
            if j < len(b) and i is None:
                ctxt, tail, kind = b[:j], b[j:], "read"
            elif i is None:
                ctxt, tail, kind = b[:-1], b[-1:], "close"
            else:
                ctxt, tail, kind = b, [], "whole"
        key = json.dumps(ctxt, sort_keys=True)
        if key not in groups:
            groups[key] = {"ctxt": ctxt, "read": [], "iter": [], "close": [], "whole": []}
            order.append(key)
        groups[key][kind].append(tail)
    out = []
    for key in order:
        g = groups[key]
        ctxt = g["ctxt"]
        store = ctxt[-1]["store"] if ctxt else None
        close_step = {"a": {"name": "IterClose"}, "res": {"kind": "ok"}, "store": store}
        cur = list(ctxt)
        tails = [t for t in g["read"]]
        for t in g["iter"]:
            tails.append(t if t[-1]["a"]["name"] == "IterClose" else t + [dict(close_step, store=t[-1]["store"])])
        for t in tails:
            if len(cur) + len(t) > maxlen and len(cur) > len(ctxt):
                out.append(cur)
                cur = list(ctxt)
            cur += t
        closes = g["close"]
        if closes:
            cur += closes[0]
        if len(cur) > len(ctxt) or not (g["whole"] or closes[1:]):
            out.append(cur)
        out += [ctxt + t for t in closes[1:]]
        out += [ctxt for _ in g["whole"][:1]]
    return out


# shapes that must be in the cover whatever else changes (the classes the two missed changes live in)
REQUIRED_SHAPES = {
    "iter": ["it/store/nil/n3/last/IterSeek/before/in/exact/back", "it/snap/pfx-ub/n3/mid/IterSeek/before/in/exact/back",
             "it/batch/nil/n2/last/IterSeek/before/in/next/back", "it/store/nil/n2/seekmiss/IterPrev/at/diff0",
             "sread/SnapHas/1/0/has", "sread/SnapHas/0/1/has", "newiter/snap/pfx-ub/snap/n1/lo1/hi1",
             "it/snap/pfx-ub/n1/only/IterSeek/before/below/next/stay", "it/batch/pfx-ub/n1/only/IterSeek/after/above/miss/na"],
    "batch": ["bread/BatchHas/1/d/has", "bread/BatchHas/1/pd/has", "bread/BatchHas/1/r/has", "bread/BatchGet/1/d/notfound",
              "bread/iter/1/r/0", "bread/iter/1/rp/1", "bwrite/0/1/pr", "update/update/0/1/d/read"],
}


def run(ctx):
    binary = ctx.build_engine("kv")
    if ctx.replay:
        with open(ctx.replay) as f:
            rp = json.load(f)
        if "trace" in rp["input"]:
            validate_concurrent(ctx, binary, 0, payload=rp["input"]["trace"])
        else:
            res = ctx.run_engine(binary, rp["test"], rp["input"])
            ctx.absorb(res, "kv", rp["test"])
        return ctx.finish("model_checking", "replay of one recorded behaviour")

    thorough = not ctx.quick()
    ctx.tlc_check("kv", "MCKV.tla", "KV_batch_quick.cfg", timeout=600)
    ctx.tlc_check("kv", "MCKV.tla", "KV_iter_quick.cfg", timeout=600)
    if thorough:
        r = ctx.tlc_check("kv", "MCKV.tla", "KV_batch_thorough.cfg", timeout=3000, coverage=True)
        vlib.require_actions_covered(r, ignore=("NewSnapshot", "SnapGet", "SnapHas", "SnapClose", "NewIter", "IterFirst",
                                                "IterSeek", "IterNext", "IterPrev", "IterClose", "MoveTo"))
        ctx.tlc_check("kv", "MCKV.tla", "KV_iter_thorough.cfg", timeout=3000)

    contract_is_sensitive(ctx, thorough)

    # shape-complete in the small: the edge cover of the iterator and the batch sub-machine,
    # replayed on every backend / wrapper (the on-disk one included) in every run
    from concurrent.futures import ThreadPoolExecutor
    cover = []
    modes = (("iter", "KV_cover_iter_thorough.cfg" if thorough else "KV_cover_iter.cfg"),
             ("batch", "KV_cover_batch_thorough.cfg" if thorough else "KV_cover_batch.cfg"))
    with ThreadPoolExecutor(max_workers=2) as ex:
        covers = [f.result() for f in [ex.submit(edge_cover, ctx, mode, cfg) for mode, cfg in modes]]
    for (mode, cfg), (behs, shapes) in zip(modes, covers):
        missing = [t for t in REQUIRED_SHAPES[mode] if t not in shapes]
        if missing:
            raise vlib.Broken("edge cover %s lacks the shapes %s" % (cfg, missing))
        cover += behs
    n_unstitched = len(cover)
    cover = stitch(cover)
    ctx.coverage["cover_behaviours_replayed"] = len(cover)
    vlib.log("edge cover: %d behaviours stitched into %d (%d calls)" % (n_unstitched, len(cover), sum(len(b) for b in cover)))
    cres = ctx.run_engine(binary, "TestKVReplay", {"keys": KEYS_SMALL, "behaviours": cover, "disk_every": 1, "tag": "cover"}, timeout=3000)
    ctx.absorb(cres, "kv", "TestKVReplay")
    ctx.coverage["cover_steps_replayed"] = cres.get("steps", 0)
    ctx.coverage["cover_actions_replayed"] = cres["stats"].get("actions_replayed")

    nruns = 12 if thorough else 2
    depth = 25 * (400 if thorough else 160)
    behaviours = []
    for i in range(nruns):
        behaviours += ctx.tlc_simulate("kv", "KVMBT.tla", "KV_sim.cfg", depth=depth,
                                       seed=ctx.seed * 1000 + i, timeout=900)
    res = ctx.run_engine(binary, "TestKVReplay", {"keys": KEYS_FULL, "behaviours": behaviours}, timeout=3000)
    ctx.absorb(res, "kv", "TestKVReplay")
    validate_concurrent(ctx, binary, rounds=60 if thorough else 15)
    reader_visible_atomicity(ctx, binary, thorough)
    empty_key_probe(ctx, binary)
    ctx.coverage["behaviours_generated"] = len(behaviours)
    ctx.coverage["steps_replayed"] = res.get("steps", 0)
    ctx.assumptions += [
        "a single Batch.Write / Put is atomic and durable in Pebble (the property is about equivalence of the backends)",
        "contract: no direct store write while an open batch holds a range delete (memory resolves it eagerly)",
        "iterator contract: after a failed Next/Prev only First/Seek; after a failed Seek only Prev/First/Seek",
        "Batch.Size: exact for puts and deletes (bytes of keys and values), a lower bound once the log holds a range delete",
        "BufferBatch implements Put/Delete/Get/Write/Close only (Has/Size/NewIterator/DeleteRange panic 'should not be called'): those calls are skipped on the bufferbatch variants",
    ]
    return ctx.finish(
        "model_checking",
        "exhaustive TLC on three bounded configurations of KV.tla (batches; snapshot+iterators; everything together "
        "over a tiny alphabet) and five mutants of it that must each violate the named property + an EDGE COVER "
        "of the exhaustively enumerated iterator sub-machine (source x range shape x key count x position class x "
        "call x seek target before/at/after, below/in/above the range, exact/next/miss, back/stay/forward) and of the "
        "batch sub-machine (key in store? x the batch's operation history on the key x Get/Has/iterator/Write, the "
        "Update/Write helpers with a read in the callback), exported by TLC as shortest behaviours and replayed on "
        "all 8 backend variants in every run + schema-uniform TLC simulation behaviours (24 calls each over 6 keys "
        "incl. 0xff-terminated and prefix-extending keys, 7 iterator prefixes, values incl. empty) replayed call by "
        "call on the same variants; every call of db.KeyValueStore/Batch/IndexedBatch/Snapshot/Iterator is a "
        "specification action with a compared result; non-trivial = every behaviour mutates the store and "
        "exercises at least a batch, snapshot or iterator")

"""C15 — all database backends implement one contract (spec/kv/KV.tla).

TLC: exhaustive check of the contract's own properties (batch = sequential application,
all-or-nothing helpers, indexed reads-own-writes, snapshot isolation, iterator order/seek).
Binding: differential replay of TLC-generated behaviours on db/memory, db/pebblev2, db/pebble
and the syncbatch/bufferbatch wrappers; every return value and the full store content after
every call must equal the specification's.
"""
import json
import vlib

KEYS_FULL = [[0], [0, 0], [0, 255], [1], [255], [255, 255]]


def validate_concurrent(ctx, binary, rounds, payload=None):
    """Record one-writer/three-reader runs on each backend; TLC validates them against KVTrace.tla.
    On a rejection the offending round is reported (replayable: the recorded trace itself) and
    validation continues with the remaining rounds."""
    import os
    tf = os.path.join(ctx.scratch, "kvtrace.ndjson")
    if payload is None:
        res = ctx.run_engine(binary, "TestKVConcurrent", {"keys": KEYS_FULL, "rounds": rounds, "writer_ops": 8, "hammer_rounds": 2 if rounds < 30 else 6, "hammer_batches": 60, "out": tf}, timeout=900)
        lines = open(tf).read().splitlines()
        rinfo = res["stats"]["rounds"]
    else:
        lines = payload["lines"]
        rinfo = [{"backend": payload.get("backend", "?"), "round": 0, "first": 1, "last": len(lines)}]
    if len(lines) < 10:
        raise vlib.Broken("concurrent recorder produced no events")
    accepted = 0
    for _ in range(6):
        with open(tf, "w") as f:
            f.write("\n".join(lines) + "\n")
        ok, r = ctx.tlc_trace("kv", "KVTrace.tla", "KVTrace.cfg", tf, timeout=900)
        if ok:
            accepted += len(rinfo)
            break
        if r["violated"] != "postcondition" or not r.get("highwater"):
            raise vlib.Broken("trace validation failed for another reason than rejection:\n" + "\n".join(r["out"].splitlines()[-30:]))
        hw = r["highwater"]  # index of the first line no behaviour could consume
        bad = [x for x in rinfo if x["first"] <= hw <= x["last"]] or [rinfo[-1]]
        bad = bad[0]
        seg = lines[bad["first"] - 1: bad["last"]]
        ctx.report("kv-concurrent:%s" % bad["backend"],
                   "backend %s: recorded concurrent history is not a behaviour of KVTrace.tla (stuck at line %d of the round: %s)" % (
                       bad["backend"], hw - bad["first"] + 1, lines[hw - 1][:200]),
                   {"property": "C15", "engine": "kv", "test": "TestKVConcurrent", "seed": ctx.seed,
                    "input": {"trace": {"lines": seg, "backend": bad["backend"]}}})
        # drop the rejected round, keep validating the rest
        keep, new_info, pos = [], [], 1
        for x in rinfo:
            if x is bad:
                continue
            n = x["last"] - x["first"] + 1
            keep += lines[x["first"] - 1: x["last"]]
            new_info.append({"backend": x["backend"], "round": x["round"], "first": pos, "last": pos + n - 1})
            pos += n
        lines, rinfo = keep, new_info
        if not lines:
            break
    ctx.traces_validated += accepted
    ctx.coverage["concurrent_rounds_validated"] = accepted
    ctx.coverage["concurrent_trace_events"] = len(lines)
    if lines:
        ctx.samples.append({"concurrent_trace_excerpt": [json.loads(x) for x in lines[:12]]})


KEYS_LIN = [[1], [2], [3]]
LIN_EXPECTED = [
    ("KVLin_x_batch.cfg", "Batch.Write applied key by key"),
    ("KVLin_x_iter2.cfg", "iterator lists the keys and fetches the values at two points"),
]
LIN_EXPECTED_THOROUGH = [
    ("KVLin_x_range.cfg", "DeleteRange applied key by key"),
    ("KVLin_x_iterlazy.cfg", "iterator reads values when asked"),
    ("KVLin_x_snap2.cfg", "snapshot copied in two critical sections"),
    ("KVLin_x_snaplive.cfg", "snapshot is a reference to the live content"),
]


def reader_visible_atomicity(ctx, binary, thorough):
    """KVLin.tla: calls have a duration; the contract is ReadersSeeOnePoint (a completed reader call
    observed ONE abstract content of its window). TLC: the mechanisms as they are satisfy it, each
    excluded mechanism violates it. Binding: TLC-generated writer programs / reader menus on the real
    backends with every model key blown up to a group of thousands of real keys; the engine evaluates
    the invariant on every observation (TestKVLinearizable)."""
    ctx.tlc_check("kv", "KVLin.tla", "KVLin_quick.cfg", timeout=600)
    r = ctx.tlc_check("kv", "KVLin.tla", "KVLin_x_vacuity.cfg", timeout=600, expect_violation=True,
                      label="KVLin: a window spanning two commits is reachable (violation expected)")
    if r["violated"] != "NoWideWindow":
        raise vlib.Broken("KVLin_x_vacuity.cfg should violate NoWideWindow, got %s" % r["violated"])
    for cfg, label in LIN_EXPECTED + (LIN_EXPECTED_THOROUGH if thorough else []):
        r = ctx.tlc_check("kv", "KVLin.tla", cfg, timeout=600, expect_violation=True,
                          label="KVLin: %s (violation expected)" % label)
        if r["violated"] != "ReadersSeeOnePoint":
            raise vlib.Broken("%s should violate ReadersSeeOnePoint, got %s" % (cfg, r["violated"]))
    if thorough:
        ctx.tlc_check("kv", "KVLin.tla", "KVLin_thorough.cfg", timeout=3000)
    nbeh = 12 if thorough else 5
    behaviours = ctx.tlc_simulate("kv", "KVLinMBT.tla", "KVLin_sim.cfg", depth=130 * (nbeh + 1),
                                  seed=ctx.seed * 1000 + 500, timeout=600, max_behaviours=nbeh)
    res = ctx.run_engine(binary, "TestKVLinearizable",
                         {"keys": KEYS_LIN, "behaviours": behaviours, "round_ms": 600 if thorough else 350,
                          "readers": 4, "ghost_ms": 20000}, timeout=1200)
    if res["stats"].get("ghost_missed"):
        raise vlib.Broken("the concurrent round did not open the windows in this run: the ghost mechanism '%s' "
                          "(harness-own, on db/memory) was not reported within its budget" % res["stats"]["ghost_missed"])
    ctx.absorb(res, "kv", "TestKVLinearizable")
    ctx.coverage["lin_behaviours"] = len(behaviours)


def empty_key_probe(ctx, binary):
    """The property's domain names the EMPTY key. Pebble v2's columnar sstable writer panics
    ('unreachable', colblk.PrefixBytesBuilder.Finish) in a background flush goroutine when a
    memtable holding the empty key is flushed — the process dies, db/memory does not mind. juno's
    own keys always start with a bucket byte, so the model's key alphabet is non-empty and the
    empty key is probed in a process of its own."""
    for backend in ("memory", "pebble", "pebblev2"):
        try:
            res = ctx.run_engine(binary, "TestKVEmptyKeyProbe", {"backend": backend}, timeout=120)
        except vlib.Broken as e:
            msg = str(e)
            if "panic:" in msg and "pebble" in msg:
                ctx.report("kv:%s:empty-key:process-dies-on-flush" % backend,
                           "backend %s: Put(empty key) followed by a memtable flush kills the process (%s)" % (
                               backend, msg[msg.find("panic:"):][:80].replace("\n", " ")),
                           {"property": "C15", "engine": "kv", "test": "TestKVEmptyKeyProbe", "seed": ctx.seed,
                            "input": {"backend": backend}})
                continue
            raise
        ctx.absorb(res, "kv", "TestKVEmptyKeyProbe")


def run(ctx):
    binary = ctx.build_engine("kv")
    if ctx.replay:
        with open(ctx.replay) as f:
            rp = json.load(f)
        if "trace" in rp["input"]:
            validate_concurrent(ctx, binary, 0, payload=rp["input"]["trace"])
        else:
            res = ctx.run_engine(binary, rp["test"], rp["input"])
            ctx.absorb(res, "kv", rp["test"])
        return ctx.finish("model_checking", "replay of one recorded behaviour")

    thorough = not ctx.quick()
    ctx.tlc_check("kv", "MCKV.tla", "KV_batch_quick.cfg", timeout=600)
    ctx.tlc_check("kv", "MCKV.tla", "KV_iter_quick.cfg", timeout=600)
    if thorough:
        r = ctx.tlc_check("kv", "MCKV.tla", "KV_batch_thorough.cfg", timeout=3000, coverage=True)
        vlib.require_actions_covered(r, ignore=("NewSnapshot", "SnapGet", "SnapClose", "NewIter", "IterFirst",
                                                "IterSeek", "IterNext", "IterPrev", "IterClose", "MoveTo"))
        ctx.tlc_check("kv", "MCKV.tla", "KV_iter_thorough.cfg", timeout=3000)

    nruns = 12 if thorough else 2
    depth = 25 * (400 if thorough else 160)
    behaviours = []
    for i in range(nruns):
        behaviours += ctx.tlc_simulate("kv", "KVMBT.tla", "KV_sim.cfg", depth=depth,
                                       seed=ctx.seed * 1000 + i, timeout=900)
    res = ctx.run_engine(binary, "TestKVReplay", {"keys": KEYS_FULL, "behaviours": behaviours}, timeout=3000)
    ctx.absorb(res, "kv", "TestKVReplay")
    validate_concurrent(ctx, binary, rounds=60 if thorough else 15)
    reader_visible_atomicity(ctx, binary, thorough)
    empty_key_probe(ctx, binary)
    ctx.coverage["behaviours_generated"] = len(behaviours)
    ctx.coverage["steps_replayed"] = res.get("steps", 0)
    ctx.assumptions += [
        "a single Batch.Write / Put is atomic and durable in Pebble (the property is about equivalence of the backends)",
        "contract: no direct store write while an open batch holds a range delete (memory resolves it eagerly)",
        "iterator contract: after a failed Next/Prev only First/Seek; after a failed Seek only Prev/First/Seek",
    ]
    return ctx.finish(
        "model_checking",
        "exhaustive TLC on two bounded configurations of KV.tla (batches; snapshot+iterators) + "
        "schema-uniform TLC simulation behaviours (24 calls each over 6 keys incl. 0xff-terminated and "
        "prefix-extending keys, 7 iterator prefixes, values incl. empty) replayed call by call on 8 backend "
        "variants; non-trivial = every behaviour mutates the store and exercises at least a batch, snapshot or iterator")

"""C15 — all database backends implement one contract (spec/kv/KV.tla).

TLC: exhaustive check of the contract's own properties (batch = sequential application,
all-or-nothing helpers, indexed reads-own-writes, snapshot isolation, iterator order/seek).
Binding: differential replay of TLC-generated behaviours on db/memory, db/pebblev2, db/pebble
and the syncbatch/bufferbatch wrappers; every return value and the full store content after
every call must equal the specification's.
"""
import json
import vlib

KEYS_FULL = [[0], [0, 0], [0, 255], [1], [255], [255, 255]]


def run(ctx):
    binary = ctx.build_engine("kv")
    if ctx.replay:
        with open(ctx.replay) as f:
            rp = json.load(f)
        res = ctx.run_engine(binary, rp["test"], rp["input"])
        ctx.absorb(res, "kv", rp["test"])
        return ctx.finish("model_checking", "replay of one recorded behaviour")

    thorough = not ctx.quick()
    ctx.tlc_check("kv", "MCKV.tla", "KV_batch_quick.cfg", timeout=600)
    ctx.tlc_check("kv", "MCKV.tla", "KV_iter_quick.cfg", timeout=600)
    if thorough:
        r = ctx.tlc_check("kv", "MCKV.tla", "KV_batch_thorough.cfg", timeout=3000, coverage=True)
        vlib.require_actions_covered(r, ignore=("NewSnapshot", "SnapGet", "SnapClose", "NewIter", "IterFirst",
                                                "IterSeek", "IterNext", "IterPrev", "IterClose", "MoveTo"))
        ctx.tlc_check("kv", "MCKV.tla", "KV_iter_thorough.cfg", timeout=3000)

    nruns = 12 if thorough else 2
    depth = 25 * (400 if thorough else 160)
    behaviours = []
    for i in range(nruns):
        behaviours += ctx.tlc_simulate("kv", "KVMBT.tla", "KV_sim.cfg", depth=depth,
                                       seed=ctx.seed * 1000 + i, timeout=900)
    res = ctx.run_engine(binary, "TestKVReplay", {"keys": KEYS_FULL, "behaviours": behaviours}, timeout=3000)
    ctx.absorb(res, "kv", "TestKVReplay")
    ctx.coverage["behaviours_generated"] = len(behaviours)
    ctx.coverage["steps_replayed"] = res.get("steps", 0)
    ctx.assumptions += [
        "a single Batch.Write / Put is atomic and durable in Pebble (the property is about equivalence of the backends)",
        "contract: no direct store write while an open batch holds a range delete (memory resolves it eagerly)",
        "iterator contract: after a failed Next/Prev only First/Seek; after a failed Seek only Prev/First/Seek",
    ]
    return ctx.finish(
        "model_checking",
        "exhaustive TLC on two bounded configurations of KV.tla (batches; snapshot+iterators) + "
        "schema-uniform TLC simulation behaviours (24 calls each over 6 keys incl. 0xff-terminated and "
        "prefix-extending keys, 7 iterator prefixes, values incl. empty) replayed call by call on 8 backend "
        "variants; non-trivial = every behaviour mutates the store and exercises at least a batch, snapshot or iterator")

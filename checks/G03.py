"""G03 (specification growth, not a listed property) — the RPC read model extended to what C08 / C09
state as NOT covered (spec/rpc2/RpcEvents.tla):

  (a) starknet_getEvents through the real RPC stack: from/to block ids (absent, number, hash, latest,
      l1_accepted, pre_confirmed / v0.8 pending), address and per-position key filters, chunk_size,
      continuation tokens (honest ones followed to exhaustion; tokens minted for another filter), error codes;
  (b) the pre_confirmed block id of the read methods while the node DOES hold pre-confirmed data (a real
      sync.Synchronizer whose sync/preconfirmed.ChainStorage is fed the way the poller feeds it), and the
      documented fallback (an empty block on the head) when it holds none for head+1.

TLC: exhaustive on small bounds that what the handlers compute (raw range numbers with the pre_confirmed
sentinel, canonicalEvents / preConfirmedEvents with the (block, processed) token, SnapshotForBlock + fallback,
pending.State over the merged diff) equals the declarative definition (naive scan of canonical blocks plus the
requested view blocks cut into pages; resolution of pre_confirmed = tip of the view; overlay = newest writer
wins) — for the code as it is (one known deviation excepted) and for the repaired design.
Binding: TLC-simulated behaviours (Store / Revert / SetL1Head / poller AdvanceTo / full block / delta, interleaved
with requests) replayed through jsonrpc.Server.HandleReader with the real v0.8 / v0.9 / v0.10 method tables on a
real Blockchain (both state backends); every JSON response is projected onto the abstract result and compared
with the property's demand; complete event queries follow the REAL continuation tokens; the harness's own naive
scan of what it stored cross-checks the specification's expectation; API versions are compared with each other
on all fields they share.  Run with ./check G03.  Not registered in MANIFEST.json; evidence in evidence/G03.json.
"""
import json
import vlib

FAMILY = "rpc2"
ENGINE = "rpc2"
TEST = "TestRpc2Replay"
STEPS = 40  # MaxSteps in RpcEvents_sim.cfg
METHODS = ["getBlockWithTxHashes", "getBlockWithTxs", "getBlockWithReceipts", "getBlockTransactionCount", "getStateUpdate",
           "getTransactionByBlockIdAndIndex", "getStorageAt", "getNonce", "getClassHashAt", "getClassAt", "getClass"]
BY_HASH = ["getTransactionByHash", "getTransactionReceipt", "getTransactionStatus"]
ERRORS = ["BlockNotFound", "TxnHashNotFound", "InvalidTxnIndex", "ContractNotFound", "ClassHashNotFound",
          "InvalidParams", "PageSizeTooBig", "TooManyKeys", "InvalidToken"]
KNOWN_L1 = "rpc2:getEvents:"


def shape_counts(behaviours):
    """How many generated behaviours reach the interesting regions (measured, for the evidence)."""
    deep = stale = l1_above_ev = pc_ranges = fallback_reads = revert_with_pc = tip_from = limits = 0
    for b in behaviours:
        f_deep = f_stale = f_l1 = f_pc = f_fb = f_rev = False
        for s in b:
            a, h = s["a"], len(s["chain"]) - 1
            above = [p for p in s["pcs"] if p["num"] > h]
            view = above if above and above[0]["num"] == h + 1 else []
            f_deep = f_deep or len(view) >= 2
            f_stale = f_stale or bool(s["pcs"] and s["pcs"][0]["num"] != h + 1 and a["name"] not in ("Store", "Revert"))
            if a["name"] == "getEvents" and "tok" not in a:
                if s["l1"] > h and "l1_accepted" in (a["from"]["k"], a["to"]["k"]):
                    f_l1 = True
                if a["to"]["k"] == "pre_confirmed" and view and any(p["k"] > 0 for p in view):
                    f_pc = True
                if a["from"]["k"] == "pre_confirmed" and a["to"]["k"] == "pre_confirmed" and len(view) >= 2:
                    tip_from += 1
                if a["chunk"] == 10240 or a["f"]["huge"] == 1:
                    limits += 1
            if (a.get("id") or {}).get("k") == "pre_confirmed" and not view and h >= 0:
                f_fb = True
            f_rev = f_rev or bool(a["name"] == "Revert" and s["pcs"])
        deep += f_deep
        stale += f_stale
        l1_above_ev += f_l1
        pc_ranges += f_pc
        fallback_reads += f_fb
        revert_with_pc += f_rev
    return {"behaviours_with_view_depth_2": deep, "behaviours_reading_with_stale_storage": stale,
            "behaviours_with_l1_accepted_event_range_above_height": l1_above_ev,
            "behaviours_with_event_range_into_nonempty_view": pc_ranges,
            "behaviours_reading_pre_confirmed_fallback": fallback_reads,
            "behaviours_reverting_under_stored_preconfirmed": revert_with_pc,
            "event_queries_from_pre_confirmed_tag_with_view_depth_2": tip_from,
            "event_queries_exactly_at_a_limit": limits}


def run(ctx):
    binary = ctx.build_engine(ENGINE, stubs=True)
    if ctx.replay:
        with open(ctx.replay) as f:
            rp = json.load(f)
        res = ctx.run_engine(binary, rp["test"], rp["input"])
        ctx.absorb(res, ENGINE, rp["test"])
        return ctx.finish("model_checking", "replay of one recorded behaviour")

    thorough = not ctx.quick()
    tier = "thorough" if thorough else "quick"

    # 1. the specification
    for part, label in (("paging", "complete paged getEvents, every chunk size, ranges into the view"),
                        ("ids", "getEvents ranges by every identifier kind, reverts, stale storage, L1 head"),
                        ("tokens", "single pages with any (block, processed) token"),
                        ("reads", "read methods at pre_confirmed / by-hash lookups with pre-confirmed data")):
        ctx.tlc_check(FAMILY, "MCRpcEvents.tla", "RpcEvents_%s_%s.cfg" % (part, tier), timeout=3000 if thorough else 900,
                      label="RpcEvents %s: %s (%s)" % (part, label, tier))
    ctx.tlc_check(FAMILY, "MCRpcEvents.tla", "RpcEvents_ids_fixed.cfg", timeout=900,
                  label="RpcEvents repaired (l1_accepted clamped in getEvents): strict property")
    # the strict property must FAIL on the as-is model: the exception is not vacuous
    r = ctx.tlc_check(FAMILY, "MCRpcEvents.tla", "RpcEvents_ids_strict_asis.cfg", timeout=600, expect_violation=True,
                      label="RpcEvents as-is vs strict property (must be violated)")
    if r["ok"] or r["violated"] != "EventsAnswerFromChainStrict":
        raise vlib.Broken("the as-is model no longer deviates from the strict property (%s): the FixL1EventsClamp "
                          "switch is stale" % r["violated"])
    # vacuity: the antecedents of the properties are reachable in the exhaustive configurations (TLC -coverage runs
    # out of memory on the recursive operators, so reachability is shown by invariants that must be violated)
    witnesses = [("paging", "WitnessNoPagingAcrossHead"), ("receipt", "WitnessNoReceiptBelowTip")]
    if thorough:
        witnesses.append(("stale", "WitnessNoStaleOverlayRead"))
    for w, inv in witnesses:
        r = ctx.tlc_check(FAMILY, "MCRpcEvents.tla", "RpcEvents_witness_%s.cfg" % w, timeout=900, expect_violation=True,
                          label="witness %s (must be violated)" % inv)
        if r["ok"] or r["violated"] != inv:
            raise vlib.Broken("vacuity: witness %s is not reachable (%s)" % (inv, r["violated"]))

    # 2. binding: behaviours from TLC -simulate, replayed on the real stack
    nruns = 8 if thorough else 2
    per_run = 110 if thorough else 70
    behaviours = []
    for i in range(nruns):
        behaviours += ctx.tlc_simulate(FAMILY, "RpcEventsMBT.tla", "RpcEvents_sim.cfg", depth=(STEPS + 1) * per_run,
                                       seed=ctx.seed * 1000 + i, timeout=1500)
    res = ctx.run_engine(binary, TEST, {"behaviours": behaviours, "first": 0}, timeout=3000)
    ctx.absorb(res, ENGINE, TEST)
    ctx.coverage["behaviours_generated"] = len(behaviours)
    shapes = shape_counts(behaviours)
    ctx.coverage.update(shapes)
    ctx.coverage["steps_replayed"] = res.get("steps", 0)
    stats = res.get("stats", {})

    # vacuity guards (machinery, not verdicts)
    if not ctx.violations:
        need = {"event_queries_answered": 200, "event_queries_multi_page": 30, "events_returned_preconfirmed": 20,
                "event_queries_paging_across_head": 3, "foreign_token_pages": 10, "oracle_cross_checks": 100,
                "answers_with_data": 200}
        low = {k: stats.get(k, 0) for k, v in need.items() if stats.get(k, 0) < v}
        silent = [m for m in METHODS if stats.get("preconfirmed_reads_with_data:" + m, 0) == 0]
        silent += [m for m in BY_HASH if stats.get("preconfirmed_tx_found:" + m, 0) == 0]
        unseen = [e for e in ERRORS if stats.get("err:" + e, 0) == 0]
        weak = [k for k in ("behaviours_with_view_depth_2", "behaviours_reading_with_stale_storage",
                            "behaviours_with_event_range_into_nonempty_view", "behaviours_reading_pre_confirmed_fallback")
                if shapes[k] == 0]
        weak += [k for k in ("event_queries_from_pre_confirmed_tag_with_view_depth_2", "event_queries_exactly_at_a_limit")
                 if shapes[k] < 3]
        if low or silent or unseen or weak:
            raise vlib.Broken("replay is vacuous: counters below their floor %s / methods never answered from "
                              "pre-confirmed data %s / errors never demanded %s / regions never reached %s"
                              % (low, silent, unseen, weak))
    ctx.assumptions += [
        "FFI stubs stand in for the Rust VM/compiler (read methods never call them; a call aborts loudly)",
        "the pre-confirmed storage is the real sync.Synchronizer's own ChainStorage (reached through reflection: the "
        "field is private); the harness plays the poller (AdvanceTo(height+1), ApplyUpdate with wire-format full blocks "
        "and deltas, declared classes registered as the backfill does); the Synchronizer itself is never run",
        "a pre-confirmed block n+1 is opened only when block n is complete; its first transaction carries the block's "
        "state diff; poller updates the storage would reject (misaligned, gaps) are not generated (C20 covers them)",
        "the per-block bloom filter is exact in the model; honest continuation tokens do not depend on bloom "
        "false positives, pages with foreign tokens are judged only by soundness (subsequence of the naive scan)",
        "event index windows (8192 blocks), scan limits, restarts and reorgs of the index are C09's subject: chains "
        "here have <= 3 canonical blocks, all in the running window, filterLimit is unlimited",
        "v0.8 has no l1_accepted tag (InvalidParams) and its `pending` is by design an empty block on the head that "
        "never shows pre-confirmed data: both are specification differences, modelled as such (want8)",
        "getEvents on an EMPTY database answers -32603 Internal error (Height() fails first); no request is generated there",
    ]
    return ctx.finish(
        "model_checking",
        "exhaustive TLC on RpcEvents.tla in four slices (paging: chain <= 2 [thorough 3] canonical + <= 2 pre-confirmed "
        "blocks with every number of received transactions, 8 [55] filters, chunk 1/2/[3/]100, ranges by absent / number / "
        "pre_confirmed; ids: every identifier kind incl. hashes of absent blocks and l1_accepted with the L1 head none / below / "
        "above the height, reverts, stale storage; tokens: every (block, processed) token; reads: every read method at "
        "pre_confirmed / latest / number and every by-hash lookup) for the as-is and the repaired model + TLC-simulated "
        "behaviours of 40 steps replayed request by request on v0.8/v0.9/v0.10 x {legacy, new} state following real "
        "continuation tokens; non-trivial = counters floors on multi-page queries, pre-confirmed events returned, paging "
        "across the head, every read method answered from pre-confirmed data, every error code demanded")

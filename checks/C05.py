"""C05 — block storage is atomic and crash-consistent at every interruption point
(spec/chain/Crash.tla, harness/engines/crash).

1. TLC, exhaustive: the REPAIRED design (every defect switch TRUE) satisfies Consistent,
   MemAgreesWithDisk, NextStoreSucceeds, StateReadsCorrect for every sequence of <= MaxOps operations
   over {store, revert, setL1, snapshot, prune, restart, query} x every durable mutation
   {ok, fail, crash} - the mutations of the lazy running-filter initialisation an operation triggers
   (delete of the loaded snapshot, put of a window completed while filling) included -, from an
   empty database and across a bloom-window boundary; the FAITHFUL model (switches as probed on the
   real code) is expected to violate them iff a defect is still there; the two mechanisms of the
   initialisation (its delete error fails it; a failed initialisation is retried) switched off must
   each violate them.
2. Binding (a) conformance: TLC-simulated behaviours of the faithful model, faults included, are
   replayed on real nodes over the fault-injecting store; result kind, number of durable mutations
   and the projected durable state (after every single mutation of a prune) must equal the
   specification's.
3. Binding (b) fault enumeration: fault-free TLC behaviours; for every durable mutation k of every
   operation (initialisation mutations first) "fail at k" and "crash after k" are run, and
   Consistent / MemAgreesWithDisk / NextStoreSucceeds are evaluated on the REAL node against an
   unfaulted twin, and once more on a fresh process over the store the sequence leaves behind.
Both wirings of the initialiser are bound: pruner.InitializeRunningEventFilter (pruning node) and
core.InitializeRunningEventFilter (archive node: behaviours of the model without the pruner).
"""
import json
import vlib

SWITCHES = ["FixMemAfterCommit", "FixSnapshot", "FixReorgWindow", "FixPruneAtomicFloor", "FixCacheOnReorg",
            "FixInitConsume", "FixInitRetry"]

SCEN = {
    # from an empty database, no bloom-window boundary in reach
    "gen": dict(MaxH=3, MaxVer=2, InitH=-1, Boundary=99, Genesis=True),
    # a chain 0..2 from genesis (pruning and deeper reverts in reach), no boundary
    "mid": dict(MaxH=4, MaxVer=2, InitH=2, Boundary=99, Genesis=True),
    # base chain ending two / zero blocks below the boundary (real blocks 8190.. / 8192..)
    "lo": dict(MaxH=3, MaxVer=2, InitH=0, Boundary=2, Genesis=False),
    "hi": dict(MaxH=3, MaxVer=2, InitH=2, Boundary=2, Genesis=False),
}


def tla_bool(b):
    return "TRUE" if b else "FALSE"


def cfg_text(sc, switches, faults=True, max_ops=5, prune_batch=1, mbt=False, invariants=True, max_h=None, max_ver=None,
             prune=True, scripts=None):
    c = dict(SCEN[sc])
    if max_h:
        c["MaxH"] = max_h
    if max_ver:
        c["MaxVer"] = max_ver
    lines = ["CONSTANTS",
             "  MaxH = %d" % c["MaxH"], "  MaxVer = %d" % c["MaxVer"], "  MaxOps = %d" % max_ops,
             "  InitH <- EmptyDB" if c["InitH"] < 0 else "  InitH = %d" % c["InitH"],
             "  Boundary = %d" % c["Boundary"], "  Genesis = %s" % tla_bool(c["Genesis"]),
             "  Lag = 10", "  PruneBatch = %d" % prune_batch,
             "  EnableFaults = %s" % tla_bool(faults), "  EnablePrune = %s" % tla_bool(prune)]
    for s in SWITCHES:
        lines.append("  %s = %s" % (s, tla_bool(switches[s])))
    if scripts:
        lines += ["  Scripts <- %s" % scripts, "INIT ScriptInit", "NEXT ScriptNext"]
    elif mbt:
        lines += ["INIT MBTInit", "NEXT MBTNext"]
    else:
        lines += ["INIT Init", "NEXT Next", "VIEW view"]
        if invariants:
            lines += ["INVARIANTS InitMutsBounded TypeOK Consistent MemAgreesWithDisk NextStoreSucceeds StateReadsCorrect",
                      "PROPERTIES FailedInitIsRetried FailedWriteAppliesNothing RestartIsNoOp"]
    lines.append("CHECK_DEADLOCK FALSE")
    return "\n".join(lines) + "\n", c


# specification switch -> key of the confirmed defect it models
DEFECT_KEYS = {
    "FixMemAfterCommit": "event-filter:mem-ahead-of-failed-commit:revert",
    "FixSnapshot": "event-filter:stale-snapshot-reused-after-restart",
    "FixReorgWindow": "event-filter:stale-window-after-reorg-across-boundary:store-fails-after-restart",
    "FixPruneAtomicFloor": "prune-crash:floor-reseed-below-deleted-history",
    "FixCacheOnReorg": "bloom-cache:stale-window-after-reorg-across-boundary",
    # mechanisms of the lazy initialisation (TRUE = the code as it is)
    "FixInitConsume": "event-filter:init-delete-error-ignored:stale-snapshot-reused-after-restart",
    "FixInitRetry": "event-filter:failed-init-latched:store-fails-until-restart",
}


def engine(ctx, binary, test, payload, timeout=3000):
    """Run an engine test. The engine gets a deadline shorter than the driver's timeout, so that a
    hang (of the harness or of the real code) still delivers what was recorded. A machinery error
    is exit 2 only if no divergence on the real code was recorded before it."""
    payload = dict(payload, deadlineSec=max(60, timeout - 120))
    res = ctx.run_engine(binary, test, payload, timeout=timeout)
    err = res.get("stats", {}).pop("machinery_error", None)
    if err:
        if not res.get("divergences"):
            raise vlib.Broken("engine %s: %s\n%s" % (test, err, res.get("_stdout", "")[-2000:]))
        vlib.log("engine %s stopped early (%s) after recording %d divergences" % (test, err, len(res["divergences"])))
    return res


def model_switches(ctx, probe_stats):
    """The model the code is compared with comes from known_findings.json, not from the tree under
    test: a defect is modelled as present (switch FALSE) only if its key is listed `known` for this
    property AND its directed replay reproduces it; listed `fixed` or not listed => repaired model
    (a defect that returns, even partially, then departs from the model = VIOLATION)."""
    sw = {}
    for s, key in DEFECT_KEYS.items():
        listed = any(k["status"] == "known" and vlib.key_matches(k["key"], key) for k in ctx.known)
        reproduces = probe_stats.get(s) is False or probe_stats.get(s) == 0
        sw[s] = not (listed and reproduces)
        if listed and not reproduces:
            print("NOTE: property=%s known finding %s did not reproduce on this tree" % (ctx.prop, key), flush=True)
    return sw


def run(ctx):
    binary = ctx.build_engine("crash")
    if ctx.replay:
        with open(ctx.replay) as f:
            rp = json.load(f)
        res = ctx.run_engine(binary, rp["test"], rp["input"], timeout=3000)
        ctx.absorb(res, "crash", rp["test"])
        return ctx.finish("model_checking", "replay of one recorded behaviour / fault point")

    thorough = not ctx.quick()

    # ---- directed replays of the confirmed defects; the model's switches come from known_findings.json
    probe = engine(ctx, binary, "TestCrashProbe", {}, timeout=900)
    pstats = dict(probe.get("stats", {}))
    ctx.absorb(probe, "crash", "TestCrashProbe")
    faithful = model_switches(ctx, pstats)
    repaired = {s: True for s in SWITCHES}
    ctx.coverage["model_switches"] = faithful
    vlib.log("model switches (from known_findings.json; FALSE = listed known and reproduced): %s" % faithful)

    # ---- directed behaviours (spec/chain/CrashScripts.tla): fixed operation sequences run through the
    # faithful model, replayed on the real node in every run whatever the simulation samples:
    # repeated failed revert commits across the window boundary (regression of a false alarm of the
    # model: block numbers below the scenario exist) and faults in the lazy initialisation's own
    # delete under every operation that can trigger it, on both wirings of the initialiser
    for sc, name, n, plains in (("lo", "ScriptsLo", 2, [False]), ("mid", "ScriptsMid", 8, [True, False])):
        txt, c = cfg_text(sc, faithful, faults=True, max_ops=12, scripts=name)
        bs = ctx.tlc_simulate("chain", "CrashScripts.tla", "scripts.cfg", depth=40 * n, seed=1,
                              files={"scripts.cfg": txt}, timeout=600)
        if len(bs) != n:
            raise vlib.Broken("CrashScripts %s: %d of %d directed behaviours were generated (a step of a script is not "
                              "enabled in the model)" % (name, len(bs), n))
        for plain in plains:
            res = engine(ctx, binary, "TestCrashConform",
                         {"consts": c, "behaviours": bs, "newState": [False, True] if thorough or sc == "mid" else [False],
                          "backends": ["memory"], "pruneBatch": 1, "plain": plain}, timeout=900)
            ctx.absorb(res, "crash", "TestCrashConform")
            vlib.log("engine TestCrashConform directed %s (%s wiring): %d behaviours, %.0fs" % (
                name, "archive" if plain else "pruning", len(bs), res["_wall_s"]))
        ctx.coverage["directed_behaviours"] = ctx.coverage.get("directed_behaviours", 0) + n * len(plains)

    # ---- 1. TLC on the specification (repaired design)
    ctx.tlc_check("chain", "MCCrash.tla", "Crash_quick.cfg", timeout=900)
    ctx.tlc_check("chain", "MCCrash.tla", "Crash_quick_b.cfg", timeout=900)
    if thorough:
        ctx.tlc_check("chain", "MCCrash.tla", "Crash_thorough.cfg", timeout=3000)
        ctx.tlc_check("chain", "MCCrash.tla", "Crash_thorough_b.cfg", timeout=3000)

    def self_checks():
        """Vacuity and model self-checks; run AFTER the engines so that they cannot turn a violation
        observed on the code into exit 2."""
        # the two mechanisms of the lazy initialisation, switched off one at a time, must violate
        for cfg in ("Crash_self_initconsume.cfg", "Crash_self_initretry.cfg") if thorough else ("Crash_self_initconsume.cfg",):
            r = ctx.tlc_check("chain", "MCCrash.tla", cfg, timeout=600, expect_violation=True,
                              label="self-check %s (expected to violate)" % cfg)
            if r["ok"]:
                raise vlib.Broken("%s: the model without this mechanism of the lazy filter initialisation satisfies every "
                                  "property, i.e. faults in the initialisation's own mutations are not explored" % cfg)
        if thorough:
            for wname in ("NeverStore", "NeverRevert", "NeverSetL1", "NeverSnapshot", "NeverPrune", "NeverPruneStep",
                          "NeverRestart", "NeverQuery", "NeverInitPut", "NeverFailedWrite", "NeverCrashedMidPrune",
                          "NeverCrossedBack", "NeverInitFailed", "NeverInitCrashed", "NeverInitFailedInQuery"):
                txt, _ = cfg_text("hi", repaired, max_ops=6, invariants=False)
                # no VIEW here: the witnesses speak about act/res, which the view hides
                txt = txt.replace("VIEW view\n", "").replace("CHECK_DEADLOCK FALSE", "INVARIANTS %s\nCHECK_DEADLOCK FALSE" % wname)
                r = ctx.tlc_check("chain", "MCCrash.tla", "witness.cfg", files={"witness.cfg": txt}, timeout=600,
                                  expect_violation=True, label="witness " + wname)
                if r["ok"]:
                    raise vlib.Broken("vacuity: %s is never violated, i.e. the situation is unreachable in the model" % wname)
        if not all(faithful.values()):
            # the model with the listed-known defects switched on must exhibit them
            txt, _ = cfg_text("hi", faithful, max_ops=5)
            r = ctx.tlc_check("chain", "MCCrash.tla", "faithful.cfg", files={"faithful.cfg": txt}, timeout=900,
                              expect_violation=True, label="model with the known defects (expected to violate)")
            if r["ok"]:
                raise vlib.Broken("the model with switches %s satisfies every invariant: the switches do not model "
                                  "the listed known defects" % faithful)
            ctx.coverage["faithful_model_violates"] = r["violated"]

    # ---- 2./3. binding
    scen_list = ["gen", "mid", "lo", "hi"]
    one = [False, True] if thorough else [False]
    new_state = {"gen": [False, True], "mid": [False, True], "lo": one, "hi": one}
    n_conf = {"gen": 200, "mid": 300, "lo": 200, "hi": 200} if thorough else {"gen": 30, "mid": 50, "lo": 40, "hi": 40}
    n_enum = {"gen": 30, "mid": 40, "lo": 25, "hi": 25} if thorough else {"gen": 5, "mid": 8, "lo": 7, "hi": 6}
    # Pebble (thorough, from-genesis scenarios): every trial opens and closes a database directory,
    # so only a slice of the behaviours is repeated there
    n_pebble_conf = {"gen": 40, "mid": 60}
    n_pebble_enum = {"gen": 4, "mid": 8}
    total_conf = total_enum = 0
    for i, sc in enumerate(scen_list):
        for pb in ([1, 99] if thorough else [1]):
            txt, c = cfg_text(sc, faithful, faults=True, mbt=True, prune_batch=pb)
            want = n_conf[sc] if pb == 1 else n_conf[sc] // 4
            bs = ctx.tlc_simulate("chain", "CrashMBT.tla", "sim.cfg", depth=16 * want, seed=ctx.seed * 100 + i,
                                  files={"sim.cfg": txt}, timeout=900, max_behaviours=want)
            total_conf += len(bs)
            runs = [("memory", bs)]
            if thorough and pb == 1 and sc in n_pebble_conf:
                runs.append(("pebble", bs[:n_pebble_conf[sc]]))
            for be, part in runs:
                res = engine(ctx, binary, "TestCrashConform",
                             {"consts": c, "behaviours": part, "newState": new_state[sc], "backends": [be],
                              "pruneBatch": pb, "plain": False}, timeout=3000)
                ctx.absorb(res, "crash", "TestCrashConform")
                vlib.log("engine TestCrashConform %s pb=%d %s: %d behaviours, %.0fs" % (sc, pb, be, len(part), res["_wall_s"]))
            txt, c = cfg_text(sc, faithful, faults=False, mbt=True, prune_batch=pb)
            want = n_enum[sc] if pb == 1 else n_enum[sc] // 4
            bs = ctx.tlc_simulate("chain", "CrashMBT.tla", "ops.cfg", depth=12 * want, seed=ctx.seed * 100 + 50 + i,
                                  files={"ops.cfg": txt}, timeout=900, max_behaviours=want)
            total_enum += len(bs)
            runs = [("memory", bs)]
            if thorough and pb == 1 and sc in n_pebble_enum:
                runs.append(("pebble", bs[:n_pebble_enum[sc]]))
            for be, part in runs:
                res = engine(ctx, binary, "TestCrashEnum",
                             {"consts": c, "behaviours": part, "newState": new_state[sc], "backends": [be],
                              "pruneBatch": pb, "plain": False, "switches": faithful,
                              # quick tier: the mutations of the lazy initialisation are fault targets in
                              # the from-genesis scenarios (and in the directed behaviours); everywhere in thorough
                              "ownOnly": not thorough and sc in ("lo", "hi")}, timeout=3000)
                ctx.absorb(res, "crash", "TestCrashEnum")
                vlib.log("engine TestCrashEnum %s pb=%d %s: %d sequences, %.0fs" % (sc, pb, be, len(part), res["_wall_s"]))
    # ---- archive-node wiring (core.InitializeRunningEventFilter): behaviours of the model without the
    # pruner (its weight goes to graceful stops, so that lazy initialisations with a snapshot to
    # consume - and faults in exactly that mutation - are frequent), from genesis
    n_arch = {"mid": (120, 10)} if thorough else {"mid": (30, 0)}
    arch_state = [False, True] if thorough else [False]
    for i, (sc, (nc, ne)) in enumerate(n_arch.items()):
        txt, c = cfg_text(sc, faithful, faults=True, mbt=True, prune=False)
        bs = ctx.tlc_simulate("chain", "CrashMBT.tla", "sim_arch.cfg", depth=16 * nc, seed=ctx.seed * 100 + 70 + i,
                              files={"sim_arch.cfg": txt}, timeout=900, max_behaviours=nc)
        total_conf += len(bs)
        ninit = sum(1 for b in bs for st in b if st["res"].get("init"))
        ctx.coverage["archive_init_fault_steps"] = ctx.coverage.get("archive_init_fault_steps", 0) + ninit
        for be in (["memory", "pebble"] if thorough else ["memory"]):
            part = bs if be == "memory" else bs[:20]
            res = engine(ctx, binary, "TestCrashConform",
                         {"consts": c, "behaviours": part, "newState": arch_state, "backends": [be],
                          "pruneBatch": 1, "plain": True}, timeout=3000)
            ctx.absorb(res, "crash", "TestCrashConform")
            vlib.log("engine TestCrashConform %s archive wiring %s: %d behaviours (%d steps with a fault inside the lazy "
                     "initialisation), %.0fs" % (sc, be, len(part), ninit, res["_wall_s"]))
        if not ne:
            continue
        txt, c = cfg_text(sc, faithful, faults=False, mbt=True, prune=False)
        bs = ctx.tlc_simulate("chain", "CrashMBT.tla", "ops_arch.cfg", depth=12 * ne, seed=ctx.seed * 100 + 80 + i,
                              files={"ops_arch.cfg": txt}, timeout=900, max_behaviours=ne)
        total_enum += len(bs)
        res = engine(ctx, binary, "TestCrashEnum",
                     {"consts": c, "behaviours": bs, "newState": arch_state, "backends": ["memory"],
                      "pruneBatch": 1, "plain": True, "switches": faithful}, timeout=3000)
        ctx.absorb(res, "crash", "TestCrashEnum")
        vlib.log("engine TestCrashEnum %s archive wiring: %d sequences, %.0fs" % (sc, len(bs), res["_wall_s"]))
    res = engine(ctx, binary, "TestCrashConcurrent", {"newState": [False, True]}, timeout=1500)
    for line in res.get("stats", {}).pop("observation_lines", None) or []:
        print("OBSERVATION: property=%s %s" % (ctx.prop, line), flush=True)
    ctx.absorb(res, "crash", "TestCrashConcurrent")
    ctx.coverage.setdefault("observations", 0)
    vlib.log("engine TestCrashConcurrent: %s reads in %s rounds, %.0fs" % (
        res.get("stats", {}).get("concurrent_reads"), res.get("stats", {}).get("concurrent_rounds"), res["_wall_s"]))
    try:
        self_checks()
    except vlib.Broken:
        if not ctx.violations:
            raise
    ctx.coverage["behaviours_conformance"] = total_conf
    ctx.coverage["sequences_fault_enumerated"] = total_enum
    ctx.assumptions += [
        "a single Batch.Write / Put is atomic and durable (C15 examines the backends)",
        "operations are sequential: no Store concurrent with a running prune",
        "bloom-window boundary scenarios run on the memory backend (base image of 8190 real blocks)",
    ]
    return ctx.finish(
        "model_checking",
        "exhaustive TLC on Crash.tla (repaired design; <= MaxOps operations x every durable mutation x {ok,fail,crash}, "
        "the mutations of the lazy running-filter initialisation an operation triggers included; "
        "empty database and across a bloom-window boundary) + TLC-simulated behaviours of the faithful model replayed "
        "on real nodes (conformance after every step and after every mutation of a prune; pruning and archive wiring of "
        "the filter initialiser) + every fail/crash point of "
        "fault-free TLC behaviours enumerated on real nodes with Consistent/MemAgreesWithDisk/NextStoreSucceeds evaluated "
        "against an unfaulted twin, on the live process and on a fresh process over the surviving store; "
        "a case is non-trivial when it performs at least one durable mutation")

"""C20 — the pre-confirmed view handed to a reader is contiguous above the head, immutable, and a
true overlay on the canonical state (spec/preconf/PreConfirmed.tla).

TLC: exhaustive check of the specification (ChainStorage called directly; the poller driving it,
split at its waits) — contiguity, alignment, locality of writes, overlay = merge-then-lookup,
lookup exactness for every view obtainable in every reachable state.
Binding: (a) replay of TLC-simulated behaviours into the real preconfirmed.ChainStorage /
ChainReader / pending.State over a real Blockchain; (b) the real Poller under a gated data source
and a gated Height(); (c) concurrent readers against a replaying writer, every read explained by
TLC (PreConfirmedTrace.tla) as a snapshot of one of the chains published between the writer step
counters observed before and after the read.
"""
import json
import os
import re
import tempfile

import vlib

FAMILY = "preconf"
ENGINE = "preconf"
MBT_STEPS = 28  # MBTSteps in PreConfirmed_sim.cfg / PreConfirmed_psim.cfg


def split_tables(items):
    tables = None
    behaviours = []
    for b in items:
        if isinstance(b, dict):
            if b.get("tables"):
                tables = b
        elif isinstance(b, list) and b:
            behaviours.append(b)
    if tables is None:
        raise vlib.Broken("TLC simulation did not print the constant tables")
    return tables, behaviours


def simulate(ctx, cfg, nruns, depth, seed_base):
    tables = None
    behaviours = []
    for i in range(nruns):
        items = ctx.tlc_simulate(FAMILY, "PreConfirmedMBT.tla", cfg, depth=depth,
                                 seed=seed_base + i, timeout=1500)
        t, b = split_tables(items)
        tables = tables or t
        behaviours += [x for x in b if len(x) == MBT_STEPS]
    if not behaviours:
        raise vlib.Broken("no complete behaviour from %s" % cfg)
    return tables, behaviours


def interesting(beh):
    """non-trivial = publishes at least two chains and hands out at least one non-empty view"""
    pubs = 0
    for s in beh:
        if s["a"]["name"] in ("ApplyUpdate", "LatestResp", "ByNumResp") and s["res"].get("st") == "ok":
            pubs += 1
        elif s["res"].get("ch") is True:
            pubs += 1
    views = any(len(v["slots"]) > 0 for v in beh[-1]["views"])
    return pubs >= 2 and views


RULE = ("exhaustive TLC on bounded configurations of PreConfirmed.tla (call sequences of any length over <= 2/3 slots, head "
        "0..2/3, ids {a,b,blank}, 0..2 txs; poller split at its waits against an arbitrary data source) + schema-uniform TLC "
        "simulation behaviours of 28 steps (ApplyUpdate full/delta/no-change incl. rogue arguments, AdvanceTo, head "
        "advance/revert with fork variants, snapshots; poller ticks with backfill) replayed step by step on the real "
        "ChainStorage / Poller over a real Blockchain (both state backends), and concurrent reader runs validated by TLC; "
        "non-trivial behaviour = publishes >= 2 chains and hands out >= 1 non-empty view")

STORAGE_CASES = [
    "ApplyUpdate:bootstrap", "ApplyUpdate:extend", "ApplyUpdate:replace-tip", "ApplyUpdate:replace-truncate",
    "ApplyUpdate:preserved", "ApplyUpdate:delta", "ApplyUpdate:nochange-classes", "ApplyUpdate:nochange-known",
    "ApplyUpdate:nochange-empty", "ApplyUpdate:bootstrap-not-full", "ApplyUpdate:bootstrap-wrong-height",
    "ApplyUpdate:misaligned", "ApplyUpdate:below-oldest", "ApplyUpdate:gap", "ApplyUpdate:append-not-full",
    "ApplyUpdate:delta-non-tip", "ApplyUpdate:base-tx-count", "ApplyUpdate:delta-id-mismatch",
    "ApplyUpdate:nochange-non-tip", "AdvanceTo:empty", "AdvanceTo:aligned", "AdvanceTo:drop-all", "AdvanceTo:rebuild",
    "Snapshot:", "ReaderChain:", "HeadAdvance:", "HeadRevert:"]
POLLER_CASES = [
    "TickStart:empty", "TickStart:aligned", "TickStart:drop-all", "TickStart:rebuild", "LatestResp:backfill",
    "LatestResp:bootstrap", "LatestResp:replace-tip", "LatestResp:preserved", "LatestResp:delta",
    "LatestResp:nochange-empty", "LatestResp:latest-failed", "ByNumResp:bootstrap", "ByNumResp:extend",
    "ByNumResp:bynum-failed"]


# the cases every seed reaches many times even in the quick tier (the full lists above are
# required in the thorough tier, where thousands of behaviours are replayed)
STORAGE_CORE = [c for c in STORAGE_CASES if c.split(":")[1] in (
    "bootstrap", "extend", "replace-tip", "preserved", "delta", "nochange-classes", "misaligned", "base-tx-count",
    "empty", "aligned", "drop-all", "rebuild", "")]
POLLER_CORE = ["TickStart:aligned", "TickStart:rebuild", "LatestResp:backfill", "LatestResp:bootstrap",
               "ByNumResp:bootstrap", "ByNumResp:extend"]


def require_cases(res, prefix, cases):
    """vacuity guard of the binding: every case of the code's case analysis was replayed on the real code"""
    if res.get("divergences"):
        return      # a diverging behaviour is cut short; the verdict is the divergence
    st = res.get("stats", {})
    missing = [c for c in cases if not st.get(prefix + c)]
    if missing:
        raise vlib.Broken("replayed behaviours never exercised: %s" % missing)


def validate_trace(ctx, trace_file, iter_starts, behaviours_of_iter=None):
    """TLC decides the recorded concurrent runs; a rejection is a divergence observed on the code."""
    ok, res = ctx.tlc_trace(FAMILY, "PreConfirmedTrace.tla", "PreConfirmedTrace.cfg", trace_file, timeout=2400)
    out = res.get("out", "")
    vlib.log("trace validation: %s (%s states, %.1fs)" % ("accepted" if ok else "REJECTED", res.get("distinct"), res["wall_s"]))
    if ok:
        return True
    m = re.search(r"TRACE-REJECTED-AT-LINE\D+(\d+)", out)
    if not m:
        tail = "\n".join(out.splitlines()[-40:])
        raise vlib.Broken("trace validation failed without locating the rejected line:\n" + tail)
    bad = int(m.group(1))  # 1-based number of the first line that has no explanation
    with open(trace_file) as f:
        lines = f.read().splitlines()
    start = max([s for s in iter_starts if s <= bad] or [1])
    nxt = min([s for s in iter_starts if s > bad] or [len(lines) + 1])
    rejected = json.loads(lines[bad - 1]) if bad - 1 < len(lines) else {"ev": "?"}
    if rejected.get("ev") == "W":
        key = "conc-trace:writer:%s:%s" % (rejected["a"]["name"], rejected.get("tag", ""))
        what = "a writer call of the concurrent run is not a step of the specification: %s" % json.dumps(rejected)[:600]
    else:
        key = "conc-trace:unexplained-view"
        what = ("a view obtained concurrently (asked %s between writer steps %s and %s) is no snapshot of any chain "
                "published in that window, or its reads are not the overlay: %s"
                % (rejected.get("asked"), rejected.get("s1"), rejected.get("s2"), json.dumps(rejected)[:600]))
    ctx.report(key, what, {"property": ctx.prop, "engine": ENGINE, "test": "trace", "seed": ctx.seed,
                           "rejected_line": bad - start + 1, "trace": lines[start - 1:nxt - 1]})
    return False


def selftest_trace(ctx, trace_file, iter_starts):
    """The trace binding must bite: a corrupted copy of the recorded trace has to be rejected."""
    with open(trace_file) as f:
        lines = f.read().splitlines()
    end = iter_starts[4] - 1 if len(iter_starts) > 4 else len(lines)
    lines = lines[:end]
    variants = []
    for i, ln in enumerate(lines):          # (1) a view that no published chain explains
        e = json.loads(ln)
        if e.get("ev") == "R" and e["slots"]:
            e["slots"][0]["id"] = "zz"
            variants.append(("forged-view", lines[:i] + [json.dumps(e)] + lines[i + 1:]))
            break
    for i, ln in enumerate(lines):          # (2) a writer call missing from the record
        e = json.loads(ln)
        if e.get("ev") == "W" and e["st"] == "ok":
            variants.append(("dropped-write", lines[:i] + lines[i + 1:]))
            break
    for i, ln in enumerate(lines):          # (3) a read value that is not the overlay
        e = json.loads(ln)
        if e.get("ev") == "R" and e.get("hasreads"):
            k = sorted(e["st"][-1])[0]
            e["st"][-1][k] = e["st"][-1][k] + 1
            variants.append(("forged-read", lines[:i] + [json.dumps(e)] + lines[i + 1:]))
            break
    if len(variants) < 3:
        raise vlib.Broken("trace self-test: the recorded trace has no event to corrupt (%d variants)" % len(variants))
    for name, ls in variants:
        fd, path = tempfile.mkstemp(prefix="selftest.", suffix=".ndjson", dir=ctx.scratch)
        with os.fdopen(fd, "w") as f:
            f.write("\n".join(ls) + "\n")
        ok, _ = ctx.tlc_trace(FAMILY, "PreConfirmedTrace.tla", "PreConfirmedTrace.cfg", path, timeout=1200)
        ctx.tlc_runs.pop()      # not part of the coverage numbers
        if ok:
            raise vlib.Broken("trace self-test: PreConfirmedTrace accepted a corrupted trace (%s)" % name)
    ctx.coverage["trace_selftest"] = "%d/%d corrupted traces rejected" % (len(variants), len(variants))


def replay_trace(ctx, rp):
    fd, path = tempfile.mkstemp(prefix="trace.", suffix=".ndjson", dir=ctx.scratch)
    with os.fdopen(fd, "w") as f:
        f.write("\n".join(rp["trace"]) + "\n")
    validate_trace(ctx, path, [1])
    return ctx.finish("model_checking", "re-validation of one recorded concurrent run against PreConfirmedTrace.tla")


def run(ctx):
    binary = ctx.build_engine(ENGINE)
    if ctx.replay:
        with open(ctx.replay) as f:
            rp = json.load(f)
        if rp.get("test") == "trace":
            return replay_trace(ctx, rp)
        res = ctx.run_engine(binary, rp["test"], rp["input"])
        ctx.absorb(res, ENGINE, rp["test"])
        if rp["test"] == "TestPreconfConc" and not res.get("divergences"):
            st = res.get("stats", {})
            validate_trace(ctx, st["trace_file"], st["trace_iter_start_lines"])
        return ctx.finish("model_checking", "replay of one recorded behaviour")

    thorough = not ctx.quick()

    # ---- 1. TLC on the specification
    ctx.tlc_check(FAMILY, "MCPreConfirmed.tla", "PreConfirmed_quick.cfg", timeout=1500)
    ctx.tlc_check(FAMILY, "MCPreConfirmed.tla", "PreConfirmed_poller_quick.cfg", timeout=1500)
    if thorough:
        r = ctx.tlc_check(FAMILY, "MCPreConfirmed.tla", "PreConfirmed_views.cfg", timeout=3000, coverage=True)
        vlib.require_actions_covered(r)
        ctx.coverage["action_coverage_views_cfg"] = {k: v["taken"] for k, v in r.get("coverage", {}).items()}
        ctx.tlc_check(FAMILY, "MCPreConfirmed.tla", "PreConfirmed_forks.cfg", timeout=3000)
        ctx.tlc_check(FAMILY, "MCPreConfirmed.tla", "PreConfirmed_thorough.cfg", timeout=3000)
        ctx.tlc_check(FAMILY, "MCPreConfirmed.tla", "PreConfirmed_poller_thorough.cfg", timeout=3000)
    ctx.coverage["exhaustive"] = True

    # ---- 2a. replay into the real ChainStorage / ChainReader / pending.State
    nruns = 8 if thorough else 1
    depth = (MBT_STEPS + 1) * (400 if thorough else 260)
    tables, behaviours = simulate(ctx, "PreConfirmed_sim.cfg", nruns, depth, ctx.seed * 1000)
    # every third behaviour runs on a canonical chain lifted by 7 empty blocks, so that heads 7..10
    # (pre-confirmed blocks 8..14) cross the BlockHashLag boundary at height 10
    payload = {"tables": tables, "behaviours": behaviours,
               "newstate": [i % 2 == 1 for i in range(len(behaviours))],
               "offsets": [7 if i % 3 == 2 else 0 for i in range(len(behaviours))]}
    res = ctx.run_engine(binary, "TestPreconfReplay", payload, timeout=2400)
    ctx.absorb(res, ENGINE, "TestPreconfReplay")
    require_cases(res, "case ", STORAGE_CASES if thorough else STORAGE_CORE)
    ctx.coverage["behaviours_storage"] = len(behaviours)
    ctx.coverage["behaviours_storage_nontrivial"] = sum(1 for b in behaviours if interesting(b))
    ctx.coverage["steps_replayed_storage"] = res.get("steps", 0)

    if ctx.violations:      # decisive already; do not drive a diverging implementation concurrently
        return ctx.finish("model_checking", RULE)

    # ---- 2b. the real Poller under the gated environment
    pruns = 4 if thorough else 1
    pdepth = (MBT_STEPS + 1) * (300 if thorough else 120)
    ptables, pbehaviours = simulate(ctx, "PreConfirmed_psim.cfg", pruns, pdepth, ctx.seed * 1000 + 500)
    payload = {"tables": ptables, "behaviours": pbehaviours,
               "newstate": [i % 2 == 1 for i in range(len(pbehaviours))],
               "offsets": [7 if i % 3 == 2 else 0 for i in range(len(pbehaviours))]}
    res = ctx.run_engine(binary, "TestPreconfPoller", payload, timeout=2400)
    ctx.absorb(res, ENGINE, "TestPreconfPoller")
    require_cases(res, "poller case ", POLLER_CASES if thorough else POLLER_CORE)
    ctx.coverage["behaviours_poller"] = len(pbehaviours)
    ctx.coverage["behaviours_poller_nontrivial"] = sum(1 for b in pbehaviours if interesting(b))
    ctx.coverage["steps_replayed_poller"] = res.get("steps", 0)

    if ctx.violations:
        return ctx.finish("model_checking", RULE)

    # ---- 2c. concurrent readers vs. one replaying writer; TLC explains every read
    cb = [b for b in behaviours if interesting(b)][: (120 if thorough else 30)]
    payload = {"tables": tables, "behaviours": cb, "readers": 6 if thorough else 4, "iters": 20 if thorough else 10}
    res = ctx.run_engine(binary, "TestPreconfConc", payload, timeout=2400)
    ctx.absorb(res, ENGINE, "TestPreconfConc")
    st = res.get("stats", {})
    if not res.get("divergences"):
        if not st.get("trace_lines"):
            raise vlib.Broken("the concurrent run recorded no events")
        if not st.get("conc_reads_nonempty_view"):
            raise vlib.Broken("the concurrent readers never saw a non-empty view (vacuous run)")
        if validate_trace(ctx, st["trace_file"], st["trace_iter_start_lines"]):
            selftest_trace(ctx, st["trace_file"], st["trace_iter_start_lines"])
    if not res.get("divergences") and not st.get("conc_reads_racing_a_write"):
        raise vlib.Broken("no concurrent read overlapped a write (the concurrent part was vacuous)")
    for noisy in ("trace_file", "trace_iter_start_lines"):
        ctx.coverage.pop(noisy, None)
    ctx.coverage["concurrent_runs"] = st.get("conc_iterations", 0)
    ctx.coverage["trace_events_validated"] = st.get("trace_lines", 0)

    if not ctx.violations:
        # reads at the pre_confirmed identifier through the RPC stack (SnapshotForBlock, pending.State over the merged diff)
        ctx.include("G03", accept=lambda k: k.startswith("rpc2:") and not k.startswith("rpc2:getEvents"),
                    why="pre_confirmed block / transaction / receipt / state reads through jsonrpc.Server (RpcEvents.tla)")
    ctx.assumptions += [
        "single writer (the poller goroutine) as the code documents; a second concurrent writer is out of scope",
        "state diffs are well-formed in the Starknet sense: a contract is written only by the transaction that deploys it or "
        "after it exists (double deploys / writes to undeployed contracts are not generated)",
        "the canonical Blockchain answers historical reads correctly (that is C03); a mismatching read is reported with the base values attached",
        "in the concurrent part the canonical chain is immutable history (head moves are a model variable the readers align to); "
        "fork/revert below a live view is covered by the sequential replay and the poller run",
    ]
    return ctx.finish("model_checking", RULE)

"""C03 — head and historical state reads equal the state as of the requested block
(spec/chain/StateHistory.tla).

TLC: exhaustive check, on three bounded configurations (user-contract history; system contract +
two slots; Sierra classes / CASM migration across the 0.14.1 switch), that BOTH explicit history
encodings of the code - legacy "old value logged at the changing block, read = first log above n
else head" and new "new value logged at n, read = last log at or below n else zero" - answer every
(block, contract, slot / nonce / class hash / class / compiled class hash) query with the ground
truth, after any interleaving of block additions and head reverts.
Binding: TLC-simulated behaviours (ApplyBlock / RevertHead, forks) are replayed into real
blockchain.Blockchain nodes on both state backends; after EVERY step every query is issued through
HeadState / StateAtBlockNumber / StateAtBlockHash and compared with the model's TrueState. The node
is restarted at random points (Restart is a no-op of the model: RestartIsNoOp), and readers
obtained by number / by hash at earlier steps are kept ("held readers") and must keep answering
for their own block while later blocks are stored.
"""
import copy
import json
import os
import re
import vlib

H4_KEY = "legacy-revert:noop-zero-write"


def h4_fixed():
    """The spec models the code as it is: FixH4 follows the status of the H4 finding in
    known_findings.json (VERIF_FIX_H4=0/1 overrides it: development aid for VERIF_REPO worktrees)."""
    if os.environ.get("VERIF_FIX_H4") in ("0", "1"):
        return os.environ["VERIF_FIX_H4"] == "1"
    return any(k["key"] == H4_KEY and k["status"] == "fixed" for k in vlib.load_known("C04"))


def sim_cfg(name, fix):
    with open("%s/spec/chain/%s" % (vlib.VERIF, name)) as f:
        txt = f.read()
    return re.sub(r"FixH4 = (TRUE|FALSE)", "FixH4 = %s" % ("TRUE" if fix else "FALSE"), txt)


def behaviours(ctx, cfg, runs, depth, fix, base):
    out = []
    for i in range(runs):
        bs = ctx.tlc_simulate("chain", "StateHistoryMBT.tla", "gen_" + cfg, depth=depth,
                              seed=ctx.seed * 1000 + base + i, timeout=900,
                              files={"gen_" + cfg: sim_cfg(cfg, fix)})
        for b in bs:
            out.append({"seed": ctx.seed * 100000 + len(out) + base * 1000, "steps": b})
    return out


def selftest(ctx, binary, test, bs, corrupt):
    """Binding self-test: one expected value of one behaviour is falsified; the engine must object."""
    for b in bs:
        c = copy.deepcopy(b)
        if corrupt(c):
            res = ctx.run_engine(binary, test, {"behaviours": [c], "backends": ["new"]})
            if not res.get("divergences"):
                raise vlib.Broken("binding self-test: %s accepted a behaviour with a falsified expectation" % test)
            ctx.coverage["selftest"] = "falsified expectation rejected (%s)" % res["divergences"][0]["key"]
            return
    raise vlib.Broken("binding self-test: no behaviour to falsify")


def corrupt_truth(b):
    """Bump the nonce the model expects for a deployed contract at the head of the last step."""
    st = b["steps"][-1]
    if st["res"] != "ok" or not st["truth"]:
        return False
    for c, ct in sorted(st["truth"][-1]["con"].items()):
        if ct["dep"]:
            ct["nonce"] += 1
            return True
    return False


def run(ctx):
    binary = ctx.build_engine("statehist")
    if ctx.replay:
        with open(ctx.replay) as f:
            rp = json.load(f)
        res = ctx.run_engine(binary, rp["test"], rp["input"])
        ctx.absorb(res, "statehist", rp["test"])
        return ctx.finish("model_checking", "replay of one recorded behaviour")

    thorough = not ctx.quick()
    ctx.tlc_check("chain", "MCStateHistory.tla", "StateHistory_quick.cfg", timeout=900)
    ctx.tlc_check("chain", "MCStateHistory.tla", "StateHistory_sys_quick.cfg", timeout=900)
    ctx.tlc_check("chain", "MCStateHistory.tla", "StateHistory_casm_quick.cfg", timeout=900)
    if thorough:
        r = ctx.tlc_check("chain", "MCStateHistory.tla", "StateHistory_thorough.cfg", timeout=3000, coverage=True)
        vlib.require_actions_covered(r)
        ctx.tlc_check("chain", "MCStateHistory.tla", "StateHistory_ops3_thorough.cfg", timeout=3000)
        ctx.tlc_check("chain", "MCStateHistory.tla", "StateHistory_sys_thorough.cfg", timeout=3000)
        ctx.tlc_check("chain", "MCStateHistory.tla", "StateHistory_casm_thorough.cfg", timeout=3000)

    fix = h4_fixed()
    bs = behaviours(ctx, "StateHistory_sim.cfg", 10 if thorough else 2, 17 * (150 if thorough else 70), fix, 0)
    selftest(ctx, binary, "TestHistReplay", bs, corrupt_truth)
    res = ctx.run_engine(binary, "TestHistReplay", {"behaviours": bs}, timeout=3000)
    ctx.absorb(res, "statehist", "TestHistReplay")
    ctx.coverage["behaviours_generated"] = len(bs)
    ctx.coverage["steps_replayed"] = res.get("steps", 0)
    ctx.coverage["model_fix_h4"] = fix
    ctx.assumptions += [
        "head readers return zero for the storage of a missing contract; like rpc StorageAt the harness probes the class hash to tell it from an unset slot",
        "system contracts 0x1/0x2 never receive a zero write (SysZeroWrites = FALSE): they hold block hashes and counters",
        "a class is declared at most once per chain and every class definition a block delivers is listed in its declared classes",
        "no pruning (retention floor absent): every block <= head is retained",
        "a held reader is checked as long as its block is on the chain; after a RevertHead that removes its block, or a restart, it is dropped (closed)",
    ]
    return ctx.finish(
        "model_checking",
        "exhaustive TLC on bounded configurations of StateHistory.tla (every diff of <= MaxOps entries, every "
        "apply/revert interleaving up to MaxBlocks) + TLC simulation behaviours (16 steps, 4 contracts incl. 0x1/0x2 "
        "x 3 slots sharing a 250-bit prefix x 4 values, 3 classes, protocol 0.13.2..0.14.1) replayed on both state "
        "backends with all queries after every step; non-trivial = the behaviour contains at least one RevertHead "
        "followed by further reads (counted as behaviours_with_revert)")

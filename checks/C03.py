"""C03 — head and historical state reads equal the state as of the requested block
(spec/chain/StateHistory.tla).

TLC: exhaustive check, on three bounded configurations (user-contract history; system contract +
two slots; Sierra classes / CASM migration across the 0.14.1 switch), that BOTH explicit history
encodings of the code - legacy "old value logged at the changing block, read = first log above n
else head" and new "new value logged at n, read = last log at or below n else zero" - answer every
(block, contract, slot / nonce / class hash / class / compiled class hash) query with the ground
truth, after any interleaving of block additions and head reverts.
Binding: TLC-simulated behaviours (ApplyBlock / RevertHead, forks) are replayed into real
blockchain.Blockchain nodes on both state backends; after EVERY step every query is issued through
HeadState / StateAtBlockNumber / StateAtBlockHash and compared with the model's TrueState. The node
is restarted at random points (Restart is a no-op of the model: RestartIsNoOp), and readers
obtained by number / by hash at earlier steps are kept ("held readers") and must keep answering
for their own block while later blocks are stored.

Revert side of the encodings (what a RevertHead leaves behind, seen by later reads on the
replacement branch): StateHistory.tla has a mechanism switch RevertKeeps with one mutant per residue
kind and encoding ("the revert leaves the history entry of a zero write / same-value rewrite /
other write / nonce / replaced class / deployment / class record / CASM metadata behind");
StateHistory_x_keep_*.cfg must each violate ReadsAgree (TLC's counterexample is the minimal history
that shows the leftover). From those counterexamples a family of DIRECTED behaviours is derived
(StateHistoryScripts.tla: every entry kind of the alphabet x {non-touching replacement, touching
replacement, two-deep revert with another prior value, same diff at a lower height, restarts},
each ending with a later rewrite of the key and its revert) and replayed in every run on both
backends, with readers of every block held across the reverts; thorough also lets TLC check the
kill matrix (every mutant violates ReadsAgree on the directed family alone). Half of the simulated
behaviours come from a walk guided towards revert-after-K ; non-touching replacement
(StateHistory_forksim.cfg). After every Apply / Revert step the raw history buckets of the real
database (history entries, deployment heights, class records, CASM metadata) are compared entry by
entry with the specification's encodings (`enc`), so a leftover is reported at the revert
(hist-residue:<backend>:<bucket>:<kind>) and not only when a read happens to hit it.
"""
import concurrent.futures
import copy
import glob
import json
import os
import re
import vlib

H4_KEY = "legacy-revert:noop-zero-write"

# RevertKeeps mutants of StateHistory.tla: (encoding, kind); cfg StateHistory_x_keep_<e>_<k>.cfg
KEEP_KINDS = [("n", "stor0"), ("n", "storsame"), ("n", "stor"), ("n", "nonce"), ("n", "rep"), ("n", "dep"),
              ("n", "rec"), ("n", "decl"), ("l", "stor0"), ("l", "storsame"), ("l", "stor"), ("l", "nonce"),
              ("l", "rep"), ("l", "dh"), ("l", "decl"), ("c", "decl"), ("c", "mig")]
SCRIPT_TAILS = {"nontouch", "touch", "deep", "lower", "restart"}


def h4_fixed():
    """The spec models the code as it is: FixH4 follows the status of the H4 finding in
    known_findings.json (VERIF_FIX_H4=0/1 overrides it: development aid for VERIF_REPO worktrees)."""
    if os.environ.get("VERIF_FIX_H4") in ("0", "1"):
        return os.environ["VERIF_FIX_H4"] == "1"
    return any(k["key"] == H4_KEY and k["status"] == "fixed" for k in vlib.load_known("C04"))


def report_observations(ctx, res):
    """Concurrency-only misbehaviour is outside what C03 / C04 state (they quantify over histories, not
    schedules): it is printed and counted, never a verdict."""
    stats = res.get("stats", {})
    lst = stats.get("observation_list") or []
    shown = []
    for be in ("legacy", "new"):          # a few per backend, so that neither hides the other
        shown += [o for o in lst if (":" + be + ":") in o["key"]][:4]
    for o in shown:
        print("OBSERVATION: property=%s %s [%s]" % (ctx.prop, o["what"], o["key"]), flush=True)
    if len(lst) > len(shown):
        print("OBSERVATION: property=%s ... %d more distinct observation keys (see evidence)" % (ctx.prop, len(lst) - len(shown)), flush=True)
    ctx.coverage["observation_keys"] = sorted(o["key"] for o in lst)
    ctx.coverage.pop("observation_list", None)


def sim_cfg(name, fix):
    with open("%s/spec/chain/%s" % (vlib.VERIF, name)) as f:
        txt = f.read()
    return re.sub(r"FixH4 = (TRUE|FALSE)", "FixH4 = %s" % ("TRUE" if fix else "FALSE"), txt)


def behaviours(ctx, cfg, runs, depth, fix, base):
    out = []
    for i in range(runs):
        bs = ctx.tlc_simulate("chain", "StateHistoryMBT.tla", "gen_" + cfg, depth=depth,
                              seed=ctx.seed * 1000 + base + i, timeout=900,
                              files={"gen_" + cfg: sim_cfg(cfg, fix)})
        for b in bs:
            out.append({"seed": ctx.seed * 100000 + len(out) + base * 1000, "steps": b})
    return out


def _retry_oom(fn, *a, **kw):
    """A TLC JVM killed by the kernel on a loaded machine ends with an empty message: run it once more."""
    try:
        return fn(*a, **kw)
    except vlib.Broken as e:
        if "TLC failed" not in str(e) or "Error" in str(e) or "rror:" in str(e):
            raise
        vlib.log("TLC died without a message (killed?), once more: %s" % (a[2] if len(a) > 2 else ""))
        return fn(*a, **kw)


def keep_mutants(ctx, pool, matrix):
    """Expected-violation configurations of the revert mechanism switch, run beside the replay (they
    depend on the specification only). Returns futures; collect with keep_mutants_done."""
    futs = []
    for e, k in KEEP_KINDS:
        cfg = "StateHistory_x_keep_%s_%s.cfg" % (e, k)
        futs.append((cfg, pool.submit(_retry_oom, ctx.tlc_check, "chain", "MCStateHistory.tla", cfg, workers=2, timeout=900,
                                      expect_violation=True, label="mutant: RevertHead keeps %s:%s (violation expected)" % (e, k))))
        if matrix:
            with open("%s/spec/chain/StateHistory_scripts_x.cfg" % vlib.VERIF) as f:
                txt = f.read()
            if "RevertKeeps <- Keep_n_stor0" not in txt:
                raise vlib.Broken("StateHistory_scripts_x.cfg: no RevertKeeps substitution to rewrite")
            name = "kill_%s_%s.cfg" % (e, k)
            futs.append((name, pool.submit(_retry_oom, ctx.tlc_check, "chain", "StateHistoryScripts.tla", name, workers=1, timeout=900,
                                           expect_violation=True, files={name: txt.replace("Keep_n_stor0", "Keep_%s_%s" % (e, k))},
                                           label="kill matrix: directed behaviours under RevertHead keeps %s:%s (violation expected)" % (e, k))))
    return futs


def keep_mutants_done(ctx, futs):
    for cfg, f in futs:
        r = f.result()
        if r["violated"] != "ReadsAgree":
            raise vlib.Broken("%s should violate ReadsAgree (a later read sees what the revert left behind), got %s" % (cfg, r["violated"]))
    ctx.coverage["revert_residue_mutants"] = len([1 for c, _ in futs if c.startswith("StateHistory_x_keep_")])
    ctx.coverage["kill_matrix_runs"] = len([1 for c, _ in futs if c.startswith("kill_")])


def directed(ctx, fix):
    """The directed family (StateHistoryScripts.tla): a deterministic machine, printed script by script."""
    bs = ctx.tlc_simulate("chain", "StateHistoryScripts.tla", "gen_scripts.cfg", depth=2500, seed=1, timeout=900,
                          files={"gen_scripts.cfg": sim_cfg("StateHistory_scripts.cfg", fix)})
    names = [b[0].get("script", "") for b in bs]
    kinds = {n.split("/")[0] for n in names}
    if len(set(names)) != len(names) or {(k, t) for k in kinds for t in SCRIPT_TAILS} != {tuple(n.split("/")) for n in names} or len(kinds) < 20:
        raise vlib.Broken("StateHistoryScripts.tla: expected every kind x tail exactly once, got %d scripts: %s" % (len(names), sorted(names)[:12]))
    ctx.coverage["directed_kinds"] = sorted(kinds)
    return [{"seed": ctx.seed * 100000 + 50000 + i, "steps": b} for i, b in enumerate(bs)]


def fork_shapes(bs):
    """How often a simulated behaviour reverts an entry of a kind and then stores a block that does not
    touch its key (the shape in which a leftover of the revert shows)."""
    def key(o):
        return (o["k"], o["a"], o["s"], o["c"] if o["k"] in ("decl", "mig") else "")
    out = {}
    for b in bs:
        chain, pend = [], []
        for st in b["steps"]:
            a = st["a"]
            if a["name"] == "Apply":
                ops = a.get("ops") or []
                touched = {key(o) for o in ops}
                for k, kind in pend:
                    if k not in touched:
                        out[kind] = out.get(kind, 0) + 1
                pend = []
                prev = st["truth"][-2] if len(st["truth"]) > 1 else None
                chain.append((ops, prev))
            elif a["name"] == "Revert" and st["res"] == "ok" and chain:
                ops, prev = chain.pop()
                for o in ops:
                    kind = o["k"]
                    if kind == "stor":
                        old = prev["con"][o["a"]]["stor"][o["s"]] if prev and prev["con"][o["a"]]["dep"] else 0
                        kind = "stor:clear" if o["v"] == 0 and old != 0 else "stor:zero-on-zero" if o["v"] == 0 else \
                            "stor:same" if o["v"] == old else "stor:change"
                    pend.append((key(o), kind))
    return out


def run_engine_keep(ctx, binary, test, payload, timeout):
    """ctx.run_engine, but a hang of the real code AFTER the engine recorded a divergence (it rewrites
    its result file at every divergence) still reports that divergence instead of a bare timeout."""
    try:
        return ctx.run_engine(binary, test, payload, timeout=timeout)
    except vlib.Broken as e:
        if "timed out" not in str(e):
            raise
        outs = sorted(glob.glob(os.path.join(ctx.scratch, "out.*.json")), key=os.path.getmtime)
        for p in reversed(outs):
            try:
                with open(p) as f:
                    res = json.load(f)
            except Exception:
                continue
            if res.get("divergences"):
                vlib.log("engine %s timed out after recording %d divergence(s); reporting them" % (test, len(res["divergences"])))
                return res
        raise


def note_unreproduced(ctx):
    """A finding listed as `known` that this run did not hit is worth a line, not a verdict."""
    hit = [h["key"] for h in ctx.known_hits]
    for k in ctx.known:
        if k["status"] == "known" and k["key"] not in hit:
            print("NOTE: property=%s known finding [%s] did not reproduce in this run" % (ctx.prop, k["key"]), flush=True)


def selftest(ctx, binary, test, bs, corrupt):
    """Binding self-test: one expected value of one behaviour is falsified; the engine must object."""
    for b in bs:
        c = copy.deepcopy(b)
        if corrupt(c):
            res = ctx.run_engine(binary, test, {"behaviours": [c], "backends": ["new"]})
            if not res.get("divergences"):
                raise vlib.Broken("binding self-test: %s accepted a behaviour with a falsified expectation" % test)
            ctx.coverage["selftest"] = "falsified expectation rejected (%s)" % res["divergences"][0]["key"]
            return
    raise vlib.Broken("binding self-test: no behaviour to falsify")


def corrupt_truth(b):
    """Bump the nonce the model expects for a deployed contract at the head of the last step."""
    st = b["steps"][-1]
    if st["res"] != "ok" or not st["truth"]:
        return False
    for c, ct in sorted(st["truth"][-1]["con"].items()):
        if ct["dep"]:
            ct["nonce"] += 1
            return True
    return False


def corrupt_enc(b):
    """Drop one entry from the new-state storage log the model holds after a step: the database then
    has an entry the (falsified) specification does not."""
    for st in b["steps"]:
        if st["res"] == "ok" and st["a"]["name"] != "Restart" and st.get("enc", {}).get("nS"):
            st["enc"]["nS"].pop()
            return True
    return False


def run(ctx):
    binary = ctx.build_engine("statehist")
    if ctx.replay:
        with open(ctx.replay) as f:
            rp = json.load(f)
        res = ctx.run_engine(binary, rp["test"], rp["input"])
        ctx.absorb(res, "statehist", rp["test"])
        return ctx.finish("model_checking", "replay of one recorded behaviour")

    thorough = not ctx.quick()
    fix = h4_fixed()
    pool = concurrent.futures.ThreadPoolExecutor(max_workers=int(os.environ.get("VERIF_TLC_PARALLEL", "4")))
    try:
        # the revert-residue mutants depend on the specification only: they run beside everything else
        futs = keep_mutants(ctx, pool, matrix=thorough)
        _retry_oom(ctx.tlc_check, "chain", "MCStateHistory.tla", "StateHistory_quick.cfg", timeout=900)
        _retry_oom(ctx.tlc_check, "chain", "MCStateHistory.tla", "StateHistory_sys_quick.cfg", timeout=900)
        _retry_oom(ctx.tlc_check, "chain", "MCStateHistory.tla", "StateHistory_casm_quick.cfg", timeout=900)
        # reads that run while the writer stores / reverts (outside C03's quantifier: observation only): a
        # reader whose two reads see one snapshot is correct under every interleaving, the legacy reader
        # as coded is not
        _retry_oom(ctx.tlc_check, "chain", "MCStateHistory.tla", "StateHistory_race_fixed.cfg", timeout=900)
        r = _retry_oom(ctx.tlc_check, "chain", "MCStateHistory.tla", "StateHistory_race.cfg", timeout=900, expect_violation=True,
                          label="legacy two-read history reader under a concurrent Store (model of an observation; violation expected)")
        if r["violated"] != "SplitReadOK":
            raise vlib.Broken("StateHistory_race.cfg should violate SplitReadOK, got %s" % r["violated"])
        if thorough:
            r = _retry_oom(ctx.tlc_check, "chain", "MCStateHistory.tla", "StateHistory_thorough.cfg", timeout=3000, coverage=True)
            vlib.require_actions_covered(r, ignore=("LReadBegin", "LReadEnd"))  # only enabled in the *_race cfgs
            _retry_oom(ctx.tlc_check, "chain", "MCStateHistory.tla", "StateHistory_ops3_thorough.cfg", timeout=3000)
            _retry_oom(ctx.tlc_check, "chain", "MCStateHistory.tla", "StateHistory_sys_thorough.cfg", timeout=3000)
            _retry_oom(ctx.tlc_check, "chain", "MCStateHistory.tla", "StateHistory_casm_thorough.cfg", timeout=3000)
        dbs = directed(ctx, fix)
        sim = behaviours(ctx, "StateHistory_sim.cfg", 8 if thorough else 1, 17 * (150 if thorough else 70), fix, 0)
        fork = behaviours(ctx, "StateHistory_forksim.cfg", 2 if thorough else 1, 17 * (150 if thorough else 70), fix, 20)
        bs = dbs + sim + fork
        res = run_engine_keep(ctx, binary, "TestHistReplay", {"behaviours": bs}, timeout=3000)
        ctx.absorb(res, "statehist", "TestHistReplay")
        # concurrent round: readers of the retained blocks during Store ; RevertHead cycles
        nconc = 24 if thorough else 5
        cres = run_engine_keep(ctx, binary, "TestHistConcurrent",
                               {"behaviours": sim[:nconc], "rounds": 120 if thorough else 30, "readers": 4, "mode": "reads"}, timeout=1500)
        ctx.absorb(cres, "statehist", "TestHistConcurrent")
        report_observations(ctx, cres)
        ctx.coverage["concurrent_rounds"] = cres.get("replayed", 0)
        if ctx.violations:
            # the verdict is about the code; do not wait for (or fail on) the specification-only runs
            for _, f in futs:
                f.cancel()
        else:
            keep_mutants_done(ctx, futs)
    finally:
        pool.shutdown(wait=True, cancel_futures=True)
    # the binding self-tests come last: they can only turn a clean run into Broken, never hide a violation
    if not ctx.violations:
        selftest(ctx, binary, "TestHistReplay", sim, corrupt_truth)
        first = ctx.coverage.get("selftest")
        selftest(ctx, binary, "TestHistReplay", dbs, corrupt_enc)
        if not ctx.coverage["selftest"].startswith("falsified expectation rejected (hist-extra:new:storage"):
            raise vlib.Broken("binding self-test: a falsified encoding projection was not reported as hist-extra: %s" % ctx.coverage["selftest"])
        ctx.coverage["selftest"] = [first, ctx.coverage["selftest"]]
    ctx.coverage["directed_behaviours"] = len(dbs)
    ctx.coverage["fork_guided_behaviours"] = len(fork)
    ctx.coverage["revert_then_nontouching_block_by_kind"] = fork_shapes(sim + fork)
    note_unreproduced(ctx)
    ctx.coverage["behaviours_generated"] = len(bs)
    ctx.coverage["steps_replayed"] = res.get("steps", 0)
    ctx.coverage["model_fix_h4"] = fix
    ctx.assumptions += [
        "head readers return zero for the storage of a missing contract; like rpc StorageAt the harness probes the class hash to tell it from an unset slot",
        "system contracts 0x1/0x2 never receive a zero write (SysZeroWrites = FALSE): they hold block hashes and counters",
        "a class is declared at most once per chain and every class definition a block delivers is listed in its declared classes",
        "no pruning (retention floor absent): every block <= head is retained",
        "the node under test runs on a store that enforces the buffer-lending contract of db.KeyValueReader (lent values are scribbled after the callback / iterator move)",
        "concurrent round: a state reader is used by one goroutine (one request); readers only ask about blocks that stay retained during the round",
        "a held reader is checked as long as its block is on the chain; after a RevertHead that removes its block, or a restart, it is dropped (closed)",
        "raw history buckets are compared with the specification's encodings on db/memory dumps of the node under test; declared-at / migrated-at of the CASM metadata are read off its own accessors (the fields are private)",
    ]
    return ctx.finish(
        "model_checking",
        "exhaustive TLC on bounded configurations of StateHistory.tla (every diff of <= MaxOps entries, every "
        "apply/revert interleaving up to MaxBlocks), 17 revert-residue mutants that must each violate ReadsAgree, "
        "+ directed behaviours derived from the mutants' counterexamples (every entry kind x 5 tails) + TLC simulation "
        "behaviours, half of them guided towards revert ; non-touching replacement (16 steps, 4 contracts incl. 0x1/0x2 "
        "x 3 slots sharing a 250-bit prefix x 4 values, 3-4 classes, protocol 0.13.2..0.14.1), replayed on both state "
        "backends with all queries and a comparison of the raw history buckets with the specification's encodings after "
        "every step; non-trivial = the behaviour contains at least one RevertHead followed by further reads (counted as "
        "behaviours_with_revert)")

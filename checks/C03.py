"""C03 — head and historical state reads equal the state as of the requested block
(spec/chain/StateHistory.tla).

TLC: exhaustive check, on three bounded configurations (user-contract history; system contract +
two slots; Sierra classes / CASM migration across the 0.14.1 switch), that BOTH explicit history
encodings of the code - legacy "old value logged at the changing block, read = first log above n
else head" and new "new value logged at n, read = last log at or below n else zero" - answer every
(block, contract, slot / nonce / class hash / class / compiled class hash) query with the ground
truth, after any interleaving of block additions and head reverts.
Binding: TLC-simulated behaviours (ApplyBlock / RevertHead, forks) are replayed into real
blockchain.Blockchain nodes on both state backends; after EVERY step every query is issued through
HeadState / StateAtBlockNumber / StateAtBlockHash and compared with the model's TrueState. The node
is restarted at random points (Restart is a no-op of the model: RestartIsNoOp), and readers
obtained by number / by hash at earlier steps are kept ("held readers") and must keep answering
for their own block while later blocks are stored.
"""
import copy
import glob
import json
import os
import re
import vlib

H4_KEY = "legacy-revert:noop-zero-write"


def h4_fixed():
    """The spec models the code as it is: FixH4 follows the status of the H4 finding in
    known_findings.json (VERIF_FIX_H4=0/1 overrides it: development aid for VERIF_REPO worktrees)."""
    if os.environ.get("VERIF_FIX_H4") in ("0", "1"):
        return os.environ["VERIF_FIX_H4"] == "1"
    return any(k["key"] == H4_KEY and k["status"] == "fixed" for k in vlib.load_known("C04"))


def report_observations(ctx, res):
    """Concurrency-only misbehaviour is outside what C03 / C04 state (they quantify over histories, not
    schedules): it is printed and counted, never a verdict."""
    stats = res.get("stats", {})
    lst = stats.get("observation_list") or []
    shown = []
    for be in ("legacy", "new"):          # a few per backend, so that neither hides the other
        shown += [o for o in lst if (":" + be + ":") in o["key"]][:4]
    for o in shown:
        print("OBSERVATION: property=%s %s [%s]" % (ctx.prop, o["what"], o["key"]), flush=True)
    if len(lst) > len(shown):
        print("OBSERVATION: property=%s ... %d more distinct observation keys (see evidence)" % (ctx.prop, len(lst) - len(shown)), flush=True)
    ctx.coverage["observation_keys"] = sorted(o["key"] for o in lst)
    ctx.coverage.pop("observation_list", None)


def sim_cfg(name, fix):
    with open("%s/spec/chain/%s" % (vlib.VERIF, name)) as f:
        txt = f.read()
    return re.sub(r"FixH4 = (TRUE|FALSE)", "FixH4 = %s" % ("TRUE" if fix else "FALSE"), txt)


def behaviours(ctx, cfg, runs, depth, fix, base):
    out = []
    for i in range(runs):
        bs = ctx.tlc_simulate("chain", "StateHistoryMBT.tla", "gen_" + cfg, depth=depth,
                              seed=ctx.seed * 1000 + base + i, timeout=900,
                              files={"gen_" + cfg: sim_cfg(cfg, fix)})
        for b in bs:
            out.append({"seed": ctx.seed * 100000 + len(out) + base * 1000, "steps": b})
    return out


def run_engine_keep(ctx, binary, test, payload, timeout):
    """ctx.run_engine, but a hang of the real code AFTER the engine recorded a divergence (it rewrites
    its result file at every divergence) still reports that divergence instead of a bare timeout."""
    try:
        return ctx.run_engine(binary, test, payload, timeout=timeout)
    except vlib.Broken as e:
        if "timed out" not in str(e):
            raise
        outs = sorted(glob.glob(os.path.join(ctx.scratch, "out.*.json")), key=os.path.getmtime)
        for p in reversed(outs):
            try:
                with open(p) as f:
                    res = json.load(f)
            except Exception:
                continue
            if res.get("divergences"):
                vlib.log("engine %s timed out after recording %d divergence(s); reporting them" % (test, len(res["divergences"])))
                return res
        raise


def note_unreproduced(ctx):
    """A finding listed as `known` that this run did not hit is worth a line, not a verdict."""
    hit = [h["key"] for h in ctx.known_hits]
    for k in ctx.known:
        if k["status"] == "known" and k["key"] not in hit:
            print("NOTE: property=%s known finding [%s] did not reproduce in this run" % (ctx.prop, k["key"]), flush=True)


def selftest(ctx, binary, test, bs, corrupt):
    """Binding self-test: one expected value of one behaviour is falsified; the engine must object."""
    for b in bs:
        c = copy.deepcopy(b)
        if corrupt(c):
            res = ctx.run_engine(binary, test, {"behaviours": [c], "backends": ["new"]})
            if not res.get("divergences"):
                raise vlib.Broken("binding self-test: %s accepted a behaviour with a falsified expectation" % test)
            ctx.coverage["selftest"] = "falsified expectation rejected (%s)" % res["divergences"][0]["key"]
            return
    raise vlib.Broken("binding self-test: no behaviour to falsify")


def corrupt_truth(b):
    """Bump the nonce the model expects for a deployed contract at the head of the last step."""
    st = b["steps"][-1]
    if st["res"] != "ok" or not st["truth"]:
        return False
    for c, ct in sorted(st["truth"][-1]["con"].items()):
        if ct["dep"]:
            ct["nonce"] += 1
            return True
    return False


def run(ctx):
    binary = ctx.build_engine("statehist")
    if ctx.replay:
        with open(ctx.replay) as f:
            rp = json.load(f)
        res = ctx.run_engine(binary, rp["test"], rp["input"])
        ctx.absorb(res, "statehist", rp["test"])
        return ctx.finish("model_checking", "replay of one recorded behaviour")

    thorough = not ctx.quick()
    ctx.tlc_check("chain", "MCStateHistory.tla", "StateHistory_quick.cfg", timeout=900)
    ctx.tlc_check("chain", "MCStateHistory.tla", "StateHistory_sys_quick.cfg", timeout=900)
    ctx.tlc_check("chain", "MCStateHistory.tla", "StateHistory_casm_quick.cfg", timeout=900)
    # reads that run while the writer stores / reverts (outside C03's quantifier: observation only): a
    # reader whose two reads see one snapshot is correct under every interleaving, the legacy reader
    # as coded is not
    ctx.tlc_check("chain", "MCStateHistory.tla", "StateHistory_race_fixed.cfg", timeout=900)
    r = ctx.tlc_check("chain", "MCStateHistory.tla", "StateHistory_race.cfg", timeout=900, expect_violation=True,
                      label="legacy two-read history reader under a concurrent Store (model of an observation; violation expected)")
    if r["violated"] != "SplitReadOK":
        raise vlib.Broken("StateHistory_race.cfg should violate SplitReadOK, got %s" % r["violated"])
    if thorough:
        r = ctx.tlc_check("chain", "MCStateHistory.tla", "StateHistory_thorough.cfg", timeout=3000, coverage=True)
        vlib.require_actions_covered(r, ignore=("LReadBegin", "LReadEnd"))  # only enabled in the *_race cfgs
        ctx.tlc_check("chain", "MCStateHistory.tla", "StateHistory_ops3_thorough.cfg", timeout=3000)
        ctx.tlc_check("chain", "MCStateHistory.tla", "StateHistory_sys_thorough.cfg", timeout=3000)
        ctx.tlc_check("chain", "MCStateHistory.tla", "StateHistory_casm_thorough.cfg", timeout=3000)

    fix = h4_fixed()
    bs = behaviours(ctx, "StateHistory_sim.cfg", 8 if thorough else 2, 17 * (150 if thorough else 70), fix, 0)
    res = run_engine_keep(ctx, binary, "TestHistReplay", {"behaviours": bs}, timeout=3000)
    ctx.absorb(res, "statehist", "TestHistReplay")
    # concurrent round: readers of the retained blocks during Store ; RevertHead cycles
    nconc = 24 if thorough else 5
    cres = run_engine_keep(ctx, binary, "TestHistConcurrent",
                           {"behaviours": bs[:nconc], "rounds": 120 if thorough else 30, "readers": 4, "mode": "reads"}, timeout=1500)
    ctx.absorb(cres, "statehist", "TestHistConcurrent")
    report_observations(ctx, cres)
    ctx.coverage["concurrent_rounds"] = cres.get("replayed", 0)
    # the binding self-test comes last: it can only turn a clean run into Broken, never hide a violation
    if not ctx.violations:
        selftest(ctx, binary, "TestHistReplay", bs, corrupt_truth)
    note_unreproduced(ctx)
    ctx.coverage["behaviours_generated"] = len(bs)
    ctx.coverage["steps_replayed"] = res.get("steps", 0)
    ctx.coverage["model_fix_h4"] = fix
    ctx.assumptions += [
        "head readers return zero for the storage of a missing contract; like rpc StorageAt the harness probes the class hash to tell it from an unset slot",
        "system contracts 0x1/0x2 never receive a zero write (SysZeroWrites = FALSE): they hold block hashes and counters",
        "a class is declared at most once per chain and every class definition a block delivers is listed in its declared classes",
        "no pruning (retention floor absent): every block <= head is retained",
        "the node under test runs on a store that enforces the buffer-lending contract of db.KeyValueReader (lent values are scribbled after the callback / iterator move)",
        "concurrent round: a state reader is used by one goroutine (one request); readers only ask about blocks that stay retained during the round",
        "a held reader is checked as long as its block is on the chain; after a RevertHead that removes its block, or a restart, it is dropped (closed)",
    ]
    return ctx.finish(
        "model_checking",
        "exhaustive TLC on bounded configurations of StateHistory.tla (every diff of <= MaxOps entries, every "
        "apply/revert interleaving up to MaxBlocks) + TLC simulation behaviours (16 steps, 4 contracts incl. 0x1/0x2 "
        "x 3 slots sharing a 250-bit prefix x 4 values, 3 classes, protocol 0.13.2..0.14.1) replayed on both state "
        "backends with all queries after every step; non-trivial = the behaviour contains at least one RevertHead "
        "followed by further reads (counted as behaviours_with_revert)")

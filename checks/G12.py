"""G12 (specification growth, not a listed property) — the remote database: juno's gRPC key-value
service (grpc/handlers.go, grpc/tx.go, protocol grpc/gen) and its client db/remote/{db.go,
transaction.go,iterator.go}, which implements db.KeyValueStore / db.Snapshot / db.IndexedBatch /
db.Iterator over the `Tx` bidirectional stream.  Spec family spec/remotedb, engine
harness/engines/remotedb.

What the check does:
  1. exhaustive TLC on RemoteDB.tla: the repaired design (all defect switches TRUE) satisfies every
     property on four small configurations (one client-library transaction with two cursors; raw
     streams with every request shape incl. ill-formed ones; two streams; DB-level calls and the loss
     of the connection), each with a concurrent server-side writer; the code as it is satisfies what
     the defects do not touch; one expected-violation run per defect switch, per mutant and per
     vacuity guard; RemoteDBConc.tla (an exchange split into send / serve / receive, two client
     threads on one stream): responses stay correlated only with the repaired client's mutex;
  2. directed probes reproduce every confirmed defect on the real server + client with the shortest
     script and record stated limits (Prev panics, Get of the empty key) as observations;
  3. TLC-simulated behaviours (client API calls on transactions and on the DB, iterator calls incl.
     misuse after Close / Discard, raw requests incl. unknown cursors and operations outside the
     enum, server-side writes between any two calls, the handler's begin as a step of its own,
     three stream slots, loss of the connection) replayed on the REAL grpc server (bufconn or
     loopback TCP, db/memory, db/pebblev2, db/pebble) with the REAL db/remote client; compared after
     every step: the result, the same read on a local snapshot / iterator pinned where the model
     pins (ground truth independent of the specification), the store, the number of running Tx
     handlers, the number of open server-side iterators, every client iterator's cached pair; at
     the end every cursor's position, then the client goes away (context cancel / connection close /
     server stop) and nothing may be left: no handler, no iterator, no snapshot, store.Close() clean;
  4. concurrent free-running rounds: remote readers (own transactions, several cursors each,
     some abandoning their stream mid-scan) against a local writer committing versioned atomic
     batches, judged by the specification's invariants (a cursor shows exactly one version lying
     in its OPEN window, keys complete and ordered; GETs read a version of their own window, and
     one version per transaction in the repaired design); several goroutines on the cursors of ONE
     transaction (db.Iterator: "multiple iterators can be used concurrently").

The model in force follows known_findings.json (never the tree): a defect listed `known` is modelled
as coded, otherwise repaired; a listed finding that no longer reproduces is a NOTE.  A replay
divergence that has the shape of one of the confirmed defects carries that defect's key (the same key
family as its probe), every other one a key built from the call, its context and the difference.
VERIF_G12_ONLY=tlc,probes,replay,conc restricts a run and VERIF_G12_ASSUME_KNOWN=<key,key,...> treats
keys as listed (both development aids)."""
import json
import os
import re
from concurrent.futures import ThreadPoolExecutor

import vlib

FAM = "remotedb"
KEYS_FULL = [[0], [1], [1, 0], [1, 255], [2], [255, 255]]

# defect switch -> the key family its probe / replay divergence carries
DEFECTS = {
    "FixFirst": "remotedb:first-unsupported:*",
    "FixBounds": "remotedb:iterator:bounds-ignored:*",
    "FixSnapshot": "remotedb:tx:not-point-in-time:*",
    "FixLeak": "remotedb:stream-leak:*",
    "FixHas": "remotedb:has:missing-key:error-instead-of-false",
    "FixEOF": "remotedb:stream-end:clean-close-status-error",
    "FixMutex": "remotedb:concurrent:iterators-of-one-tx:*",
}
SWITCH_JSON = {"FixFirst": "first", "FixBounds": "bounds", "FixSnapshot": "snapshot", "FixLeak": "leak",
               "FixHas": "has", "FixEOF": "eof", "FixMutex": "mutex"}

EXPECT = [  # cfg, module, violated property, what it shows
    ("RemoteDB_x_first.cfg", "MCRemoteDB.tla", "NoSpuriousError", "as coded: FIRST is refused and ends the stream"),
    ("RemoteDB_x_bounds.cfg", "MCRemoteDB.tla", "IterWithinBounds", "as coded: the client iterator drops prefix and upper bound"),
    ("RemoteDB_x_snapshot.cfg", "MCRemoteDB.tla", "SnapshotContract", "as coded: GET is live, a cursor pins the content of its own OPEN"),
    ("RemoteDB_x_leak.cfg", "MCRemoteDB.tla", "NoLeak", "as coded: DB-level calls never end their stream"),
    ("RemoteDB_x_has.cfg", "MCRemoteDB.tla", "HasIsBoolean", "as coded: Has of a missing key is an error"),
    ("RemoteDB_x_eof.cfg", "MCRemoteDB.tla", "CleanCloseIsOK", "as coded: a clean end of the stream is an RPC error"),
    ("RemoteDB_m_livecursor.cfg", "MCRemoteDB.tla", "IterMovesMatchTruth", "mutant"),
    ("RemoteDB_m_livecursor2.cfg", "MCRemoteDB.tla", "RawMatchesTruth", "mutant"),
    ("RemoteDB_m_nextmovesall.cfg", "MCRemoteDB.tla", "CursorIsolation", "mutant"),
    ("RemoteDB_m_nocleanup.cfg", "MCRemoteDB.tla", "CleanupComplete", "mutant"),
    ("RemoteDB_m_closekeepscursor.cfg", "MCRemoteDB.tla", "ErrorsAreErrors", "mutant"),
    ("RemoteDB_m_unknowncursorempty.cfg", "MCRemoteDB.tla", "ErrorsAreErrors", "mutant"),
    ("RemoteDB_m_seekexactloose.cfg", "MCRemoteDB.tla", "SeekExactIsExact", "mutant"),
    ("RemoteDB_m_stalecache.cfg", "MCRemoteDB.tla", "ErrorsAreErrors", "mutant"),
    ("RemoteDB_m_getnokeycheck.cfg", "MCRemoteDB.tla", "GetsMatchTruth", "mutant"),
    ("RemoteDB_m_writethrough.cfg", "MCRemoteDB.tla", "ReadOnly", "mutant"),
    ("RemoteDB_v_cursorwrite.cfg", "MCRemoteDB.tla", "NoCursorSurvivesAWrite", "vacuity guard: a cursor outlives a write"),
    ("RemoteDB_v_deadinuse.cfg", "MCRemoteDB.tla", "NoDeadStreamInUse", "vacuity guard: a transaction is used after its stream died"),
]


def known(ctx, key):
    return any(k.get("status") == "known" and (vlib.key_matches(k["key"], key.rstrip("*")) or k["key"] == key) for k in ctx.known)


def tla_bool(b):
    return "TRUE" if b else "FALSE"


def cfg_with(base, **over):
    src = open(os.path.join(vlib.VERIF, "spec", FAM, base)).read()
    for k, v in over.items():
        src, n = re.subn(r"\b%s = \S+" % k, "%s = %s" % (k, v), src)
        if n != 1:
            raise vlib.Broken("cfg rewrite: %s not found once in %s" % (k, base))
    return src


def tlc_phase(ctx):
    t = not ctx.quick()
    hold = [("RemoteDB_tx_quick.cfg", "MCRemoteDB.tla", "repaired: one transaction of the client library, two cursors, a writer"),
            ("RemoteDB_raw_quick.cfg", "MCRemoteDB.tla", "repaired: raw streams, every request shape"),
            ("RemoteDB_two_quick.cfg", "MCRemoteDB.tla", "repaired: two streams, isolation"),
            ("RemoteDB_db_quick.cfg", "MCRemoteDB.tla", "repaired: DB-level calls, loss of the connection"),
            ("RemoteDB_ascoded_db.cfg", "MCRemoteDB.tla", "as coded: DB-level calls, a transaction, loss of the connection"),
            ("RemoteDBConc_quick.cfg", "RemoteDBConc.tla", "repaired: two threads on one transaction, exchanges split")]
    if t:
        hold += [("RemoteDB_ascoded_tx.cfg", "MCRemoteDB.tla", "as coded: what holds in spite of the defects (transaction, two cursors)"),
                 ("RemoteDB_tx_thorough.cfg", "MCRemoteDB.tla", "repaired: one transaction, two writes"),
                 ("RemoteDB_raw_thorough.cfg", "MCRemoteDB.tla", "repaired: raw streams, three cursors"),
                 ("RemoteDB_two_thorough.cfg", "MCRemoteDB.tla", "repaired: two streams, DB-level calls"),
                 ("RemoteDB_ascoded_raw.cfg", "MCRemoteDB.tla", "as coded: raw streams"),
                 ("RemoteDB_ascoded_two.cfg", "MCRemoteDB.tla", "as coded: two streams"),
                 ("RemoteDBConc_thorough.cfg", "RemoteDBConc.tla", "repaired: two threads, two cursors, a writer")]
    expect = EXPECT + [("RemoteDBConc_x_mutex.cfg", "RemoteDBConc.tla", "ResponsesCorrelated", "as coded: two goroutines on one transaction swap replies"),
                       ("RemoteDBConc_x_wrongdata.cfg", "RemoteDBConc.tla", "ConcReadsMatchTruth", "as coded: ... and a Get / an iterator answers from another call's reply"),
                       ("RemoteDBConc_v_inflight.cfg", "RemoteDBConc.tla", "NoCallInFlight", "vacuity guard: an exchange is in flight")]
    par = 3
    workers = max(2, int(os.environ.get("VERIF_TLC_WORKERS", "16")) // par)
    cover = ("RemoteDB_tx_quick.cfg", "RemoteDB_raw_quick.cfg", "RemoteDB_db_quick.cfg", "RemoteDBConc_quick.cfg")

    def one(job):
        cfg, module, label, exp = job
        return job, ctx.tlc_check(FAM, module, cfg, workers=workers if exp is None else 2, timeout=3000,
                                  label=label + " [" + cfg + "]", expect_violation=exp is not None,
                                  coverage=(t and exp is None and cfg in cover))

    jobs = [(c, m, l, None) for c, m, l in hold] + [(c, m, "expected violation of %s (%s)" % (p, w), p) for c, m, p, w in expect]
    with ThreadPoolExecutor(max_workers=par) as ex:
        results = list(ex.map(one, jobs))
    for (cfg, module, label, exp), r in results:
        if exp is None:
            if "coverage" in r:
                vlib.require_actions_covered(r, ignore=COVER_IGNORE.get(cfg, ()) + ("Next", "ConcNext"))
            continue
        if r["ok"] or r["violated"] != exp:
            raise vlib.Broken("expected-violation run %s: expected %s, got %s — the model changed" % (cfg, exp, r["violated"]))


# actions that cannot fire in a configuration by construction (its Enable* constants)
_TX = ("TxOpen", "TxGet", "TxHas", "TxNewIter", "ItFirst", "ItSeek", "ItNext", "ItValid", "ItClose", "ItDo", "TxDiscard")
_RAW = ("RawOpen", "RawReq", "RawCloseSend", "RawCancel")
_DB = ("DBGet", "DBHas", "DBWrite", "DBNewIter", "OneShot")
COVER_IGNORE = {
    "RemoteDB_tx_quick.cfg": _RAW + _DB,
    "RemoteDB_raw_quick.cfg": _TX + _DB + ("WriteAttempt",),
    "RemoteDB_db_quick.cfg": _RAW,
    "RemoteDBConc_quick.cfg": _RAW + _DB + ("ItFirst", "ItValid", "ItClose", "TxHas", "WriteAttempt", "ConnClose"),
}


def run(ctx):
    binary = ctx.build_engine(FAM)
    if ctx.replay:
        rp = json.load(open(ctx.replay))
        ctx.absorb(ctx.run_engine(binary, rp["test"], rp["input"]), FAM, rp["test"])
        return ctx.finish("model_checking", "replay of one recorded behaviour")
    only = [p for p in os.environ.get("VERIF_G12_ONLY", "").split(",") if p] or ["tlc", "probes", "replay", "conc"]
    assume = [k for k in os.environ.get("VERIF_G12_ASSUME_KNOWN", "").split(",") if k]
    if assume:
        print("NOTE: property=G12 DEVELOPMENT RUN: treating %s as listed known findings (VERIF_G12_ASSUME_KNOWN)" % assume, flush=True)
        ctx.known += [{"property": "G12", "key": k, "status": "known", "what": "(assumed for development) " + k} for k in assume]
    pool = ThreadPoolExecutor(max_workers=1)
    tlc_job = pool.submit(tlc_phase, ctx) if "tlc" in only else None
    try:
        return bindings(ctx, binary, only, not ctx.quick(), tlc_job)
    finally:
        pool.shutdown(wait=True, cancel_futures=True)


def absorb(ctx, res, test):
    if os.environ.get("VERIF_G12_DEBUG"):   # development aid: show every divergence, known or not
        for d in res.get("divergences") or []:
            print("DEBUG %s: %s" % (d.get("key"), d.get("what", "")[:600]), flush=True)
    ctx.absorb(res, FAM, test)


def bindings(ctx, binary, only, thorough, tlc_job):
    # The model in force follows known_findings.json (never the tree): a defect listed known is modelled as coded,
    # otherwise repaired. The probes decide nothing about it; they tell whether a listed finding still reproduces
    # (if not: a NOTE, and the switch is modelled repaired) and report the defects under their canonical keys.
    fix = {sw: not known(ctx, fam) for sw, fam in DEFECTS.items()}
    if "probes" in only:
        res = ctx.run_engine(binary, "TestRemoteProbes", {"keys": KEYS_FULL}, timeout=300)
        absorb(ctx, res, "TestRemoteProbes")
        keys = {d["key"] for d in res.get("divergences") or []}
        for sw, fam in DEFECTS.items():
            if sw != "FixMutex" and not fix[sw] and not any(vlib.key_matches(fam, k) for k in keys):
                print("NOTE: property=G12 known finding [%s] did not reproduce on this tree: modelled as repaired" % fam, flush=True)
                fix[sw] = True
        for k, v in sorted((res.get("stats") or {}).get("observations", {}).items()):
            print("OBSERVATION property=G12 (stated limit, not a verdict) %s: %s" % (k, v), flush=True)
    if "conc" in only:
        # several goroutines on the cursors of ONE transaction. As coded this is a misuse of the gRPC stream
        # (concurrent SendMsg / RecvMsg): it may also take the engine process down, which then IS the reproduction.
        payload = {"fix": {"mutex": fix["FixMutex"]}, "shared_rounds": 40 if thorough else 12, "goroutines": 6}
        try:
            res = ctx.run_engine(binary, "TestRemoteSharedTx", payload, timeout=600)
            absorb(ctx, res, "TestRemoteSharedTx")
            seen = any(vlib.key_matches(DEFECTS["FixMutex"], d["key"]) for d in res.get("divergences") or [])
        except vlib.Broken as e:
            if "panic" not in str(e) and "fatal error" not in str(e):
                raise
            seen = True
            ctx.report("remotedb:concurrent:iterators-of-one-tx:process-crash",
                       "several goroutines on the cursors of one remote transaction crashed the process: %s" % str(e)[-300:],
                       {"property": "G12", "engine": FAM, "test": "TestRemoteSharedTx", "seed": ctx.seed, "input": payload})
        if not fix["FixMutex"] and not seen:
            print("NOTE: property=G12 known finding [%s] (a race) did not reproduce in this run" % DEFECTS["FixMutex"], flush=True)
    ctx.coverage["model"] = " ".join("%s=%s" % (k, v) for k, v in sorted(fix.items()))
    fixjson = {SWITCH_JSON[k]: v for k, v in fix.items()}
    sw = {k: tla_bool(v) for k, v in fix.items() if k != "FixMutex"}

    nviol = len(ctx.violations)
    if "replay" in only:
        nb = 0
        plans = [  # (cfg constants, tlc runs quick / thorough)
            (dict(), 2, 10),
            (dict(EnableRaw="FALSE", EnableDB="FALSE", MaxSteps=30), 1, 4),   # client library only: longer lives of transactions
            (dict(EnableTx="FALSE", EnableDB="FALSE", MaxSteps=30), 1, 4),    # raw protocol only
        ]
        for i, (consts, nq, nt) in enumerate(plans):
            cfg = cfg_with("RemoteDB_sim.cfg", **consts, **sw)
            steps = int(consts.get("MaxSteps", 40))
            beh = []
            for j in range(nt if thorough else nq):
                beh += ctx.tlc_simulate(FAM, "RemoteDBMBT.tla", "gen.cfg", depth=(steps + 1) * (90 if thorough else 40),
                                        seed=ctx.seed * 1000 + i * 50 + j, files={"gen.cfg": cfg})
            nb += len(beh)
            absorb(ctx, ctx.run_engine(binary, "TestRemoteReplay", {"keys": KEYS_FULL, "behaviours": beh, "fix": fixjson, "first": 0}, timeout=1500),
                   "TestRemoteReplay")
        ctx.coverage["behaviours_replayed"] = nb

    diverged = len(ctx.violations) > nviol
    if "conc" in only and diverged:
        # the sequential bindings already diverged from the model in force: free-running rounds would only
        # report consequences of the same differences (and may block on them)
        ctx.coverage["concurrent_skipped_after_divergence"] = 1
    elif "conc" in only:
        absorb(ctx, ctx.run_engine(binary, "TestRemoteConcurrent",
                                   {"fix": fixjson, "rounds": 12 if thorough else 4, "readers": 4, "round_ms": 700 if thorough else 350,
                                    "shared_rounds": 6 if thorough else 2}, timeout=900),
               "TestRemoteConcurrent")


    if tlc_job is not None:
        tlc_job.result()
    ctx.assumptions += [
        "the server's store is a real db/memory, db/pebblev2 or db/pebble database behind a pass-through wrapper that counts "
        "views / iterators / snapshots and can hold a Tx handler where it takes its view (C15 examines the backends themselves)",
        "gRPC itself (framing, flow control, ordering of a stream's messages) is trusted; transports: bufconn and loopback TCP",
        "the order in which a handler's begin and a server-side write take effect is imposed through the wrapper; in the "
        "concurrent rounds it is free and the invariants speak about windows",
        "keys are non-empty (juno prefixes a bucket byte); the empty key is probed separately",
    ]
    return ctx.finish(
        "model_checking",
        "exhaustive TLC on RemoteDB.tla / RemoteDBConc.tla (repaired design: all properties; as coded: what the defects leave intact; one "
        "expected-violation run per defect, mutant and vacuity guard); TLC-simulated call sequences (schema-uniform, 30-40 calls over 6 keys "
        "incl. a key that is a prefix of another and 0xff tails, 9 prefixes, 13 seek targets, values incl. empty, 3 stream slots, 3 cursors "
        "per stream) replayed on the real server and client with full comparison after every call and a release check at the end; "
        "free-running concurrent rounds judged by the invariants; non-trivial = a behaviour opens a stream and reads through it")

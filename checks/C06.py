"""C06 — sync converges to the source's chain and only ever stores verified blocks (spec/sync/Sync.tla).

TLC (design level): exhaustive check of the pipeline model — parallel fetchers, the two ordered callback
streams, stream reset, revert task, catch-up / tip mode, a source that extends / reorgs at any moment and
answers late, wrongly or not at all within a fault budget — for the safety properties and for convergence
under per-action weak fairness; once with the known design defects repaired (must hold) and once per
defect as coded (must fail: the counterexample is what the recorder reproduces on the real code).  The property
"every stored block passed full verification" is also stated over the CONTENT of the database (StoredOnlyVerified:
no block was ever stored with content other than the source's); the two mechanisms that keep a faulty answer out of
the database — the state-root checks of Store also for blocks without diff entries, a verdict that belongs to the
answer it was computed on and not to the hash the answer claims — have a switch each, and TLC must find the
invariant violated with either switched off (Sync_x_emptyroot.cfg, Sync_x_memo.cfg).

Binding: TRACE VALIDATION of the real sync.Synchronizer over a real Blockchain with a gated scripted
DataSource (harness/engines/sync).  Every recorded run is (a) judged by the property monitors in the
engine — among them an independent re-verification of every stored block, read back from the database on the
storing goroutine: recomputed hash and commitments, content equal to the source's block, state tries re-hashed to
the honest state root — and (b) validated by TLC against SyncTrace.tla (observable actions with their guards, internal
pipeline steps silent).  Both verdicts must agree; a disagreement is a broken check, not a verdict.
"""
import json
import os
import re

import vlib

GOMAXPROCS = 2

K_H13 = "sync:revert-of-block-source-still-has:stale-successor"
K_RVV = "sync:revert-of-block-source-still-has:corrupt-remote-header"
K_UFL = "sync:no-convergence:source-shrunk-to-new-genesis"

# the known design-level defects, each reproduced by a deterministic script in every run
SCRIPTS = [
    {"name": "h13-stale-successor", "seed": 11, "mode": "script", "new_state": False, "init_len": 9,
     "plan": [{"drop": 4, "add": 5}],
     "decisions": [
         {"op": "sync", "below": 5, "len": 5, "reqs": [5, 6]},          # catch-up mode: 5 and 6 in flight on chain A
         {"op": "src"},                                                  # reorg: A[0..4] + B5..B9
         {"op": "resp", "kind": "block", "h": 5, "r": "ok", "ver": 2},   # B5 is stored
         {"op": "sync", "below": 0, "len": 6, "reqs": [6]},
         {"op": "resp", "kind": "block", "h": 6, "r": "ok", "ver": 1},   # the answer computed before the reorg: A6
     ]},
    {"name": "corrupt-remote-header", "seed": 12, "mode": "script", "new_state": True, "init_len": 5,
     "plan": [{"drop": 1, "add": 1}],
     "decisions": [
         {"op": "sync", "below": 5, "len": 5, "reqs": [5]},
         {"op": "src"},                                                  # reorg of the tip block
         {"op": "resp", "kind": "block", "h": 5, "r": "err"},
         {"op": "resp", "kind": "latest", "r": "ok", "ver": 2, "sh": 4},  # isReverting: hashes differ -> revertTask(3)
         {"op": "resp", "kind": "block", "h": 3, "r": "bad", "ver": 2, "corr": "hash"},  # unverified header compared
     ]},
    {"name": "underflow-new-genesis", "seed": 13, "mode": "script", "new_state": False, "init_len": 4,
     "plan": [{"drop": 4, "add": 1}],
     "decisions": [
         {"op": "sync", "below": 4, "len": 4, "reqs": [4]},
         {"op": "src"},                                                  # the source now has one, different, block
     ]},
    # defect-free scripts that pin down paths random runs reach only sometimes.
    # tip reorg found through the STORE path: the source replaces the node's head block and is already longer, so
    # block N of the new fork fails with ErrParentDoesNotMatchHead -> revertTask(N-2): exactly the old head may be
    # reverted; the common ancestor N-2, which the source still has, must survive the hash comparison
    {"name": "tip-reorg-longer-fork", "seed": 16, "mode": "script", "new_state": False, "init_len": 6,
     "plan": [{"drop": 1, "add": 3}],
     "decisions": [
         {"op": "sync", "below": 6, "len": 6, "reqs": [6]},
         {"op": "src"},                                                  # A0..A4 + B5 B6 B7
         {"op": "resp", "kind": "block", "h": 6, "r": "ok", "ver": 2},   # B6: parent B5 is not the head A5
     ]},
    # a valid block of ANOTHER height answers a request (first a higher one, later a lower one that the node already
    # has): Store must refuse it with a plain error -> stream reset, no revert, no reorg notification
    {"name": "wrong-height-answers", "seed": 17, "mode": "script", "new_state": True, "init_len": 9, "plan": [],
     "decisions": [
         {"op": "sync", "below": 5, "len": 5, "reqs": [5]},
         {"op": "resp", "kind": "block", "h": 5, "r": "wh", "ver": 1, "bh": 7},
         {"op": "sync", "below": 8, "len": 8, "reqs": [8]},
         {"op": "resp", "kind": "block", "h": 8, "r": "wh", "ver": 1, "bh": 3},
     ]},
    # a forged block: state diff altered, hash recomputed (self-consistent header); only Store's state-root
    # recomputation can refuse it; once on a current-format block, once on a pre-0.13.2 block (hash does not commit
    # to the diff at all)
    {"name": "forged-state-diff", "seed": 18, "mode": "script", "new_state": False, "init_len": 7, "plan": [],
     "decisions": [
         {"op": "sync", "below": 2, "len": 2, "reqs": [2]},
         {"op": "resp", "kind": "block", "h": 2, "r": "fg", "ver": 1},      # tag 3: 0.14.1
         {"op": "sync", "below": 3, "len": 3, "reqs": [3]},
         {"op": "resp", "kind": "block", "h": 3, "r": "fg", "ver": 1},      # tag 4: 0.13.1
     ]},
    {"name": "forged-state-diff-newstate", "seed": 19, "mode": "script", "new_state": True, "init_len": 5, "plan": [],
     "decisions": [
         {"op": "sync", "below": 3, "len": 3, "reqs": [3]},
         {"op": "resp", "kind": "block", "h": 3, "r": "fg", "ver": 1},
     ]},
    # the node is stopped and restarted (new Synchronizer + new Blockchain object, same database) in the middle of
    # catching up; and at the tip, with a reorg happening while it is down
    {"name": "restart-mid-sync", "seed": 20, "mode": "script", "new_state": False, "init_len": 8, "plan": [],
     "decisions": [
         {"op": "sync", "below": 4, "len": 4, "reqs": [4]},
         {"op": "restart"},
     ]},
    {"name": "restart-then-reorg", "seed": 21, "mode": "script", "new_state": True, "init_len": 6,
     "plan": [{"drop": 2, "add": 3}],
     "decisions": [
         {"op": "sync", "below": 6, "len": 6, "reqs": [6]},
         {"op": "restart", "burst": True},
         {"op": "src"},
     ]},
    # degenerate shapes: a source with a single block; a whole-chain reorg found through the store path at height 1
    # (block.Number-2 wraps around)
    {"name": "single-block-source", "seed": 22, "mode": "script", "new_state": False, "init_len": 1, "plan": [], "decisions": []},
    {"name": "whole-chain-reorg-at-height-1", "seed": 23, "mode": "script", "new_state": False, "init_len": 3,
     "plan": [{"drop": 3, "add": 2}],
     "decisions": [
         {"op": "sync", "below": 1, "len": 1, "reqs": [1]},
         {"op": "src"},
         {"op": "resp", "kind": "block", "h": 1, "r": "ok", "ver": 2},
     ]},
    # an EMPTY block (no transaction, empty state diff: block 4 of this chain) arrives corrupted: must be refetched
    {"name": "corrupt-empty-block", "seed": 24, "mode": "script", "new_state": True, "init_len": 6, "plan": [],
     "decisions": [
         {"op": "sync", "below": 4, "len": 4, "reqs": [4]},
         {"op": "resp", "kind": "block", "h": 4, "r": "bad", "ver": 1, "corr": "timestamp"},
     ]},
    {"name": "stale-head-at-tip", "seed": 14, "mode": "script", "new_state": True, "init_len": 6, "plan": [],
     "decisions": [
         {"op": "sync", "below": 6, "len": 6, "reqs": [6]},
         {"op": "resp", "kind": "block", "h": 6, "r": "err"},
         {"op": "resp", "kind": "latest", "r": "ok", "ver": 1, "sh": 2},  # stale head: isReverting must compare block 2 with block 2
     ]},
    {"name": "corrupt-at-tip", "seed": 15, "mode": "script", "new_state": False, "init_len": 6, "plan": [],
     "decisions": [
         {"op": "sync", "below": 5, "len": 5, "reqs": [5]},
         {"op": "resp", "kind": "block", "h": 5, "r": "bad", "ver": 1, "corr": "receipt"},  # must be refetched
     ]},
]


# ---- directed scenarios derived from the specification's answer alphabet (Sync.tla: ForgedKinds, EmptyDiff,
# KeepsHash) and from the counterexamples of its two expected-violation configurations
FORGERIES = ["diff-resealed", "root-resealed", "oldroot"]                 # Sync.tla ForgedKinds
SHAPES = ["empty", "emptydiff", "declare", "nonceonly", "full"]           # the first two: EmptyDiff
KEEPS_HASH = ["tx", "receipt", "timestamp", "diff", "root", "parent"]     # altered content under the honest hash


def forged_scripts():
    """Sync_x_emptyroot.cfg: a forged copy (every kind, one after the other at the same height) of a block of
    every shape, at the first height after genesis / in the middle / at the tip, on both state backends.  Only
    the state-root checks of Store stand between these answers and the database."""
    out = []
    L = 6
    for i, shape in enumerate(SHAPES):
        for j, new_state in enumerate((False, True)):
            h = (1, 3, L - 1)[(i + j) % 3]
            out.append({
                "name": "forged-%s-h%d-%s" % (shape, h, "new" if new_state else "legacy"), "seed": 30 + 2 * i + j,
                "mode": "script", "new_state": new_state, "init_len": L, "plan": [], "shapes": {str(h + 1): shape},
                "decisions": [{"op": "sync", "below": h, "len": h, "reqs": [h]}] + [
                    {"op": "resp", "kind": "block", "h": h, "r": "fg", "ver": 1, "corr": k} for k in FORGERIES]})
    for j, new_state in enumerate((False, True)):          # the genesis block itself (no predecessor, old root zero)
        out.append({"name": "forged-genesis-%s" % ("new" if new_state else "legacy"), "seed": 40 + j, "mode": "script",
                    "new_state": new_state, "init_len": 4, "plan": [],
                    "decisions": [{"op": "sync", "below": 0, "len": 0, "reqs": [0]}] + [
                        {"op": "resp", "kind": "block", "h": 0, "r": "fg", "ver": 1, "corr": k} for k in FORGERIES]})
    return out


def refetch_scripts():
    """Sync_x_memo.cfg: block N+1 is served honestly and verified, but dropped by a stream reset before it can be
    stored (the reset is caused by what happens to block N, answered AFTER N+1 — two fetchers in flight); every
    later request for N+1 is answered with altered content under the honest header, one kind after the other.
    Causes of the reset: N invalid (verification fails) / a valid block of another height / a forged N (Store
    fails) / none at all: N is stored and the node leaves catch-up mode."""
    out = []
    L = 9
    causes = {
        "late-invalid": (5, {"r": "bad", "corr": "timestamp"}),
        "wrong-height": (5, {"r": "wh", "bh": 7}),
        "forged": (5, {"r": "fg", "corr": "root-resealed"}),
        "mode-switch": (L - 3, {"r": "ok"}),          # highest = L-1 = N + Lag: storing N ends catch-up mode
    }
    for i, (cause, (n, first)) in enumerate(sorted(causes.items())):
        for j, new_state in enumerate((False, True)):
            ds = [{"op": "sync", "below": n, "len": n, "reqs": [n, n + 1]},
                  {"op": "resp", "kind": "block", "h": n + 1, "r": "ok", "ver": 1},
                  dict({"op": "resp", "kind": "block", "h": n, "ver": 1}, **first)]
            rot = KEEPS_HASH[(i + j) % len(KEEPS_HASH):] + KEEPS_HASH[:(i + j) % len(KEEPS_HASH)]
            ds.append({"op": "sync", "below": n + 1, "len": n + 1, "reqs": [n + 1]})
            for c in rot:
                ds.append({"op": "resp", "kind": "block", "h": n + 1, "r": "bad", "ver": 1, "corr": c})
            out.append({"name": "refetch-%s-%s" % (cause, "new" if new_state else "legacy"), "seed": 50 + 2 * i + j,
                        "mode": "script", "new_state": new_state, "init_len": L, "plan": [],
                        "shapes": {str(n + 2): "full"}, "decisions": ds})
    return out


SCRIPTS += forged_scripts() + refetch_scripts()
SCRIPT_KEYS = {"h13-stale-successor": K_H13, "corrupt-remote-header": K_RVV, "underflow-new-genesis": K_UFL}

ENV_EVENTS = ("Reset", "Src", "Stop", "Restart", "Resp", "RespLatest", "End")
# monitor findings about things the trace does not contain (values retained after delivery, reads by a concurrent
# goroutine, content read back from the database): TLC has no say on them
OUTSIDE_TRACE = ("notification-mutated-after-delivery", "source-block-mutated-by-node", "stored-block-differs-from-source",
                 "stored-block-fails-reverification",
                 "stored-block-unreadable", "reader-saw-head-that-is-no-source-block", "highest-header-is-no-source-block",
                 "starting-header-wrong-height", "reader-panicked")


def switches(ctx):
    """Which model the traces are validated against comes from known_findings.json ONLY, never from the tree under
    test: a defect listed as `known` is modelled as coded (switch FALSE); fixed or unlisted means the repaired design
    (switch TRUE).  VERIF_C06_FIXED is a development aid for a worktree that carries a candidate repair."""
    fixed = set(filter(None, os.environ.get("VERIF_C06_FIXED", "").split(",")))
    known = {k["key"] for k in ctx.known if k.get("status") == "known"}
    return {"FixH13": K_H13 not in known or "h13" in fixed,
            "FixRevertVerify": K_RVV not in known or "rvv" in fixed,
            "FixUnderflow": K_UFL not in known or "underflow" in fixed}


def machinery(ctx, msg):
    """A machinery problem is exit 2 — unless the real code has already shown a violation in this run: then the
    violation is the verdict and the problem (often its consequence) is only noted."""
    if ctx.violations:
        print("NOTE: " + msg.splitlines()[0][:300] + " (after a violation had been recorded)", flush=True)
        return
    raise vlib.Broken(msg)


def trace_cfg(sw, w=GOMAXPROCS):
    b = lambda v: "TRUE" if v else "FALSE"
    return ("CONSTANTS\n  InitLen = 1\n  MaxLen = 1000\n  MaxSrcSteps = 1000\n  MaxReorgs = 1000\n  MaxNew = 1000\n"
            "  W = %d\n  WV = %d\n  Lag = %d\n  MaxFaults = 1000000\n  MaxPolls = 1000000\n  MaxRestarts = 1000000\n"
            "  FixH13 = %s\n  FixRevertVerify = %s\n  FixUnderflow = %s\n  Fine = TRUE\n"
            "  EmptyDiff = {}\n  RootCheckedOnEmptyDiff = TRUE\n  VerdictPerAnswer = TRUE\n"
            "INIT TraceInit\nNEXT TraceNext\nCONSTRAINT TraceConstraint\nPOSTCONDITION TraceAccepted\nCHECK_DEADLOCK FALSE\n"
            % (w, w, w, b(sw["FixH13"]), b(sw["FixRevertVerify"]), b(sw["FixUnderflow"])))


_ACC = re.compile(r'<<\s*"ACCEPT",\s*(\d+),\s*(\{.*?\})\s*>>(?=\s*(?:<<\s*"|\n\S|$))', re.S)
_FLAG = re.compile(r'<<\s*"(\w+)",\s*"([\w-]+)",\s*"([\w-]+)"\s*>>')
_HW = re.compile(r'<<\s*"HIGHWATER",\s*(\d+)\s*>>')


def validate(ctx, lines, traces, sw, w=GOMAXPROCS, timeout=1500):
    """TLC-validate the traces (dicts with first/last line numbers, 1-based, into `lines`).
    Returns {tr: {"accepted": bool, "flags": set of (prop, why, how), "event": rejected event or None}}."""
    verdict = {}
    todo = list(traces)
    while todo:
        path = os.path.join(ctx.scratch, "c06-trace-%d.ndjson" % len(verdict))
        offs = []
        n = 0
        with open(path, "w") as f:
            for t in todo:
                seg = lines[t["first"] - 1:t["last"]]
                offs.append((n + 1, n + len(seg), t))
                n += len(seg)
                f.write("".join(seg))
        ok, res = ctx.tlc_trace("sync", "SyncTrace.tla", "SyncTrace_run.cfg", path, timeout=timeout,
                                files={"SyncTrace_run.cfg": trace_cfg(sw, w)})
        out = res["out"]
        flagsets = {}
        for m in _ACC.finditer(out):
            flagsets.setdefault(int(m.group(1)), []).append(frozenset(_FLAG.findall(m.group(2))))
        hw = _HW.search(out)
        if not ok and not hw:
            machinery(ctx, "trace validation failed without a verdict:\n" + "\n".join(out.splitlines()[-30:]))
            return verdict
        stop = int(hw.group(1)) if hw else n + 1
        rest = []
        for lo, hi, t in offs:
            if hi < stop:
                fs = flagsets.get(t["tr"])
                if not fs:
                    machinery(ctx, "trace %s consumed by TLC but no ACCEPT line was printed" % t["name"])
                    continue
                # the flags depend on observable steps only; should interleavings differ, the most
                # benign explanation counts
                verdict[t["tr"]] = {"accepted": True, "flags": set(min(fs, key=len)), "event": None}
            elif lo <= stop <= hi:
                ev = json.loads(lines[t["first"] - 1 + (stop - lo)])
                verdict[t["tr"]] = {"accepted": False, "flags": set(), "event": ev, "at": stop - lo + 1}
            else:
                rest.append(t)
        todo = rest
    return verdict


def mon_class(key):
    if key.startswith("sync:revert-of-block-source-still-has:"):
        return "RevertsJustified"
    if key.startswith("sync:no-convergence:"):
        return "Converges"
    if key == "sync:revert-without-evidence":
        return "RevertsHaveEvidence"
    return "rejected"          # anything else is a step the design has no explanation for


HOW = {"stale-successor": ("parent", "uncond"), "successor-mismatch": ("parent", "uncond"),
       "corrupt-remote-header": (None, "compare"), "remote-compare": (None, "compare"),
       "unconditional": ("latest", "uncond"), "common-ancestor": (None, "uncond")}


def reconcile(ctx, traces, verdict):
    """Both verdict sources must agree per trace; TLC-only rejections become violations of their own."""
    agree = 0
    for t in traces:
        v = verdict.get(t["tr"])
        if v is None:
            continue
        mon = set(t["keys"])
        if not v["accepted"]:
            ev = v["event"]
            if ev["ev"] in ENV_EVENTS and not (ev["ev"] == "End") and not mon:
                machinery(ctx, "TLC rejects environment event %s of trace %s: the recorder's source is not the "
                          "specification's source: %s" % (ev["ev"], t["name"], json.dumps(ev)))
                continue
            if not mon:
                key = "sync:design-has-no-explanation:" + ev["ev"]
                ctx.report(key, "trace %s: the specification cannot take the recorded step #%d %s (no scheduling "
                           "of the internal pipeline steps explains it)" % (t["name"], v["at"], json.dumps(ev)),
                           {"property": ctx.prop, "engine": "sync", "test": "TestSyncRecord", "seed": ctx.seed,
                            "input": t["replay"], "divergence": {"key": key, "event": ev, "step": v["at"]}})
            agree += 1
            continue
        want = {mon_class(k) for k in mon if not k.split(":")[1] in OUTSIDE_TRACE}
        have = {f[0] for f in v["flags"]}
        if want != have:
            machinery(ctx, "verdict sources disagree on trace %s: monitors %s, TLC accepted with flags %s"
                      % (t["name"], sorted(mon), sorted(v["flags"])))
            continue
        for k in mon:
            if mon_class(k) == "RevertsJustified":
                why, how = HOW.get(k.rsplit(":", 1)[1], (None, None))
                if not any((why is None or f[1] == why) and (how is None or f[2] == how)
                           for f in v["flags"] if f[0] == "RevertsJustified"):
                    machinery(ctx, "verdict sources disagree on the cause of the unjustified revert in %s: %s vs %s"
                              % (t["name"], k, sorted(v["flags"])))
        agree += 1
    return agree


def record_and_validate(ctx, binary, payload, sw, label):
    tracefile = os.path.join(ctx.scratch, "c06-%s.ndjson" % label)
    payload = dict(payload, trace_out=tracefile)
    res = ctx.run_engine(binary, "TestSyncRecord", payload, timeout=1500)
    traces = res.get("stats", {}).pop("traces", None) or []
    if not traces and not res.get("divergences"):
        raise vlib.Broken("the recorder produced no trace")
    with open(tracefile) as f:
        lines = f.readlines()
    verdict = validate(ctx, lines, traces, sw, w=payload["gomaxprocs"])
    ctx.absorb(res, "sync", "TestSyncRecord")
    if res.get("stats", {}).get("runs_node_hung"):
        print("NOTE: the node hung after a violation was recorded; the remaining scenarios of this batch were not run", flush=True)
    agree = reconcile(ctx, traces, verdict)
    ctx.coverage["traces_tlc_accepted"] = ctx.coverage.get("traces_tlc_accepted", 0) + sum(
        1 for v in verdict.values() if v["accepted"])
    ctx.coverage["traces_tlc_rejected"] = ctx.coverage.get("traces_tlc_rejected", 0) + sum(
        1 for v in verdict.values() if not v["accepted"])
    ctx.coverage["traces_verdicts_agree"] = ctx.coverage.get("traces_verdicts_agree", 0) + agree
    return traces, verdict, lines


def expect_scripts(ctx, traces, sw):
    """A known finding whose script no longer reproduces it is not an error (the tree may have been repaired or
    changed around it): say so and let the remaining evidence decide."""
    fixed = {K_H13: sw["FixH13"], K_RVV: sw["FixRevertVerify"], K_UFL: sw["FixUnderflow"]}
    missing = []
    for t in traces:
        key = SCRIPT_KEYS.get(t["name"])
        if key is not None and not fixed[key] and key not in t["keys"]:
            missing.append(key)
            print("NOTE: known finding %s did not reproduce on this tree (script %s%s)" % (
                key, t["name"], ": " + t["note"] if t.get("note") else ""), flush=True)
    ctx.coverage["known_findings_not_reproduced"] = missing


def selftest(ctx, traces, lines, sw):
    """The binding must bite: (1) the repaired design must not be able to explain the H13 run;
    (2) an accepted run with one event altered / dropped must be rejected."""
    done = 0
    h13 = [t for t in traces if t["name"] == "h13-stale-successor" and K_H13 in t["keys"]]
    if h13:
        v = validate(ctx, lines, h13, dict(sw, FixH13=True))[h13[0]["tr"]]
        if v["accepted"] or v["event"]["ev"] not in ("Reverted", "Req"):
            raise vlib.Broken("selftest: the repaired design accepts the H13 run (%s)" % v)
        done += 1
    clean = [t for t in traces if not t["keys"] and t["name"].startswith("random")]
    for t in clean[:3]:
        seg = [json.loads(x) for x in lines[t["first"] - 1:t["last"]]]
        stores = [i for i, e in enumerate(seg) if e["ev"] == "Stored"]
        if len(stores) < 2:
            continue
        variants = []
        a = [dict(e) for e in seg]
        a[stores[1]]["tag"] = a[stores[0]]["tag"]                  # a store of another block
        variants.append(a)
        variants.append(seg[:stores[0]] + seg[stores[0] + 1:])      # a store that was never reported
        resp = [i for i, e in enumerate(seg) if e["ev"] == "Resp" and e["r"] == "ok"]
        variants.append(seg[:resp[0]] + seg[resp[0] + 1:])          # a block that was never served
        for var in variants:
            vl = [json.dumps(e) + "\n" for e in var]
            tt = {"tr": t["tr"], "name": t["name"] + "-mutated", "first": 1, "last": len(vl), "keys": []}
            v = validate(ctx, vl, [tt], sw)[t["tr"]]
            if v["accepted"]:
                raise vlib.Broken("selftest: a corrupted trace of %s was accepted" % t["name"])
            done += 1
    ctx.coverage["selftest_rejections"] = done


def expect_temporal(ctx, cfg, prop, label, timeout=1800):
    """TLC must find `prop` (a liveness property) violated.  tools/vlib.py's parser does not know this TLC
    version's wording ("Temporal property X was violated"), so the run is made here with ctx's own
    command line / scratch handling."""
    import subprocess
    import time
    d = ctx._tlc_dir("sync")
    workers = int(os.environ.get("VERIF_TLC_WORKERS", "16"))
    cmd = ctx._tlc_cmd(d) + ["-workers", str(workers), "-metadir", os.path.join(d, "md"), "-config", cfg, "MCSync.tla"]
    t = time.time()
    try:
        p = subprocess.run(cmd, cwd=d, capture_output=True, text=True, timeout=timeout)
    except subprocess.TimeoutExpired:
        raise vlib.Broken("TLC timeout on %s" % cfg)
    out = p.stdout + p.stderr
    res = vlib.parse_tlc(out)
    m = re.search(r"Error: Temporal property (\S+) was violated", out)
    if not m or m.group(1) != prop:
        raise vlib.Broken("%s: expected temporal property %s to be violated:\n%s" % (cfg, prop, "\n".join(out.splitlines()[-25:])))
    wall = round(time.time() - t, 1)
    ctx.tlc_runs.append({"label": label, "distinct": res["distinct"], "generated": res["generated"], "depth": res["depth"],
                         "wall_s": wall, "ok": False, "violated": prop})
    vlib.log("TLC %s: %s distinct / %s generated states, %.1fs VIOLATED %s (as expected)" % (
        label, res["distinct"], res["generated"], wall, prop))
    import shutil
    shutil.rmtree(d, ignore_errors=True)


def run(ctx):
    binary = ctx.build_engine("sync")
    sw = switches(ctx)

    if ctx.replay:
        with open(ctx.replay) as f:
            rp = json.load(f)
        record_and_validate(ctx, binary, rp["input"], sw, "replay")
        return ctx.finish("model_checking", "replay of one recorded run (same blocks, same source decisions)")

    thorough = not ctx.quick()
    b = lambda v: "TRUE" if v else "FALSE"

    # ---- 1. the design: repaired must hold; as coded must fail in exactly the known way
    design = not os.environ.get("VERIF_C06_SKIP_DESIGN")      # development aid for mutation runs
    if design:
        # the three quick configurations are independent: run them side by side
        from concurrent.futures import ThreadPoolExecutor
        with ThreadPoolExecutor(max_workers=3) as pool:
            f1 = pool.submit(ctx.tlc_check, "sync", "MCSync.tla", "Sync_quick.cfg", timeout=900,
                             label="repaired: safety+liveness (chain<=3)")
            f2 = pool.submit(ctx.tlc_check, "sync", "MCSync.tla", "Sync_restart.cfg", timeout=900,
                             label="repaired, one stop/restart of the node: safety+liveness+RestartIsNoOp")
            def expected_violations():           # three short runs, one after the other on the third lane
                r3 = ctx.tlc_check("sync", "MCSync.tla", "Sync_h13.cfg", timeout=900, expect_violation=True,
                                   label="as coded (H13): RevertsJustified must fail")
                # self-tests of StoredOnlyVerified ("what the database holds is the source's block"): with one of
                # the two mechanisms between a faulty answer and the database switched off, TLC must find a forged /
                # altered block in the database (the histories the directed scenarios reproduce on the code)
                r4 = ctx.tlc_check("sync", "MCSync.tla", "Sync_x_emptyroot.cfg", timeout=900, expect_violation=True,
                                   label="root checks skipped for blocks without diff entries: StoredOnlyVerified must fail")
                r5 = ctx.tlc_check("sync", "MCSync.tla", "Sync_x_memo.cfg", timeout=900, expect_violation=True,
                                   label="verdict remembered by claimed hash: StoredOnlyVerified must fail")
                return r3, r4, r5
            f3 = pool.submit(expected_violations)
            f1.result()
            f2.result()
            r, r4, r5 = f3.result()
            for rx, what in ((r4, "root checks skipped on empty diffs"), (r5, "verdict remembered by claimed hash")):
                if rx["violated"] != "StoredOnlyVerified":
                    raise vlib.Broken("the model with %s does not violate StoredOnlyVerified (got %s)" % (what, rx["violated"]))
        if r["violated"] != "RevertsJustified":
            raise vlib.Broken("the faithful model no longer exhibits H13 (got %s)" % r["violated"])
    if thorough and design:
        r = ctx.tlc_check("sync", "MCSync.tla", "Sync_rvv.cfg", timeout=1800, expect_violation=True,
                          label="as coded (unverified remote header): RevertsJustified must fail")
        if r["violated"] != "RevertsJustified":
            raise vlib.Broken("the faithful model no longer exhibits the corrupt-remote-header revert (got %s)" % r["violated"])
        expect_temporal(ctx, "Sync_underflow.cfg", "EventuallyConverges",
                        "as coded (remoteHeight-1 underflow): convergence must fail")
        # vacuity: every action is taken.  RevertBreak (revert loop on an empty chain) is defensive code, unreachable
        # in the repaired design; the Check / Ack / Post / End / Apply steps exist only with Fine = TRUE; stop and
        # restart of the node only with MaxRestarts > 0 (Sync_restart.cfg).  These runs depend on the specification
        # only, never on the tree under test, so they cannot turn a violation of the code into exit 2.
        r = ctx.tlc_check("sync", "MCSync.tla", "Sync_live4.cfg", timeout=1800, coverage=True,
                          label="repaired: safety+liveness (chain<=4)")
        vlib.require_actions_covered(r, ignore=("RevertBreak", "StoreCheck", "StoreAck", "StorePost", "RevertAck", "RevertEnd",
                                                "PollApply", "Shutdown", "NodeRestart"))
        r = ctx.tlc_check("sync", "MCSync.tla", "Sync_fine.cfg", timeout=1800, coverage=True,
                          label="repaired, fine-grained steps: safety+liveness")
        vlib.require_actions_covered(r, ignore=("RevertBreak", "SrcExtend", "Shutdown", "NodeRestart"))   # chain = 3 = MaxLen
        r = ctx.tlc_check("sync", "MCSync.tla", "Sync_restart.cfg", timeout=1800, coverage=True,
                          label="repaired, one stop/restart (coverage)")
        zero = [a for a, c in r.get("coverage", {}).items() if a.split(".")[1] in ("Shutdown", "NodeRestart") and c["taken"] == 0]
        if zero:
            raise vlib.Broken("vacuity: %s never taken in Sync_restart.cfg" % zero)
        ctx.tlc_check("sync", "MCSync.tla", "Sync_lagw.cfg", timeout=1800, label="repaired, Lag=W as in the code (chain 5): safety")
        ctx.tlc_check("sync", "MCSync.tla", "Sync_faults2.cfg", timeout=1800, label="repaired: safety, chain<=4, 1 source step, 2 faults")
        ctx.tlc_check("sync", "MCSync.tla", "Sync_thorough.cfg", timeout=3000,
                      label="repaired: safety, chain<=4, 2 source steps, 1 fault")
        if os.environ.get("VERIF_C06_BIG"):
            ctx.tlc_check("sync", "MCSync.tla", "Sync_big.cfg", timeout=7200,
                          label="repaired: safety, chain<=4, 2 source steps, 2 faults")

    # ---- 2. the code: record runs of the real Synchronizer, judge them twice
    n = int(os.environ.get("VERIF_C06_RUNS", "0")) or (40 if not thorough else 260)
    traces, verdict, lines = record_and_validate(
        ctx, binary, {"gomaxprocs": GOMAXPROCS, "scenarios": SCRIPTS, "random": {"n": n, "seed": ctx.seed}}, sw, "p2")
    expect_scripts(ctx, traces, sw)
    if thorough:
        record_and_validate(ctx, binary, {"gomaxprocs": 3, "scenarios": [], "random": {"n": 120, "seed": ctx.seed + 7777}}, sw, "p3")
        try:                                  # after every divergence has been absorbed: cannot mask a violation
            selftest(ctx, traces, lines, sw)
        except vlib.Broken as e:
            machinery(ctx, str(e))

    if not ctx.violations:
        # feed/feed.go carries the new-head and reorg notifications of this property (Feed.tla, G01)
        ctx.include("G01", why="feed/feed.go: the one-slot lossy broadcast behind new-head / reorg notifications")
    ctx.assumptions += [
        "the source never returns to a block it abandoned (a reorg always produces new blocks), and an answer is computed "
        "at a version that was current at some moment between the request and its delivery",
        "a source call whose context is cancelled fails (as the feeder client does)",
        "stale latest-header answers are heights of the answering version's own chain",
        "wrong-height and forged (re-sealed state diff / re-sealed new root / wrong old root) answers are given to the fetch pipeline only; the revert loop "
        "is answered honestly, with an error or with a corrupted copy (a wrong-height answer there would be one more "
        "instance of the known unverified-remote-header defect)",
        "goroutine scheduling inside the node between two source calls is whatever the Go runtime did in the recorded "
        "runs (GOMAXPROCS 2 and 3); the specification's exhaustive exploration covers all of it only at design level",
        "design switches in effect: " + ", ".join("%s=%s" % (k, b(v)) for k, v in sorted(sw.items())),
    ]
    return ctx.finish(
        "model_checking",
        "exhaustive TLC on Sync.tla (chain <= 3/4/5 blocks, <= 2 source steps incl. whole-chain reorgs, 2 fetch workers, "
        "<= 2 injected faults; safety as action properties, convergence under per-action weak fairness, no state "
        "constraint) + recorded runs of the real Synchronizer (3 scripted defect reproductions + seeded random source "
        "scripts: chains of 3-14 blocks, 0-3 source steps, errors / corrupt blocks / forged blocks with a re-sealed state diff / valid blocks of another height / stale heads / late answers; block formats 0.13.1-0.14.1), each "
        "validated by TLC against SyncTrace.tla and by the property monitors; block shapes full / multi / empty / emptydiff / "
        "nonce-only / declare-only; answers chosen per request (a re-fetched block is a favourite target for altered content "
        "under the honest header); directed scenarios: every forgery kind x every shape x first / middle / tip height x both "
        "state backends, and re-fetch after a stream reset (4 causes) answered with altered content under the honest hash "
        "(6 kinds); every stored block is read back at store time and re-verified independently (recomputed hash and "
        "commitments, content = the source's block, state tries re-hashed = the honest root); a run is non-trivial when it contains a "
        "source step or a revert (counted in runs_with_source_steps / runs_with_reverts)")

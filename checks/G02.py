"""G02 (specification growth, not a listed property) — the COMPOSED NODE (spec/node/Node.tla).

The sync pipeline, the L1 client's head, the pruner service and the pre-confirmed view share ONE chain;
the cross-component properties are
  P1  retention bound: nothing at or above min(L1 head, local head) - Retained is deleted and the in-memory
      floor stays below it, also when the head moves DOWN after the floor was raised;
  P2  a revert never needs a block below the floor (under the stated environment assumptions; what the code
      does otherwise is modelled — RevertHead fails, sync.revertTask spins — and reproduced by scripts);
  P3  every block from the oldest retained one up stays fully readable (vs an UNPRUNED twin) in any
      interleaving of stores, reverts and prune batches; served state history is reconstructible;
  P4  the pre-confirmed view handed out sits on a head the node had during the call; the head's state is servable;
  P5  under fairness the node converges; a prune trigger that is delivered is honoured.

TLC (design level): exhaustive on Node.tla with both environment assumptions (safety P1-P4, liveness P5),
plus expected-violation runs: without AssumeSlowL1 (the hypotheses the scripts reproduce), and the strong
form of P5 ("the floor always catches up with the head"), which the lossy keep-first feeds do not give.

Binding: TRACE VALIDATION of the real components wired as node/node.go wires them (harness/engines/node):
every recorded run is judged (a) by the Go monitors, which evaluate P1/P3/P4 on the real node at every sample,
and (b) by TLC against NodeTrace.tla, which evaluates the same predicates on the model.  Both verdicts must
agree; a disagreement is a broken check, not a verdict.  Run with ./check G02; not registered in MANIFEST.json.
"""
import json
import os
import re

import vlib

GOMAXPROCS = 4

# deterministic scripts run in every tier ----------------------------------------------------------------------
# 1. hypotheses reproduced on the real code: they BREAK the environment assumption AssumeSlowL1 (L1 announces a head
#    while the node still holds blocks / events of an abandoned fork) and are therefore reported as OBSERVATIONS (or
#    KNOWN-FINDING when listed), never as verdicts
K_STUCK = "node:no-convergence:revert-below-retention-floor"
K_HEADPRUNED = "node:head-block-pruned"
UNSAFE_SCRIPTS = [
    {"name": "l1-head-on-other-fork", "seed": 21, "mode": "script", "new_state": False, "init_len": 5, "retained": 0,
     "l2_per_prune": 1, "plan": [{"drop": 3, "add": 3}], "unsafe": True,
     "decisions": [
         {"op": "sync", "len": 5}, {"op": "drain"}, {"op": "sample"},
         {"op": "src"},                      # the source reorganises heights 2..4; the node has not noticed yet
         {"op": "l1", "n": 3},               # L1 finalises height 3 OF THE NEW FORK: l1 (3) < local head (4)
         {"op": "drain"}, {"op": "sample"},  # onNewL1Head: keep-from 3: the node's fork blocks 0..2 are deleted
     ]},                                     # stable phase: reverts 4, 3; RevertHead(2) fails for ever
    {"name": "l1-head-on-other-fork-retained1", "seed": 23, "mode": "script", "new_state": False, "init_len": 6,
     "retained": 1, "l2_per_prune": 1, "big_batch": True, "plan": [{"drop": 4, "add": 4}], "unsafe": True,
     "decisions": [
         {"op": "sync", "len": 6}, {"op": "drain"}, {"op": "src"}, {"op": "l1", "n": 4}, {"op": "drain"}, {"op": "sample"},
     ]},
    {"name": "stale-head-event-l1-ahead", "seed": 22, "mode": "script", "new_state": False, "init_len": 3, "retained": 0,
     "l2_per_prune": 1, "plan": [{"drop": 1, "add": 3}], "unsafe": True,
     "decisions": [
         {"op": "sync", "len": 2}, {"op": "drain"},
         {"op": "sync", "len": 3, "hold": True},          # the pruner sits in onNewBlock(block 2) at its first read
         {"op": "src"},                                   # block 2 is replaced
         {"op": "ans", "kind": "block", "h": 3}, {"op": "wait", "len": 2},   # the node reverts block 2: head 1
         {"op": "l1", "n": 3},                            # L1 finalises height 3 of the new fork
         {"op": "pr", "kind": "read", "handler": "head"},  # stale event: l1 3 > 2 -> keep-from 2 > head 1
         {"op": "pr", "kind": "batch"}, {"op": "pr", "kind": "batch"}, {"op": "pr", "kind": "batch"}, {"op": "sample"},
     ]},
]
UNSAFE_EXPECT = {"l1-head-on-other-fork": K_STUCK, "l1-head-on-other-fork-retained1": K_STUCK,
                 "stale-head-event-l1-ahead": K_HEADPRUNED}
# symptoms that come with the primary finding of a hypothesis script (folded into its report)
UNSAFE_COMPANIONS = {"P1d", "P1m", "P2h", "Stuck", "Converges"}

# 2. assumption-respecting scripts that pin down interleavings random runs reach only sometimes
SAFE_SCRIPTS = [
    # a prune decided from the L1 head is held at its batch gates while the source reorganises above the L1 head and
    # the node reverts and re-stores: the batches then run against the new chain
    {"name": "reorg-above-l1-while-prune-in-flight", "seed": 31, "mode": "script", "new_state": False, "init_len": 7,
     "retained": 1, "l2_per_prune": 1, "plan": [{"drop": 2, "add": 3}],
     "decisions": [
         {"op": "sync", "len": 7}, {"op": "drain"}, {"op": "l1", "n": 4},
         {"op": "pr", "kind": "read", "handler": "l1"}, {"op": "pr", "kind": "batch"},   # keep-from 3: block 0 gone
         {"op": "src"}, {"op": "sync", "len": 8, "hold": True}, {"op": "sample"}, {"op": "view"},
         {"op": "drain"}, {"op": "sample"},
     ]},
    # L1 runs ahead of the local head (catch-up): the head path anchors on the local head
    {"name": "l1-ahead-catch-up", "seed": 32, "mode": "script", "new_state": True, "init_len": 8, "retained": 2,
     "l2_per_prune": 1, "big_batch": True, "plan": [{"drop": 0, "add": 2}],
     "decisions": [
         {"op": "sync", "len": 3}, {"op": "drain"}, {"op": "l1", "n": 6}, {"op": "sync", "len": 6}, {"op": "sample"},
         {"op": "restart"}, {"op": "sample"}, {"op": "src"}, {"op": "sync", "len": 10}, {"op": "drain"}, {"op": "sample"},
     ]},
    # deep reorg (down to block 1) after pruning with a large retained window; restart in the middle
    {"name": "deep-reorg-after-prune", "seed": 33, "mode": "script", "new_state": False, "init_len": 9, "retained": 2,
     "l2_per_prune": 2, "plan": [{"drop": 5, "add": 6}],
     "decisions": [
         {"op": "sync", "len": 9}, {"op": "l1", "n": 3}, {"op": "drain"}, {"op": "sample"},
         {"op": "src"}, {"op": "sync", "len": 6, "hold": True}, {"op": "sample"}, {"op": "restart"},
         {"op": "sync", "len": 10}, {"op": "drain"}, {"op": "sample"}, {"op": "view"},
     ]},
]

ENV_EVENTS = ("Reset", "Src", "L1Call", "Restart")

CLASS_OF = [
    ("node:floor-above-retention-bound:durable", "P1d"), ("node:floor-above-retention-bound:memory", "P1m"),
    ("node:head-block-pruned", "P2h"), ("node:head-state-below-floor", "P4b"),
    ("node:state-served-below-pruned-history", "P3s"),
    ("node:no-convergence:revert-below-retention-floor", "Stuck"), ("node:no-convergence:", "Converges"),
    ("node:final-floor-not-reached", "FinalFloor"), ("sync:revert-of-block-source-still-has", "Unjustified"),
]


def key_class(key):
    for prefix, cls in CLASS_OF:
        if key.startswith(prefix):
            return cls
    return "other"        # read comparisons etc.: only the Go monitors can see them


def trace_cfg(retained, l2pp):
    return ("CONSTANTS\n  InitLen = 1\n  MaxLen = 1000\n  MaxTag = 1000\n  MaxReorgs = 1000\n  MaxL1 = 1000\n"
            "  MaxRestarts = 1000\n  MaxViews = 1000\n  Retained = %d\n  Lag = 10\n  L2PerPrune = %d\n"
            "  AssumeFinality = FALSE\n  AssumeSlowL1 = FALSE\n  FixHashChecks = FALSE\n"
            "INIT TraceInit\nNEXT TraceNext\nCONSTRAINT TraceConstraint\nPOSTCONDITION TraceAccepted\nCHECK_DEADLOCK FALSE\n"
            % (retained, l2pp))


_ACC = re.compile(r'<<\s*"ACCEPT",\s*(\d+),\s*(\{.*?\})\s*>>', re.S)
_HW = re.compile(r'<<\s*"HIGHWATER",\s*(\d+)\s*>>')


def validate(ctx, lines, traces, timeout=1500):
    """TLC-validate the traces, grouped by (Retained, L2PerPrune) — scalar CONSTANTS of the specification.
    Returns {tr: {"accepted", "flags", "event", "at"}}."""
    verdict = {}
    groups = {}
    for t in traces:
        first = json.loads(lines[t["first"] - 1])
        groups.setdefault((first["retained"], first["l2pp"]), []).append(t)
    for (retained, l2pp), todo in sorted(groups.items()):
        while todo:
            path = os.path.join(ctx.scratch, "g02-trace-%d.ndjson" % len(verdict))
            offs, n = [], 0
            with open(path, "w") as f:
                for t in todo:
                    seg = lines[t["first"] - 1:t["last"]]
                    offs.append((n + 1, n + len(seg), t))
                    n += len(seg)
                    f.write("".join(seg))
            ok, res = ctx.tlc_trace("node", "NodeTrace.tla", "NodeTrace_run.cfg", path, timeout=timeout,
                                    files={"NodeTrace_run.cfg": trace_cfg(retained, l2pp)})
            out = res["out"]
            flagsets = {}
            for m in _ACC.finditer(out):
                flagsets.setdefault(int(m.group(1)), []).append(frozenset(re.findall(r'"(\w+)"', m.group(2))))
            hw = _HW.search(out)
            if not ok and not hw:
                raise vlib.Broken("trace validation failed without a verdict:\n" + "\n".join(out.splitlines()[-30:]))
            stop = int(hw.group(1)) if hw else n + 1
            rest = []
            for lo, hi, t in offs:
                if hi < stop:
                    fs = flagsets.get(t["tr"])
                    if not fs:
                        raise vlib.Broken("trace %s consumed by TLC but no ACCEPT line was printed" % t["name"])
                    # the flags depend on observable steps only; should interleavings differ, the most benign counts
                    verdict[t["tr"]] = {"accepted": True, "flags": set(min(fs, key=len)), "event": None}
                elif lo <= stop <= hi:
                    ev = json.loads(lines[t["first"] - 1 + (stop - lo)])
                    verdict[t["tr"]] = {"accepted": False, "flags": set(), "event": ev, "at": stop - lo + 1}
                else:
                    rest.append(t)
            todo = rest
    return verdict


def known_for(ctx):
    """Findings already listed for the components (C06 sync:*, C16 min-age:*) keep their keys when they show up in
    the composition; until G02 entries exist they are matched against the components' entries."""
    ks = list(ctx.known)
    for prop, prefix in (("C06", "sync:"), ("C16", "min-age:")):
        ks += [k for k in vlib.load_known(prop) if k["key"].startswith(prefix)]
    return ks


def report(ctx, t, key, what, unsafe):
    """Safe runs: a finding is a verdict (VIOLATION unless listed as known).  Scripts that break a STATED environment
    assumption on purpose: the finding gets the script's name appended to its key (so that listing it as known can never
    hide the same symptom in an assumption-respecting run) and is printed as KNOWN-FINDING when listed, else as an
    OBSERVATION — never as a verdict."""
    if unsafe:
        key = "%s:%s" % (key, t["name"])
    robj = {"property": ctx.prop, "engine": "node", "test": "TestNodeRecord", "seed": ctx.seed,
            "input": t["replay"], "divergence": {"key": key, "what": what}}
    for k in known_for(ctx):
        if k["status"] == "known" and vlib.key_matches(k["key"], key):
            if k["key"] not in [h["key"] for h in ctx.known_hits]:
                ctx.known_hits.append({"key": k["key"], "what": k["what"]})
            return
    if unsafe:
        obs = ctx.coverage.setdefault("observations_outside_assumptions", [])
        if key not in obs:
            obs.append(key)
            print("OBSERVATION: property=%s outside AssumeSlowL1: %s [%s]" % (ctx.prop, what, key), flush=True)
        return
    ctx.report(key, what, robj)


def reconcile(ctx, traces, verdict, divs):
    """Both verdict sources must agree per trace; TLC-only rejections become violations of their own."""
    what_of = {}
    for d in divs:
        what_of.setdefault(d["key"], d["what"])
        m = re.search(r"\[scenario ([^\]]+)\]$", d["what"])
        if m:
            what_of.setdefault((d["key"], m.group(1)), d["what"])
    agree = 0
    for t in traces:
        v = verdict[t["tr"]]
        mon = set(t["keys"])
        if not v["accepted"]:
            ev = v["event"]
            if ev["ev"] in ENV_EVENTS:
                raise vlib.Broken("TLC rejects environment event %s of trace %s: the recorder's environment is not the "
                                  "specification's: %s" % (ev["ev"], t["name"], json.dumps(ev)))
            if not mon:
                key = "node:design-has-no-explanation:" + ev["ev"]
                report(ctx, t, key, "trace %s: the specification cannot take the recorded step #%d %s (no placement of the "
                       "silent steps — feed sends, pruner receives, floor raise — explains it)" % (t["name"], v["at"], json.dumps(ev)),
                       t.get("unsafe", False))
            for k in mon:
                report(ctx, t, k, what_of.get((k, t["name"]), what_of.get(k, k)), t.get("unsafe", False))
            agree += 1
            continue
        want = {key_class(k) for k in mon} - {"other"}
        have = set(v["flags"])
        if want != have:
            raise vlib.Broken("verdict sources disagree on trace %s: monitors %s, TLC accepted with flags %s"
                              % (t["name"], sorted(mon), sorted(have)))
        primary = UNSAFE_EXPECT.get(t["name"]) if t.get("unsafe") else None
        if primary in mon:
            also = sorted(k for k in mon if k != primary and key_class(k) in UNSAFE_COMPANIONS)
            report(ctx, t, primary, what_of.get((primary, t["name"]), primary) + (" (with: %s)" % ", ".join(also) if also else ""), True)
            mon = {k for k in mon if k != primary and k not in also}
        for k in mon:
            report(ctx, t, k, what_of.get((k, t["name"]), what_of.get(k, k)), t.get("unsafe", False))
        agree += 1
    return agree


def record_and_validate(ctx, binary, payload, label):
    tracefile = os.path.join(ctx.scratch, "g02-%s.ndjson" % label)
    payload = dict(payload, trace_out=tracefile)
    res = ctx.run_engine(binary, "TestNodeRecord", payload, timeout=1500)
    traces = res.get("stats", {}).pop("traces", [])
    if not traces:
        raise vlib.Broken("the recorder produced no trace")
    with open(tracefile) as f:
        lines = f.readlines()
    verdict = validate(ctx, lines, traces)
    divs = res.pop("divergences", None) or []
    res["divergences"] = []
    ctx.absorb(res, "node", "TestNodeRecord")
    agree = reconcile(ctx, traces, verdict, divs)
    for k, fn in (("traces_tlc_accepted", lambda v: v["accepted"]), ("traces_tlc_rejected", lambda v: not v["accepted"])):
        ctx.coverage[k] = ctx.coverage.get(k, 0) + sum(1 for v in verdict.values() if fn(v))
    ctx.coverage["traces_verdicts_agree"] = ctx.coverage.get("traces_verdicts_agree", 0) + agree
    return traces, verdict, lines


def expect_unsafe(ctx, traces):
    missing = []
    for t in traces:
        key = UNSAFE_EXPECT.get(t["name"])
        if key is not None and key not in t["keys"]:
            missing.append(t["name"])
            print("NOTE: hypothesis script %s did not reproduce %s on this tree%s" % (
                t["name"], key, ": " + t["note"] if t.get("note") else ""), flush=True)
    ctx.coverage["hypothesis_scripts_not_reproduced"] = missing


def selftest(ctx, traces, verdict, lines):
    """The binding must bite: an accepted run with one event altered / dropped must be rejected."""
    done = 0
    clean = [t for t in traces if not t["keys"] and verdict[t["tr"]]["accepted"]]
    for t in clean:
        if done >= 9:
            break
        seg = [json.loads(x) for x in lines[t["first"] - 1:t["last"]]]
        pruned = [i for i, e in enumerate(seg) if e["ev"] == "Pruned"]
        stores = [i for i, e in enumerate(seg) if e["ev"] == "Stored"]
        samples = [i for i, e in enumerate(seg) if e["ev"] == "Sample" and e["below"] > 0]
        if not pruned or len(stores) < 2 or not samples:
            continue
        variants = []
        a = [dict(e) for e in seg]
        a[pruned[-1]]["to"] += 1                                     # one block more than keep-from was deleted
        for e in a[pruned[-1] + 1:]:
            if e["ev"] in ("Sample", "End") and e["below"] == a[pruned[-1]]["to"] - 1:
                e["below"] += 1
        variants.append(a)
        variants.append(seg[:pruned[0]] + seg[pruned[0] + 1:])        # a deletion nobody reported
        b = [dict(e) for e in seg]
        b[samples[-1]]["mem"] += 1                                   # the in-memory floor above what was decided
        variants.append(b)
        for var in variants:
            vl = [json.dumps(e) + "\n" for e in var]
            tt = {"tr": t["tr"], "name": t["name"] + "-mutated", "first": 1, "last": len(vl), "keys": []}
            v = validate(ctx, vl, [tt])[t["tr"]]
            if v["accepted"] and not v["flags"]:
                raise vlib.Broken("selftest: a corrupted trace of %s was accepted" % t["name"])
            done += 1
    if done == 0 and not ctx.violations:
        # (with violations reported every trace may be dirty: the verdict comes from them, not from the selftest)
        raise vlib.Broken("selftest: no clean trace with pruning to corrupt")
    ctx.coverage["selftest_rejections"] = done


def expect_temporal(ctx, cfg, prop, label, timeout=1800):
    """TLC must find the liveness property `prop` violated (tools/vlib.py does not parse this TLC version's wording)."""
    import shutil
    import subprocess
    import time
    d = ctx._tlc_dir("node")
    workers = int(os.environ.get("VERIF_TLC_WORKERS", "16"))
    cmd = ctx._tlc_cmd(d) + ["-workers", str(workers), "-metadir", os.path.join(d, "md"), "-config", cfg, "MCNode.tla"]
    t = time.time()
    try:
        p = subprocess.run(cmd, cwd=d, capture_output=True, text=True, timeout=timeout)
    except subprocess.TimeoutExpired:
        raise vlib.Broken("TLC timeout on %s" % cfg)
    out = p.stdout + p.stderr
    res = vlib.parse_tlc(out)
    m = re.search(r"Error: Temporal property (\S+) was violated", out)
    if not (m and m.group(1) == prop) and "Temporal properties were violated" not in out:
        raise vlib.Broken("%s: expected temporal property %s to be violated:\n%s" % (cfg, prop, "\n".join(out.splitlines()[-25:])))
    wall = round(time.time() - t, 1)
    ctx.tlc_runs.append({"label": label, "distinct": res["distinct"], "generated": res["generated"], "depth": res["depth"],
                         "wall_s": wall, "ok": False, "violated": prop})
    vlib.log("TLC %s: %s distinct / %s generated states, %.1fs VIOLATED %s (as expected)" % (
        label, res["distinct"], res["generated"], wall, prop))
    shutil.rmtree(d, ignore_errors=True)


def expect_invariant(ctx, cfg, allowed, label, timeout=1800):
    r = ctx.tlc_check("node", "MCNode.tla", cfg, timeout=timeout, expect_violation=True, label=label)
    if r["violated"] not in allowed:
        raise vlib.Broken("%s: expected one of %s to be violated, got %s" % (cfg, allowed, r["violated"]))
    return r


def run(ctx):
    binary = ctx.build_engine("node")

    if ctx.replay:
        with open(ctx.replay) as f:
            rp = json.load(f)
        record_and_validate(ctx, binary, rp["input"], "replay")
        return ctx.finish("model_checking", "replay of one recorded run (same blocks, same scheduler decisions)")

    thorough = not ctx.quick()
    design = not os.environ.get("VERIF_G02_SKIP_DESIGN")      # development aid for mutation runs

    # ---- 1. the design
    if design:
        ctx.tlc_check("node", "MCNode.tla", "Node_quick.cfg", timeout=900,
                      label="assumptions on: P1-P4 + convergence, chain<=3, Retained 0")
        ctx.tlc_check("node", "MCNode.tla", "Node_safety4.cfg", timeout=900,
                      label="assumptions on: P1-P4, chain<=4, Retained 1, 2 L1 heads, 1 reorg")
        expect_invariant(ctx, "Node_race_stuck.cfg", ("P2_NeverStuck",),
                         "without AssumeSlowL1: sync gets stuck below the floor (hypothesis, reproduced by script)")
        expect_invariant(ctx, "Node_race_head.cfg", ("P2_HeadRetained", "P1_KeepMax", "P1_DurableFloor", "P1_MemFloor"),
                         "without AssumeSlowL1: floor above the head (hypothesis, reproduced by script)")
    if thorough and design:
        r = ctx.tlc_check("node", "MCNode.tla", "Node_cover.cfg", timeout=1800, coverage=True,
                          label="assumptions on, restart + view, chain<=3: safety + action coverage")
        vlib.require_actions_covered(r, ignore=("PruneError",))       # unreachable under the assumptions (P2_NoPruneError)
        for w in ("W_PruneWhileBehind", "W_RevertAfterPrune", "W_L1AheadOfHead"):
            expect_invariant(ctx, "Node_witness_%s.cfg" % w[2:].lower(), (w,), "vacuity witness " + w)
        expect_invariant(ctx, "Node_hashfix_stuck.cfg", ("P2_NeverStuck",),
                         "without AssumeSlowL1, candidate repair FixHashChecks: the catch-up path still gets stuck")
        expect_temporal(ctx, "Node_floorlag.cfg", "P5_FloorCatchesUp",
                        "strong P5 (floor always catches up) fails: lossy keep-first feeds, l1 = head blind spot")
        ctx.tlc_check("node", "MCNode.tla", "Node_live4.cfg", timeout=1800,
                      label="assumptions on: safety + liveness, chain<=4, Retained 1, L2PerPrune 2")
        ctx.tlc_check("node", "MCNode.tla", "Node_lag1.cfg", timeout=1800,
                      label="assumptions on: safety with the header carve-out Lag = 1, chain<=4")
        ctx.tlc_check("node", "MCNode.tla", "Node_thorough.cfg", timeout=3000,
                      label="assumptions on: P1-P4, chain<=5, Retained 2, 2 reorgs, 2 L1 heads, 1 restart")

    # ---- 2. the code
    n = int(os.environ.get("VERIF_G02_RUNS", "0")) or (36 if not thorough else 240)
    traces, verdict, lines = record_and_validate(
        ctx, binary, {"gomaxprocs": GOMAXPROCS, "scenarios": UNSAFE_SCRIPTS + SAFE_SCRIPTS,
                      "random": {"n": n, "seed": ctx.seed}}, "p4")
    expect_unsafe(ctx, traces)
    selftest(ctx, traces, verdict, lines)
    if thorough:
        record_and_validate(ctx, binary, {"gomaxprocs": 2, "scenarios": [], "random": {"n": 120, "seed": ctx.seed + 7777}}, "p2")

    ctx.assumptions += [
        "AssumeFinality: the source never reorganises a height L1 has announced as final",
        "AssumeSlowL1: when L1 announces a head the node holds nothing of an abandoned fork (local chain, blocks in the "
        "sync pipeline, pending or in-flight new-head events of the pruner); random runs enforce it (stack inspection of "
        "the pruner goroutine, channel length of its subscription, pipeline bookkeeping), three scripts break it on purpose",
        "the source answers honestly and up to date (faulty / stale answers are C06's subject); --prune-min-age is 0",
        "prune batches are atomic (C05/C16) and modelled as read-and-delete in one step",
        "goroutine scheduling between the gates (source answers, pruner first read, prune batch writes, L1 calls) is "
        "whatever the Go runtime did in the recorded runs; exhaustive interleaving only at design level",
    ]
    return ctx.finish(
        "model_checking",
        "exhaustive TLC on Node.tla (chain <= 3/4/5 blocks, Retained 0/1/2, <= 2 reorgs of any depth, <= 2 L1 heads, "
        "restart, view; P1-P4 as invariants / action properties, P5 under per-action weak fairness, no state constraint; "
        "expected-violation runs without AssumeSlowL1 and for the strong form of P5) + recorded runs of the real "
        "Blockchain + Synchronizer + Pruner + scripted L1 client on one store (3 hypothesis scripts, 3 pinned interleavings, "
        "seeded random schedules: chains of 3-12 blocks, 1-3 source steps, Retained 0-2, 1-block or single prune batches, "
        "restarts), each validated by TLC against NodeTrace.tla and by the Go monitors against an unpruned twin; a run is "
        "non-trivial when it prunes and reverts (runs_with_pruning, runs_with_reverts, runs_with_revert_after_prune, "
        "runs_with_revert_while_prune_in_flight)")

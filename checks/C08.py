"""C08 — JSON-RPC read methods answer from the chain the node actually holds (spec/chain/RpcRead.tla).

TLC: exhaustive check that the handlers' way of answering (bucket lookups by number / hash /
height / L1 head / tx-hash index, as the code does them) equals the declarative definition
"the data of Resolve(id) in the current chain, an error exactly when the item is absent,
finality from the recorded L1 head" — for the code as it is (two known deviations excepted)
and for the repaired design (no exception).
Binding: TLC-simulated behaviours (Store / RevertHead / fork / SetL1Head interleaved with reads
for every identifier kind) are replayed through jsonrpc.Server.HandleReader with the real
v0.8 / v0.9 / v0.10 method tables on a real Blockchain (both state backends); every JSON
response is projected onto the abstract result and compared with the property's demand, and the
three API versions are compared with each other on all fields they share.
The v0.10 response flags are a request dimension of the model (parameter omitted / empty list / the
method's flag / ill-formed): starknet_getStorageAt with INCLUDE_LAST_UPDATE_BLOCK must report the last
block at or before the requested one whose state diff writes the slot (per-slot write history of the
abstract chain incl. clearing writes, re-writes of the same value and zero written to a zero slot; the
model keeps the history keys both state backends log and TLC checks the seek against the declarative
definition; an independent harness-side oracle recomputes it from the stored state updates), the
transaction / block methods with INCLUDE_PROOF_FACTS must show proof_facts exactly on INVOKE objects.
v0.8 / v0.9 get the same request without the parameter and must agree on the shared fields.
What a reverted block leaves behind: the model keeps the history buckets of both state backends (entries per
state-diff section, deployment and declaration heights) and answers the state methods from them; besides the
base alphabet there is one scenario per state-diff section IN ISOLATION (storage overwrite / clearing / zero
onto zero, nonce only, replace_class only, deploy only, deploy + nonce, declare Cairo-0 / Sierra, migrated
compiled class) whose three block variants (S for target 1 / S for target 2 / empty diff) make every fork
shape a chain. Residue switches "Revert leaves section S's entries behind" (RpcRead_x_*.cfg) must each be
refuted by TLC; their counterexamples and a depth-first walk over every chain of every scenario are replayed
as directed scripts on both state backends and the three API versions in every run, the replayer reading
every height by number and hash after every mutator against the fold of the stored state updates.
"""
import concurrent.futures
import json
import os
import re
import vlib

FAMILY = "chain"
ENGINE = "rpcread"
TEST = "TestRpcReadReplay"
STEPS = 48  # MaxSteps in RpcRead_sim.cfg
MAXLEN = 4  # MaxLen in RpcRead_sim.cfg (HugeNum = MAXLEN + 1 stands for 2^64-1)
METHODS = ["blockNumber", "blockHashAndNumber", "getBlockWithTxHashes", "getBlockWithTxs", "getBlockWithReceipts",
           "getBlockTransactionCount", "getStateUpdate", "getTransactionByHash", "getTransactionReceipt",
           "getTransactionStatus", "getTransactionByBlockIdAndIndex", "getStorageAt", "getNonce", "getClassHashAt",
           "getClassAt", "getClass"]
ERRORS = ["BlockNotFound", "TxnHashNotFound", "InvalidTxnIndex", "ContractNotFound", "ClassHashNotFound", "NoBlocks",
          "InvalidParams"]


def shape_counts(behaviours):
    """How many generated behaviours reach the interesting regions (measured, for the evidence)."""
    forked = l1_above = l1_at = l1_below = emptied = deep = 0
    for b in behaviours:
        seen_revert = fork = above = at = below = empty_after = False
        for s in b:
            n = s["a"]["name"]
            if n == "Revert" or (n == "ReadDuring" and any(m["name"] == "Revert" for m in s["a"]["muts"])):
                seen_revert = True
                empty_after = empty_after or not s["chain"]
            elif n == "Store" and seen_revert:
                fork = True
            if n not in ("Store", "Revert", "SetL1Head", "Restart", "ReadDuring") and s["l1"] >= 0 and s["chain"]:
                h = len(s["chain"]) - 1
                above, at, below = above or s["l1"] > h, at or s["l1"] == h, below or s["l1"] < h
        forked += fork
        l1_above += above
        l1_at += at
        l1_below += below
        emptied += empty_after
        deep += any(len(s["chain"]) == 4 for s in b)
    out = dropped_hash_reads(behaviours)
    out.update({"behaviours_with_fork_after_revert": forked, "behaviours_reading_with_l1_above_height": l1_above,
            "behaviours_reading_with_l1_at_height": l1_at, "behaviours_reading_with_l1_below_height": l1_below,
            "behaviours_reverted_to_empty_chain": emptied, "behaviours_reaching_4_blocks": deep})
    return out


KIND = {1: "INVOKE", 2: "L1_HANDLER", 3: "INVOKE_REVERTED", 4: "DEPLOY_ACCOUNT", 5: "DECLARE", 6: "DEPLOY",
        7: "L1_HANDLER", 8: "INVOKE"}
BY_HASH = ("getTransactionByHash", "getTransactionReceipt", "getTransactionStatus")


def dropped_hash_reads(behaviours):
    """By-hash reads of a transaction a revert dropped (not re-included by the fork), split by whether the
    (number, index) slot it used to occupy now holds a DIFFERENT transaction of the fork block - the case in
    which a tx-hash index entry surviving the revert answers with the wrong transaction - per kind."""
    occupied, free = {}, 0
    for b in behaviours:
        txs_of, pos = {}, {}
        for s in b:
            a = s["a"]
            for m in ([a] if a["name"] == "Store" else a.get("muts", [])):
                if m["name"] == "Store":
                    txs_of[tuple(m["path"])] = m["txs"]
                    for i, t in enumerate(m["txs"]):
                        pos[t] = (len(m["path"]) - 1, i)
            if a["name"] == "Store":
                pass
            elif a["name"] in BY_HASH and s["want"].get("e") == "TxnHashNotFound" and a["t"] in pos:
                n, i = pos[a["t"]]
                chain = s["chain"]
                if len(chain) > n and len(txs_of[tuple(chain[:n + 1])]) > i:
                    k = "%s:%s" % (a["name"], KIND.get(a["t"] % 10, "?"))
                    occupied[k] = occupied.get(k, 0) + 1
                else:
                    free += 1
    out = {"dropped_hash_reads_slot_occupied:" + k: v for k, v in sorted(occupied.items())}
    out["dropped_hash_reads_slot_occupied"] = sum(occupied.values())
    out["dropped_hash_reads_slot_free"] = free
    return out


# residue switches of RpcRead.tla x the scenario in which TLC must refute them (RpcRead_x_<kind>_<scenario>.cfg)
RESIDUES = [("n:stor", "stor"), ("n:stor0", "clear"), ("n:stor0", "zz"), ("n:nonce", "nonce"), ("n:repl", "repl"),
            ("n:decl", "decl0"), ("n:decl", "decl1"), ("l:decl", "decl0"), ("l:decl", "decl1"),
            ("l:stor", "stor"), ("l:relog", "stor"), ("l:relog", "nonce"), ("l:relog", "repl")]
SCENARIOS = ["stor", "clear", "zz", "nonce", "repl", "deploy", "depacc", "decl0", "decl1", "mig"]
STATE_READS = ("getStorageAt", "getNonce", "getClassHashAt", "getClassAt", "getClass", "getStateUpdate")


def _retry_oom(fn, *a, **kw):
    """A TLC JVM killed by the kernel on a loaded machine ends with an empty message: run it once more."""
    try:
        return fn(*a, **kw)
    except vlib.Broken as e:
        if "TLC failed" not in str(e) or "Error" in str(e) or "rror:" in str(e):
            raise
        vlib.log("TLC died without a message (killed?), once more: %s" % (a[2] if len(a) > 2 else ""))
        return fn(*a, **kw)


def residue_mutants(ctx, pool):
    """Expected-violation configurations: one residue switch each (they depend on the specification only and
    run beside everything else). Returns [(kind, scenario, cfg, future)]."""
    futs = []
    for kind, sc in RESIDUES:
        cfg = "RpcRead_x_%s_%s.cfg" % (kind.replace(":", ""), sc)
        futs.append((kind, sc, cfg, pool.submit(
            _retry_oom, ctx.tlc_check, FAMILY, "MCRpcReadHist.tla", cfg, workers=2, timeout=900, expect_violation=True,
            label="residue switch %s in scenario %s (violation expected)" % (kind, sc))))
    return futs


def counterexamples(futs):
    """The counterexample of every residue switch as a behaviour of the replayer's format (the trace alias
    MCRpcReadHist!TraceAlias prints one JSON record per state)."""
    out = []
    for kind, sc, cfg, f in futs:
        r = f.result()
        if r["ok"] or r["violated"] != "ReadsAnswerFromChainStrict":
            raise vlib.Broken("%s: the model in which a Revert leaves %s behind is not refuted by a read (%s): the "
                              "scenario %s or the read alphabet no longer observes that section" % (cfg, kind, r["violated"], sc))
        steps = []
        for line in r["out"].splitlines():
            m = re.match(r'^j = (".*")\s*$', line)
            if m:
                steps.append(json.loads(json.loads(m.group(1))))
        names = [s["a"]["name"] for s in steps]
        if len(steps) < 4 or names[0] != "Init" or "Revert" not in names or names[-1] not in STATE_READS:
            raise vlib.Broken("%s: cannot read the counterexample (%d states: %s)" % (cfg, len(steps), names))
        if any(s.get("scn") != sc for s in steps):
            raise vlib.Broken("%s: counterexample outside scenario %s" % (cfg, sc))
        out.append(steps)
    return out


def scenario_shapes(behaviours):
    """Per section scenario: behaviours in which the block carrying the section for target 1 (variant 0 right
    after the setup block) is reverted and replaced by another variant, and how many reads of a state method or
    getStateUpdate by number or hash such a replacement chain then gets from the specification."""
    out = {}
    for b in behaviours:
        sc = b[0].get("scn", "base") if b else "base"
        if sc == "base":
            continue
        had, replaced, reads = False, False, 0
        for s in b:
            n = s["a"]["name"]
            ch = s["chain"]
            if n == "Store" and ch[:2] == [0, 0]:
                had = True
            if n == "Store" and had and len(ch) >= 2 and ch[1] != 0:
                replaced = True
            if replaced and n in STATE_READS and s["a"]["id"]["k"] in ("num", "hash") and len(ch) >= 2 and ch[1] != 0:
                reads += 1
        d = out.setdefault(sc, {"behaviours": 0, "section_block_replaced": 0, "reads_on_replacement_by_number_or_hash": 0})
        d["behaviours"] += 1
        d["section_block_replaced"] += replaced
        d["reads_on_replacement_by_number_or_hash"] += reads
    return out


def run(ctx):
    binary = ctx.build_engine(ENGINE, stubs=True)
    if ctx.replay:
        with open(ctx.replay) as f:
            rp = json.load(f)
        res = ctx.run_engine(binary, rp["test"], rp["input"])
        ctx.absorb(res, ENGINE, rp["test"])
        return ctx.finish("model_checking", "replay of one recorded behaviour")

    thorough = not ctx.quick()
    pool = concurrent.futures.ThreadPoolExecutor(max_workers=int(os.environ.get("VERIF_TLC_PARALLEL", "4")))
    try:
        return _run(ctx, binary, thorough, pool)
    finally:
        pool.shutdown(wait=True, cancel_futures=True)


def _run(ctx, binary, thorough, pool):
    # 0. beside everything else: the residue switches (each must be refuted) and the section scenarios as-is
    mutants = residue_mutants(ctx, pool)
    hist = pool.submit(_retry_oom, ctx.tlc_check, FAMILY, "MCRpcRead.tla",
                       "RpcRead_hist_thorough.cfg" if thorough else "RpcRead_hist_quick.cfg", workers=4 if thorough else 2,
                       timeout=3000, label="RpcRead as-is, every state-diff section in isolation (<=%d blocks)" % (4 if thorough else 3))

    # 1. the specification: the code as it is (known deviations excepted) and the repaired design
    _retry_oom(ctx.tlc_check, FAMILY, "MCRpcRead.tla", "RpcRead_quick.cfg", timeout=900, label="RpcRead as-is (<=3 blocks)")
    _retry_oom(ctx.tlc_check, FAMILY, "MCRpcRead.tla", "RpcRead_fixed.cfg", timeout=900, label="RpcRead repaired (<=3 blocks)")
    # the strict property must FAIL on the as-is model: the exception is not vacuous
    r = ctx.tlc_check(FAMILY, "MCRpcRead.tla", "RpcRead_strict_asis.cfg", timeout=600, expect_violation=True,
                      label="RpcRead as-is vs strict property (must be violated)")
    if r["ok"] or r["violated"] != "ReadsAnswerFromChainStrict":
        raise vlib.Broken("the as-is model no longer deviates from the strict property (%s): "
                          "the FixTxIndexMissingBlock / FixZeroHashState switches are stale" % r["violated"])
    # expected violations: the switches of the last_update_block mechanism bite (the property is not vacuous there)
    for cfg, what in (("RpcRead_lubshortcut.cfg", "history lookup skipped for zero values (LubZeroShortcut)"),
                      ("RpcRead_legacylub.cfg", "legacy backend not logging a zero written to a zero slot")):
        r = ctx.tlc_check(FAMILY, "MCRpcRead.tla", cfg, timeout=600, expect_violation=True,
                          label="RpcRead, %s (must be violated)" % what)
        if r["ok"] or r["violated"] != "ReadsAnswerFromChainStrict":
            raise vlib.Broken("%s: the model with '%s' no longer violates the strict property (%s)"
                              % (cfg, what, r["violated"]))
    if thorough:
        r = ctx.tlc_check(FAMILY, "MCRpcRead.tla", "RpcRead_thorough.cfg", timeout=3000, coverage=True,
                          label="RpcRead as-is (<=4 blocks)")
        vlib.require_actions_covered(r, ignore=("Next", "Init"))
        ctx.tlc_check(FAMILY, "MCRpcRead.tla", "RpcRead_thorough_fixed.cfg", timeout=3000,
                      label="RpcRead repaired (<=4 blocks)")

    # 2a. binding, directed: the counterexample of every residue switch and the walk over every chain of every
    #     section scenario, on both state backends, the replayer sweeping every height after every mutator
    cex = counterexamples(mutants)
    walk_cfg, walk_len = ("RpcRead_walk_thorough.cfg", 79) if thorough else ("RpcRead_walk.cfg", 25)
    walks = ctx.tlc_simulate(FAMILY, "RpcReadMBT.tla", walk_cfg, depth=(walk_len * 3 + 1) * len(SCENARIOS), seed=ctx.seed, timeout=900)
    if sorted(b[0].get("scn") for b in walks) != sorted(SCENARIOS) or any(
            len([s for s in b if s["a"]["name"] in ("Store", "Revert")]) != walk_len for b in walks):
        raise vlib.Broken("RpcReadMBT!WalkNext: expected one walk of %d mutators per scenario, got %s" % (
            walk_len, [(b[0].get("scn"), len(b)) for b in walks]))
    dres = ctx.run_engine(binary, TEST, {"behaviours": cex + walks, "first": 0, "huge": MAXLEN + 1, "sweep": "all",
                                         "backends": ["legacy", "newstate"]}, timeout=3000)
    ctx.absorb(dres, ENGINE, TEST)
    dstats = dres.get("stats", {})
    ctx.coverage["directed"] = {"residue_counterexamples": len(cex), "walks": len(walks),
                                "steps": dres.get("steps", 0), "wall_s": dres.get("_wall_s"),
                                "sweeps": dstats.get("sweeps", 0), "sweep_requests": dstats.get("sweep:requests", 0),
                                "sweep_answers_with_data": dstats.get("sweep:answers_with_data", 0)}
    if not ctx.violations:
        if dstats.get("sweeps", 0) < 2 * walk_len * len(SCENARIOS) or dstats.get("sweep:answers_with_data", 0) < 20000:
            raise vlib.Broken("directed replay is vacuous: %s sweeps, %s sweep answers with data" % (
                dstats.get("sweeps", 0), dstats.get("sweep:answers_with_data", 0)))
        quiet = [m for m in STATE_READS if dstats.get("sweep:data:" + m, 0) == 0]
        if quiet:
            raise vlib.Broken("directed replay is vacuous: the sweep never got data from %s" % quiet)
    hist.result()
    ctx.coverage["residue_switches_refuted"] = ["%s/%s" % m[:2] for m in mutants]

    # 2b. binding: behaviours from TLC -simulate, replayed on the real stack
    nruns = 8 if thorough else 2
    per_run = 260 if thorough else 80
    behaviours = []
    for i in range(nruns):
        behaviours += ctx.tlc_simulate(FAMILY, "RpcReadMBT.tla", "RpcRead_sim.cfg", depth=(STEPS + 1) * per_run,
                                       seed=ctx.seed * 1000 + i, timeout=1500)
    res = ctx.run_engine(binary, TEST, {"behaviours": behaviours, "first": 0, "huge": MAXLEN + 1}, timeout=3000)
    ctx.absorb(res, ENGINE, TEST)
    ctx.coverage["steps_replayed"] = res.get("steps", 0)
    ctx.coverage["simulated_replay_wall_s"] = res.get("_wall_s")
    ctx.coverage["calls_slower_than_the_watchdog_time_that_did_return"] = res.get("stats", {}).get("slow_calls", 0)
    ctx.coverage["behaviours_generated"] = len(behaviours)
    shapes = shape_counts(behaviours)
    ctx.coverage.update(shapes)
    scen = scenario_shapes(behaviours)
    ctx.coverage["section_scenarios"] = scen
    # the gated in-flight round: torn answers are outside what C08 states (it quantifies over stored chains,
    # not over schedules) - reported as observations, never as verdicts
    obs = res.get("stats", {}).get("observations", {})
    by_class = {}
    for k, n in sorted(obs.get("counts", {}).items()):
        cls, method, ver = k.split(":")
        by_class.setdefault(cls, {}).setdefault(method, {})[ver] = n
    for cls, methods in sorted(by_class.items()):
        total = sum(sum(v.values()) for v in methods.values())
        ex = (obs.get("examples", {}).get(cls) or [""])[0]
        print("OBSERVATION: property=%s %s: %d in-flight requests (no per-request snapshot: a Store/RevertHead/SetL1Head "
              "committed between two store reads of one request) on %s; e.g. %s" % (
                  ctx.prop, cls, total, ", ".join("%s[%s]" % (m, "/".join(sorted(v))) for m, v in sorted(methods.items())),
                  ex[:300]), flush=True)
    ctx.coverage["observations"] = {"counts": by_class, "examples": obs.get("examples", {})}
    # a listed known finding that did not show up is worth a note (it may have been repaired)
    for k in ctx.known:
        if k["status"] == "known" and k["key"] not in [h["key"] for h in ctx.known_hits]:
            print("NOTE: property=%s known finding %s did not reproduce in this run" % (ctx.prop, k["key"]), flush=True)
    # vacuity guards come last and never mask a violation observed on the real code
    if not ctx.violations:
        def occ(m, k):
            return shapes.get("dropped_hash_reads_slot_occupied:%s:%s" % (m, k), 0)
        kinds = sorted(set(KIND.values()))
        missing = [k for k in kinds if sum(occ(m, k) for m in BY_HASH) == 0]
        missing += [m for m in BY_HASH if sum(occ(m, k) for k in kinds) == 0]
        missing += [m + ":L1_HANDLER" for m in BY_HASH if occ(m, "L1_HANDLER") == 0]
        if missing:
            raise vlib.Broken("behaviours are vacuous for reverted transaction hashes: no by-hash read of a dropped "
                              "transaction whose old (number, index) slot is occupied by the fork block for %s" % missing)
        stats = res.get("stats", {})
        if stats.get("answers_with_data", 0) < 100:
            raise vlib.Broken("replay is vacuous: fewer than 100 reads were answered with data")
        silent = [m for m in METHODS if stats.get("data:" + m, 0) == 0]
        unseen = [e for e in ERRORS if stats.get("err:" + e, 0) == 0]
        if silent or unseen:
            raise vlib.Broken("replay is vacuous: methods never answered with data %s / errors never demanded %s"
                              % (silent, unseen))
        if stats.get("inflight_reads", 0) < 50 or stats.get("mutations_Restart", 0) < 20:
            raise vlib.Broken("replay is vacuous: %s in-flight reads, %s restarts" % (
                stats.get("inflight_reads", 0), stats.get("mutations_Restart", 0)))
        # the section scenarios: the directed walks guarantee every fork shape; the simulated behaviours must add to it
        replaced = sum(d["section_block_replaced"] for d in scen.values())
        if replaced < 20 or len(scen) < 8 or stats.get("sweeps", 0) < 200:
            raise vlib.Broken("simulated behaviours are vacuous for the section scenarios: %d scenarios, %d behaviours replace "
                              "the block carrying the section, %d sweeps" % (len(scen), replaced, stats.get("sweeps", 0)))
        # the response-flag dimension: every region the property distinguishes was answered correctly at
        # least a few times (v0.10, all backends)
        need = {"lub:cleared-or-zero-written": 12, "lub:older-than-block": 12, "lub:never-written": 12,
                "lub:at-block": 12, "lub:after-revert": 12, "lub:by-hash": 6, "lub:by-latest": 6,
                "lub:by-l1_accepted": 6, "lub_oracle_checks": 60, "flags:bad-refused": 30, "flags:empty": 30,
                "pf:tx:facts": 6, "pf:tx:empty": 6, "pf:tx:absent": 6, "pf:block:facts": 6, "pf:block:empty": 6}
        short = {k: stats.get(k, 0) for k, n in need.items() if stats.get(k, 0) < n}
        if short:
            raise vlib.Broken("replay is vacuous for the v0.10 response flags: %s (needed %s)" % (
                short, {k: need[k] for k in short}))
    ctx.coverage["response_flags"] = {k: v for k, v in sorted(res.get("stats", {}).items())
                                      if k.startswith(("lub", "pf:", "flags:", "flagged_"))}
    for rr, which in ((res, "simulated"), (dres, "directed")):
        if rr.get("stats", {}).get("fold_oracle_disagrees_with_spec", 0):
            raise vlib.Broken("the harness-side oracle (fold of the stored state updates) disagrees with what RpcRead.tla "
                              "demands in %d reads of the %s behaviours: specification and concretisation are out of step"
                              % (rr["stats"]["fold_oracle_disagrees_with_spec"], which))
    if res.get("stats", {}).get("lub_oracle_disagrees_with_spec", 0) or dres.get("stats", {}).get("lub_oracle_disagrees_with_spec", 0):
        raise vlib.Broken("the harness-side oracle of last_update_block (stored state updates) disagrees with "
                          "RpcRead!DLubIn in %d requests: specification and concretisation are out of step"
                          % (res.get("stats", {}).get("lub_oracle_disagrees_with_spec", 0)
                             + dres.get("stats", {}).get("lub_oracle_disagrees_with_spec", 0)))
    ctx.assumptions += [
        "FFI stubs stand in for the Rust VM/compiler (read methods never call them; a call aborts loudly)",
        "blocks are built by chainkit through the real Simulate/SanityCheckNewHeight/Store; the hash and "
        "commitment algorithms are not in question here (C01/C02)",
        "no pre-confirmed data (sync.NoopSynchronizer): pre_confirmed must be BLOCK_NOT_FOUND on v0.9/v0.10",
        "C08 quantifies over stored chains, not schedules: answers torn by a mutator committed between two store "
        "reads of one in-flight request are reported as OBSERVATION, not judged; the sequential re-read after the "
        "race, hangs and process crashes are judged",
        "v0.8 has no l1_accepted / pre_confirmed tags: InvalidParams there is a specification difference",
        "finality is decided by the recorded L1 head NUMBER only (as the property states); the L1 head's hash is not compared",
        "last_update_block = number of the last block <= the requested one whose state diff has an entry for the slot "
        "(whatever value it writes), 0 if none - what core/state logs and getStateUpdate shows; block 0 and 'never' "
        "are indistinguishable by design of the API",
        "response_flags exist on v0.10 only: v0.8 / v0.9 are asked the same question without the parameter; "
        "proof_facts: [] on INVOKE v0/v1 objects (the code does this for every INVOKE) is taken as it is",
        "the sweep's oracle is the fold of the state diffs the harness handed to Blockchain.Store along the chain the "
        "node holds; it is cross-checked against RpcRead.tla's demand on every state read the specification generated",
        "residues no C08 read method can observe are not switches of RpcRead.tla (class-hash / nonce entry of a deploy, "
        "legacy deployment height of a purged contract, casm metadata of a migration): StateHistory.tla (C03) has them; "
        "a migration is visible here through getStateUpdate (v0.10) and through the Store of a later migration succeeding",
        "caches are not modelled: a cache keyed by number or hash surviving a reorg shows because the sweep reads every "
        "height before the Revert, after it and after the replacement block on the same node",
    ]
    return ctx.finish(
        "model_checking",
        "exhaustive TLC on RpcRead.tla (chains <= 3 [thorough: 4] blocks, <= 2 reverts, 2 block variants per height, "
        "L1 head none/below/at/above the height/2^64-1; every read method x every identifier kind incl. absent and "
        "2^64-1 numbers, reverted, unknown and zero hashes, index 2^62; v0.10 response_flags omitted / empty / the method's "
        "flag / ill-formed on the five methods that take them, with a per-slot write history (set, overwritten, cleared, "
        "re-written with the same value, zero onto zero) behind last_update_block and proof facts on some INVOKE v3; "
        "Restart; composite in-flight steps) for the as-is and the repaired model, with the state methods answered from "
        "the modelled history buckets of both state backends (entries per state-diff section, deployment and declaration "
        "heights; head reader for latest) + the same for 10 section scenarios (storage overwrite / clearing / zero onto "
        "zero, nonce only, replace_class only, deploy only, deploy + nonce, declare Cairo-0 / Sierra, migrated compiled "
        "class; setup block + 3 variants per height: S for target 1 / S for target 2 / empty diff; state methods and "
        "getStateUpdate by every number, every stored hash and latest) + 13 residue-switch configurations (a Revert leaves "
        "one section's entries of one backend behind) each refuted by TLC, two expected-violation configurations for the "
        "last_update_block mechanism; DIRECTED: the 13 counterexamples and a depth-first walk over every chain of every "
        "scenario (25 [thorough: 79] mutators each) replayed on legacy + new state x v0.8/v0.9/v0.10, the replayer reading "
        "every height by number and hash (head also by latest; the number above the head and reverted hashes must be "
        "not-found) with the five state methods and getStateUpdate after EVERY mutator, judged by the fold of the stored "
        "state updates of the current chain; SIMULATED: TLC-simulated behaviours of 48 steps (half base alphabet, half a "
        "section scenario with fork-biased steps) replayed request by request on "
        "v0.8/v0.9/v0.10 x {legacy, new state on memory, legacy on Pebble} behind a poisoning store (lent buffers are "
        "scribbled), with restarts, retained-response checks, the same sweep after every Revert and every Store that "
        "follows one (one API version in turn) and gated in-flight requests (every store read of every "
        "version paused while Store/Revert/SetL1Head run; judged: sequential re-read afterwards, no hang; torn answers "
        "are observations); non-trivial = every behaviour interleaves Store/Revert/SetL1Head with reads, >= 100 reads "
        "answered with data, every method and error kind seen, dropped tx hashes read with their slot re-occupied, "
        "last_update_block asked for cleared / older / never-written slots by number, hash, latest and l1_accepted and "
        "after reverts, proof facts present / empty / absent seen")

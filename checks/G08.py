"""G08 (specification growth, not a listed property) — JSON-RPC SUBSCRIPTIONS: rpc/v10 subscriptions.go,
subscription_{heads,events,status,transactions,receipts}.go, the v9 twins, rpc/v8/subscriptions.go,
rpc/rpccore/preconfirmed_deduper.go, on top of feed.Feed (G01), the synchroniser's feeds and the
connection of jsonrpc (G04).  Run with ./check G08; evidence/G08.json; not in MANIFEST.json.

Specification spec/subs/Subs.tla: the chain with fork tags as the synchroniser drives it (Store; Revert
with sync's currReorg bookkeeping; the reorg range and the block sent one after the other AFTER the
store), the two lossy feed stages in series (the handler's keep-first Tee subscription, each
subscription's keep-last slot per callback), the pre-confirmed block the poller publishes, the L1 head,
the gateway's status; per subscription the request handler split at its height read (SubResolve /
SubRegister) and ONE goroutine modelled from blocking point to blocking point (blocked in a connection
write - the client has not taken the frame -, idle in its select, in the status ticker loop); Unsubscribe
(cancel, wait for the goroutine, answer) and connection close.  API versions are a constant (v8's
header-based catch-up loop and database-driven event re-read; v10's commitments read by number).

TLC: (1) for the code AS IT IS under EVERY schedule: nothing after the unsubscribe answer / connection
close, the catch-up prefix of a heads subscription is start..latest in order, no status twice in a row,
a pre-confirmed item once per round between reorg notices, finality / sender / address filters respected,
registration table and slots released when a subscription ends; v8's event subscription is complete up
to the last handled head whatever the lag.  (2) the USER-LEVEL properties (a client applying the frames
keeps an exact copy of the chain from its start block: no gap, no duplicate, reorg notice naming exactly
the replaced top range BEFORE the new fork's headers; exactly the matching events / transactions in chain
order; a subscription ends only by unsubscribe / close; ACCEPTED_ON_L1 is last) hold under three
environment assumptions - NoLag (the chain moves only when every subscriber has consumed everything),
QuietSub (nobody subscribes between a Store and its sends), ReorgPrio (a reorg notice is handled before a
head sent after it) - and TLC exhibits the failure when any ONE is dropped (expected-violation runs).
(3) FixL1None: subscribeEvents (v9, v10) answers with an internal error on a node without an L1 head.
FixL1Order: Blockchain.SetL1Head announces the L1 head on the feed before it writes it; the status
subscription, which answers the event by reading the database, misses ACCEPTED_ON_L1 (L1Reported).

Binding: TestSubsProbe reproduces every such failure ON THE REAL handlers (directed scripts, evaluated
with a Go twin of the client fold) and reports each under its own key (known_findings.json decides
KNOWN-FINDING vs VIOLATION); its result also selects the model that describes THIS code (FixL1None).
TestSubsReplay: TLC-simulated behaviours (4 subscriptions of all kinds on 2 connections, stores, reverts,
L1 heads, pre-confirmed rounds and deltas, gateway statuses, received transactions, unsubscribe, close,
the window between height read and registration) replayed in lockstep on the real rpc.Handler (Run()
with its Tee goroutines) + real jsonrpc.Server + real Blockchain + real (never run) Synchronizer whose
own feeds the harness sends on, inside a testing/synctest bubble: every Write blocks until the harness
takes the frame of THAT subscription, so every goroutine sits where the model says; after each step the
frame every subscription is blocked on, the registration table, every answer and every delivered frame
(header fields, commitments, event bodies included) are compared.  TestSubsConcurrent: free-running
real goroutines (no bubble, no gates) with monitors that are the as-coded invariants.  TestSubsBack: the
MaxBlocksBack boundary (1024) on a 1030-block chain."""
import json
import os
import re
from concurrent.futures import ThreadPoolExecutor

import vlib
from vlib import log

FAMILY = "subs"
SWITCH_KEY = "subs:events:internal-error-without-l1-head"
ORDER_KEY = "subs:status:accepted-on-l1-missed:l1-head-event-handled-before-database-write"


def cfg_text(name, fix_l1none):
    with open(os.path.join(vlib.VERIF, "spec", FAMILY, name)) as f:
        t = f.read()
    return t


# (cfg, label, expected violation or None, tiers, coverage group)
def plan(thorough):
    q = [
        ("Subs_heads_q.cfg", "as coded: heads v10, every schedule, Tee stage, subscribe window, reorg", None, True),
        ("Subs_heads8_q.cfg", "as coded: heads v8", None, True),
        ("Subs_events_q.cfg", "as coded: events v10 with pre-confirmed rounds and deltas", None, True),
        ("Subs_status_q.cfg", "as coded: transaction status v10 (ticker loop, gateway, L1)", None, True),
        ("Subs_txs_q.cfg", "as coded: new transactions / receipts v10", None, True),
        ("Subs_heads_strong.cfg", "NoLag+QuietSub+ReorgPrio: heads v10 - exact client copy, complete, no silent end", None, False),
        ("Subs_heads8_strong.cfg", "NoLag+QuietSub+ReorgPrio: heads v8", None, False),
        ("Subs_events8_lag.cfg", "v8 events: complete up to the last handled head WITHOUT NoLag / QuietSub (database re-read)", None, False),
        ("Subs_events_nol1_fixed.cfg", "FixL1None: events served without an L1 head, properties hold", None, False),
        ("Subs_heads_noNoLag.cfg", "NoLag dropped: must fail", ("HeadsViewOK", "NoSilentDeath"), False),
        ("Subs_heads_gap.cfg", "NoLag dropped, no reorg: a gap (HeadsViewOK must fail)", ("HeadsViewOK",), False),
        ("Subs_heads_noQuietSub.cfg", "QuietSub dropped: must fail", ("HeadsViewOK", "NoSilentDeath"), False),
        ("Subs_heads_noReorgPrio.cfg", "ReorgPrio dropped: must fail", ("HeadsViewOK",), False),
        ("Subs_events_nolag.cfg", "events v10, NoLag dropped: EventsComplete must fail", ("EventsComplete",), False),
        ("Subs_status_current.cfg", "status: StatusCurrent must fail (no re-evaluation after a reorg notice)", ("StatusCurrent",), False),
        ("Subs_events_nol1.cfg", "as coded without an L1 head: NoInternalError must fail", ("NoInternalError",), False),
        ("Subs_status_l1order.cfg", "SetL1Head feed first, database second: L1Reported must fail", ("L1Reported",), False),
        ("Subs_status_l1order_fixed.cfg", "FixL1Order: ACCEPTED_ON_L1 is reported (and is last)", None, False),
    ]
    t = [
        ("Subs_events_strong.cfg", "NoLag+QuietSub+ReorgPrio: events v10 - exactly the matching events, once, in order", None, False),
        ("Subs_status_strong.cfg", "NoLag+QuietSub+ReorgPrio: status - ACCEPTED_ON_L1 is last", None, False),
        ("Subs_txs_strong.cfg", "NoLag+QuietSub+ReorgPrio: transactions / receipts complete", None, False),
        ("Subs_events_t.cfg", "as coded: events v10 (larger)", None, False),
        ("Subs_status_t.cfg", "as coded: transaction status (larger)", None, False),
        ("Subs_txs_t.cfg", "as coded: new transactions / receipts (larger)", None, False),
        ("Subs_two_t.cfg", "as coded: two subscriptions on two connections - unsubscribe ownership, close, independence", None, False),
    ]
    return q + (t if thorough else [("Subs_events_strong.cfg", t[0][1], None, False)])


def tlc_phase(ctx, thorough):
    items = plan(thorough)
    par = max(1, min(4, int(os.environ.get("VERIF_G08_TLC_PAR", "3"))))
    workers = max(2, int(os.environ.get("VERIF_TLC_WORKERS", "16")) // par)

    def one(it):
        cfg, label, expect, cov = it
        return it, ctx.tlc_check(FAMILY, "MCSubs.tla", cfg, workers=workers, timeout=3000, label=label,
                                 expect_violation=expect is not None, coverage=cov)

    with ThreadPoolExecutor(max_workers=par) as ex:
        results = list(ex.map(one, items))
    taken = {}
    for (cfg, label, expect, cov), r in results:
        if expect is None:
            if not r["ok"]:
                raise vlib.Broken("TLC: %s does not hold (%s)" % (cfg, r["violated"]))
            for a, c in (r.get("coverage") or {}).items():
                taken[a] = taken.get(a, 0) + c["taken"]
        else:
            if r["ok"] or r["violated"] not in expect:
                raise vlib.Broken("expected-violation run %s: expected one of %s, got %s - the model changed" % (cfg, expect, r["violated"]))
            for x in ctx.tlc_runs:
                if x["label"] == label:
                    x["expected_violation"] = r["violated"]
    zero = sorted(a for a, n in taken.items() if n == 0 and a.startswith("Subs."))
    if zero or not taken:
        raise vlib.Broken("vacuity: actions never taken in any as-coded configuration: %s" % zero)
    ctx.coverage["actions_taken_as_coded"] = {a.split(".", 1)[1]: n for a, n in sorted(taken.items()) if a.startswith("Subs.")}


def absorb(ctx, res, test):
    st = res.get("stats") or {}
    if st.get("harness_errors"):
        bad = [d for d in res.get("divergences") or [] if str(d.get("key", "")).startswith("harness")]
        raise vlib.Broken("%s: harness problem (not a verdict): %s" % (test, json.dumps(bad[:2])[:3000]))
    res = dict(res)
    res["stats"] = {k: v for k, v in st.items() if not k.startswith(("present:", "absent:"))}
    ctx.absorb(res, "subs", test)


def sim_cfg(ver, fix_l1none, start_l1, fix_l1order):
    t = cfg_text("Subs_sim.cfg", fix_l1none)
    t = re.sub(r"Ver = \d+", "Ver = %d" % ver, t)
    if ver == 8:
        t = t.replace("Kinds <- KAll", "Kinds <- KHE")
    if start_l1 < 0:
        t = t.replace("StartAtL1 = 0", "StartAtL1 <- NoL1")
    if fix_l1none:
        t = t.replace("FixL1None = FALSE", "FixL1None = TRUE")
    if fix_l1order:
        t = t.replace("FixL1Order = FALSE", "FixL1Order = TRUE")
    if ("FixL1Order = TRUE" in t) != bool(fix_l1order):
        raise vlib.Broken("Subs_sim.cfg no longer has the FixL1Order constant this check rewrites")
    if "Ver = %d" % ver not in t or ("FixL1None = TRUE" in t) != bool(fix_l1none):
        raise vlib.Broken("Subs_sim.cfg no longer has the constants this check rewrites")
    return t


def run(ctx):
    binary = ctx.build_engine("subs", stubs=True)
    if ctx.replay:
        rp = json.load(open(ctx.replay))
        absorb(ctx, ctx.run_engine(binary, rp["test"], rp["input"]), rp["test"])
        return ctx.finish("model_checking", "replay of one recorded behaviour / script")
    thorough = not ctx.quick()
    # development aid: judge the run as it will be once the lead has listed the proposed entries
    # (spec/subs/proposed_known_findings.json); never set by a registered command
    if os.environ.get("VERIF_G08_PROPOSED"):
        with open(os.environ["VERIF_G08_PROPOSED"]) as f:
            ctx.known += [k for k in json.load(f)["findings"] if k.get("property") == "G08"]

    # ---- probe: which deviations does THIS code have?  (each present one is reported under its key)
    pres = ctx.run_engine(binary, "TestSubsProbe", {})
    pst = pres.get("stats") or {}
    present = sorted(k[len("present:"):] for k in pst if k.startswith("present:"))
    absent = sorted(k[len("absent:"):] for k in pst if k.startswith("absent:"))
    if not present and not absent and not pres.get("divergences"):
        raise vlib.Broken("the probe observed nothing: %s" % pst)
    absorb(ctx, pres, "TestSubsProbe")
    ctx.coverage["probe_present"] = present
    ctx.coverage["probe_absent"] = absent
    l1v = [k for k in present + absent if k.startswith(SWITCH_KEY)]
    if not l1v:
        raise vlib.Broken("the probe did not decide the FixL1None switch")
    fix_l1none = not any(k in present for k in l1v)
    log("probe: %d deviations present, %d absent; subscribeEvents without an L1 head %s" % (
        len(present), len(absent), "is served (FixL1None model)" if fix_l1none else "fails with an internal error (as-coded model)"))
    ctx.coverage["model_switch_FixL1None"] = fix_l1none
    ov = [k for k in present + absent if k.startswith(ORDER_KEY)]
    if not ov:
        raise vlib.Broken("the probe did not decide the FixL1Order switch")
    fix_l1order = not any(k in present for k in ov)
    log("probe: SetL1Head %s" % ("writes the database before it announces the head (FixL1Order model)" if fix_l1order
                                 else "announces the head on the feed before it writes the database (as-coded model)"))
    ctx.coverage["model_switch_FixL1Order"] = fix_l1order
    # expectations come from known_findings.json, never from the tree: a listed-known deviation that is gone is a NOTE
    for k in ctx.known:
        if k.get("status") == "known" and not any(vlib.key_matches(k["key"], p) for p in present):
            print("NOTE: property=G08 known finding [%s] did not reproduce on this tree" % k["key"], flush=True)

    # ---- TLC (VERIF_G08_SKIP_TLC: development aid for mutation runs; never set by a registered command)
    if not os.environ.get("VERIF_G08_SKIP_TLC"):
        tlc_phase(ctx, thorough)

    # ---- lockstep replay, the three API versions, with and without an L1 head at start
    nb = 0
    shapes = [(10, 0), (9, 0), (8, 0), (10, -1), (9, -1)]
    runs = 4 if thorough else 1
    depth = 91 * (400 if thorough else 150)
    for i, (ver, l1) in enumerate(shapes):
        beh = []
        for j in range(runs):
            beh += ctx.tlc_simulate(FAMILY, "SubsMBT.tla", "sim.cfg", depth=depth, seed=ctx.seed * 1000 + i * 10 + j,
                                    files={"sim.cfg": sim_cfg(ver, fix_l1none, l1, fix_l1order)}, timeout=900)
        nb += len(beh)
        res = ctx.run_engine(binary, "TestSubsReplay", {"ver": ver, "initlen": 2, "startl1": l1, "fixl1order": fix_l1order, "behaviours": beh}, timeout=1500)
        if res.get("replayed", 0) < 0.9 * len(beh) and not res.get("divergences"):
            raise vlib.Broken("engine replayed too little: %s of %s" % (res.get("replayed"), len(beh)))
        absorb(ctx, res, "TestSubsReplay")
    ctx.coverage["simulated_behaviours"] = nb

    # ---- free-running rounds and the MaxBlocksBack boundary
    if not any(v["key"].startswith(("subs:deliver", "subs:pending-frame", "crash:")) for v in ctx.violations):
        absorb(ctx, ctx.run_engine(binary, "TestSubsConcurrent", {"rounds": 40 if thorough else 10}, timeout=1500), "TestSubsConcurrent")
    absorb(ctx, ctx.run_engine(binary, "TestSubsBack", {}, timeout=900), "TestSubsBack")

    ctx.assumptions += [
        "the harness plays sync.storeTask / revertHead and the pre-confirmed poller: it stores / reverts through the real Blockchain and "
        "sends on the real Synchronizer's own feeds what sync.go / poller.go send, in their order (the synchroniser's own emission is C06's)",
        "replayed behaviours keep out what the binding cannot steer: an idle subscription never has two ready select cases (the Go select "
        "picks at random; covered by the exhaustive runs, the free-running rounds and the repeated probe), the Tee goroutine forwards "
        "before the next send (its loss is in the exhaustive model and the free-running rounds only)",
        "A2: no Revert between the height read and the registration of an EVENTS subscription (its historical range would reach into the "
        "pre-confirmed chain, which Subs.tla does not describe)",
        "one event per transaction; event matching, chunking and continuation tokens are C09 / G03's; the websocket transport is G04's "
        "(here: Server.HandleReadWriter message by message on one writer object per connection)",
        "the gateway is a fake feeder.Reader answering TransactionStatus; the submitted-transactions cache and v8's status / pending "
        "transaction subscriptions are not covered",
    ]
    return ctx.finish(
        "model_checking",
        "exhaustive TLC on Subs.tla per subscription kind / API version: as-coded invariants under every schedule, user-level properties "
        "under NoLag+QuietSub+ReorgPrio, one expected-violation run per dropped assumption and per switch; every such failure reproduced "
        "on the real handlers by directed scripts (keyed); TLC-simulated behaviours (<= 90 steps, 4 subscriptions, 2 connections, all "
        "kinds) replayed in lockstep on the real rpc.Handler / jsonrpc.Server / Blockchain / Synchronizer feeds inside a synctest bubble "
        "with per-subscription write gates, comparing every answer, every delivered frame and, after each step, the frame every "
        "subscription is blocked on and the registration table; free-running rounds monitored by the as-coded invariants; non-trivial = "
        "a behaviour in which at least one frame was delivered and matched")

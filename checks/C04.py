"""C04 — reverting the head exactly undoes a block; forks converge to the same node
(spec/chain/Revert.tla over spec/chain/StateHistory.tla).

TLC: exhaustive check that for both state encodings and every per-block index family the
database is a function of the current chain only (Canon, IdxCanon: Store ; Revert = identity, a
node that followed fork A, reverted and followed fork B equals a node that followed B directly),
that no history log survives a revert (NoOrphanLogs), that lookups see exactly the current chain
(IdxSound), that a process restart anywhere is a no-op on the database (RRestartIsNoOp) and that
the lazily initialised running event filter covers exactly the current chain whatever was stored,
reverted or restarted before (FilterCoversChain) and that RevertHead never fails for a storable block (RevertNeverFails; verified on
the repaired model FixH4 = TRUE, the faithful model FixH4 = FALSE must exhibit H4).
Binding: TLC-simulated behaviours with forks are replayed into real blockchain.Blockchain nodes on
both state backends: RevertHead must succeed, the database dump after Store ; Revert must equal the
dump before the store, and after every revert / on every fork the node must equal - dump and full
reader / state / event sweep - a twin node that stored the current chain directly. The node under
test is restarted (new Blockchain object on the same store, with or without a written filter
snapshot) at random points, in particular right before RevertHead / Store; after every step all
event queries (unfiltered, by emitter, by key, paged) must equal a naive scan of the chain's receipts.
"""
import json
import vlib
from C03 import behaviours, h4_fixed, note_unreproduced, report_observations, run_engine_keep, selftest, H4_KEY


def corrupt_idx(b):
    """Claim one more block than the chain has."""
    while b["steps"] and b["steps"][-1]["a"]["name"] == "Restart":
        b["steps"].pop()          # nothing is observed right after a restart
    if not b["steps"] or b["steps"][-1]["res"] != "ok":
        return False
    b["steps"][-1]["idx"]["height"] += 1
    return True


def run(ctx):
    binary = ctx.build_engine("statehist")
    if ctx.replay:
        with open(ctx.replay) as f:
            rp = json.load(f)
        res = ctx.run_engine(binary, rp["test"], rp["input"])
        ctx.absorb(res, "statehist", rp["test"])
        return ctx.finish("model_checking", "replay of one recorded behaviour")

    thorough = not ctx.quick()
    fix = h4_fixed()
    ctx.tlc_check("chain", "Revert.tla", "Revert_quick.cfg", timeout=900)
    ctx.tlc_check("chain", "Revert.tla", "Revert_sys_quick.cfg", timeout=900)
    # the faithful model must show the known defect, otherwise the switch does not model it
    r = ctx.tlc_check("chain", "MCStateHistory.tla", "StateHistory_h4.cfg", timeout=900, expect_violation=True,
                      label="faithful model FixH4=FALSE (violation expected)")
    if r["violated"] != "RevertNeverFails":
        raise vlib.Broken("the faithful model (FixH4 = FALSE) should violate RevertNeverFails, got %s" % r["violated"])
    # model sensitivity to Restart: a running event filter rolled back after the revert's commit
    # must be caught (a restart right before RevertHead then clears a canonical block)
    r = ctx.tlc_check("chain", "Revert.tla", "Revert_lazyfilter.cfg", timeout=900, expect_violation=True,
                      label="filter rolled back after commit (violation expected)")
    if r["violated"] != "FilterCoversChain":
        raise vlib.Broken("Revert_lazyfilter.cfg should violate FilterCoversChain, got %s" % r["violated"])
    if thorough:
        r = ctx.tlc_check("chain", "Revert.tla", "Revert_thorough.cfg", timeout=3000, coverage=True)
        vlib.require_actions_covered(r)
        ctx.tlc_check("chain", "Revert.tla", "Revert_casm_thorough.cfg", timeout=3000)

    bs = behaviours(ctx, "StateHistory_sim.cfg", 5 if thorough else 2, 17 * (150 if thorough else 50), fix, 0)
    # small alphabet around zero writes: most behaviours revert a block with a no-op zero write
    bs += behaviours(ctx, "StateHistory_h4sim.cfg", 2 if thorough else 1, 11 * (60 if thorough else 12), fix, 50)
    res = run_engine_keep(ctx, binary, "TestRevertReplay", {"behaviours": bs}, timeout=3000)
    ctx.absorb(res, "statehist", "TestRevertReplay")
    # concurrent round: readers of the retained blocks during Store ; RevertHead cycles
    nconc = 24 if thorough else 8
    cres = run_engine_keep(ctx, binary, "TestHistConcurrent",
                           {"behaviours": bs[:nconc], "rounds": 120 if thorough else 40, "readers": 4, "mode": "revert"}, timeout=1500)
    ctx.absorb(cres, "statehist", "TestHistConcurrent")
    report_observations(ctx, cres)
    ctx.coverage["concurrent_rounds"] = cres.get("replayed", 0)
    # the binding self-test comes last: it can only turn a clean run into Broken, never hide a violation
    if not ctx.violations:
        selftest(ctx, binary, "TestRevertReplay", bs, corrupt_idx)
    note_unreproduced(ctx)
    ctx.coverage["behaviours_generated"] = len(bs)
    ctx.coverage["steps_replayed"] = res.get("steps", 0)
    ctx.coverage["model_fix_h4"] = fix
    ctx.assumptions += [
        "a transaction hash occurs at most once on a chain (it may return on another fork)",
        "system contracts 0x1/0x2 never receive a zero write (SysZeroWrites = FALSE)",
        "a class is declared at most once per chain and every class definition a block delivers is listed in its declared classes",
        "chains stay inside one bloom-filter window (8192 blocks); the running event filter is compared through event queries",
        "databases compared as complete key/value dumps of db/memory; pebble equivalence is C15",
        "values returned by the API (blocks, state updates, transactions, receipts, commitments, reverse diffs, class definitions) and the inputs of Store are re-encoded after every later step and must not have changed",
        "after a Restart step nothing is read through the new process before the next step (so that step is its first operation)",
    ]
    return ctx.finish(
        "model_checking",
        "exhaustive TLC on bounded configurations of Revert.tla / StateHistory.tla + TLC simulation behaviours "
        "(apply/revert walks with forks of depth <= 6, blocks carrying declare+deploy, L1-handler and re-included "
        "transactions, CASM migration, zero and same-value writes) replayed on both state backends; non-trivial = "
        "the behaviour stores a block after a revert (a fork; counted as behaviours_with_fork); every revert is "
        "compared with the pre-store dump and with a twin node")

"""C04 — reverting the head exactly undoes a block; forks converge to the same node
(spec/chain/Revert.tla over spec/chain/StateHistory.tla).

TLC: exhaustive check that for both state encodings and every per-block index family the
database is a function of the current chain only (Canon, IdxCanon: Store ; Revert = identity, a
node that followed fork A, reverted and followed fork B equals a node that followed B directly),
that no history log survives a revert (NoOrphanLogs), that lookups see exactly the current chain
(IdxSound), that a process restart anywhere is a no-op on the database (RRestartIsNoOp) and that
the lazily initialised running event filter covers exactly the current chain whatever was stored,
reverted or restarted before (FilterCoversChain) and that RevertHead never fails for a storable block (RevertNeverFails; verified on
the repaired model FixH4 = TRUE, the faithful model FixH4 = FALSE must exhibit H4).
Binding: TLC-simulated behaviours with forks are replayed into real blockchain.Blockchain nodes on
both state backends: RevertHead must succeed, the database dump after Store ; Revert must equal the
dump before the store, and after every revert / on every fork the node must equal - dump and full
reader / state / event sweep - a twin node that stored the current chain directly. The node under
test is restarted (new Blockchain object on the same store, with or without a written filter
snapshot) at random points, in particular right before RevertHead / Store; after every step all
event queries (unfiltered, by emitter, by key, paged) must equal a naive scan of the chain's receipts.

Window dimension (spec/chain/RevertWin.tla): the per-block event blooms are aggregated in windows of
8192 blocks; storing block k*8192+8191 persists the window's filter, reverting it must re-open the
window (persisted copy deleted, cached copy purged). Every transition of the model is a function on
node records, so the node that followed the current chain directly is a term (TwinOf) and the
properties are C04's own statement: DiskAsTwin, RunningAsTwin, AnswersAsTwin (every filter x range),
NextAsTwin (the node accepts what the twin accepts), CacheFresh, WRestartIsNoOp - exhaustive with
W = 3 / 4 over stores, reverts across two boundaries, cache-warming queries, graceful / crash
restarts; expected-violation configurations for each mechanism (purge offset, re-opened window left
on disk, snapshot not consumed). Binding: TLC-simulated behaviours on the real geometry (W = 8192,
base image of 8190 blocks, modelled blocks 8190..8194) are selected to cover the (situation,
action, situation) triples of the model and replayed on real nodes of both backends; after every
step the result and the disk (height, persisted windows and their bits, snapshot) are compared
with the specification and the whole database with a twin node; at the model's Query / Sweep steps
the event answers with the twin's and the specification's.
"""
import json
import vlib
from C03 import behaviours, h4_fixed, note_unreproduced, report_observations, run_engine_keep, selftest, H4_KEY


def corrupt_idx(b):
    """Claim one more block than the chain has."""
    while b["steps"] and b["steps"][-1]["a"]["name"] == "Restart":
        b["steps"].pop()          # nothing is observed right after a restart
    if not b["steps"] or b["steps"][-1]["res"] != "ok":
        return False
    b["steps"][-1]["idx"]["height"] += 1
    return True


WIN_EXPECTED = [   # (cfg, violated invariant, label)
    ("Revert_win_x_purgefirst.cfg", "AnswersAsTwin", "cache purged only when the first block of a window is reverted"),
    ("Revert_win_x_keepwindow.cfg", "DiskAsTwin", "re-opened window left on disk"),
]
WIN_EXPECTED_THOROUGH = [
    ("Revert_win_x_keepwindow_next.cfg", "NextAsTwin", "re-opened window left on disk, then crash: Store refused"),
    ("Revert_win_x_snapshot.cfg", "AnswersAsTwin", "shutdown snapshot not consumed"),
    ("Revert_win_x_noclear.cfg", "DiskAsTwin", "reverted block's column not cleared"),
    ("Revert_win_x_purgeallbutlast.cfg", "AnswersAsTwin", "cache purged at every offset but the last block of a window"),
]


def win_features(b):
    """(situation before, action, situation after) triples of one window behaviour. A situation is
    the model's own tag of the state (head position relative to the window boundary, running
    filter initialised?, cache warm?, snapshot on disk?)."""
    out = set()
    prev = ("init",)
    for st in b:
        a = st["a"]
        name = a["name"]
        if name == "Restart":
            name += ":graceful" if a.get("graceful") else ":crash"
        elif name == "Store":
            name += ":events" if a.get("blk") else ":empty"
        t = st["tag"]
        cur = (t["pos"], t["hot"], t["warm"], t["snap"])
        out.add((prev, name, cur))
        prev = cur
    return out


def win_kills(b):
    """{alternative mechanism: (action, head position) of the step that tells it from the code's}"""
    out = {}
    for st in b:
        for alt in st.get("kills", []):
            out[alt] = (st["a"]["name"], st["tag"]["pos"])
    return out


WIN_KILLS_EACH = 2      # behaviours kept per alternative mechanism (in different situations if there are)


def win_behaviours(ctx, n_pick, runs, depth, base=8190, tag=""):
    """Many cheap simulated behaviours, of which a few are kept: first, for every alternative
    mechanism of the model (MCRevertWin!AltMechs) behaviours that distinguish it from the code's
    mechanism; then a greedy cover of the situation triples. Deterministic per seed."""
    pool, alts = [], set()
    with open("%s/spec/chain/Revert_win_sim.cfg" % vlib.VERIF) as f:
        cfg = f.read().replace("Base = 8190", "Base = %d" % base)
    for i in range(runs + 2):
        pool += ctx.tlc_simulate("chain", "RevertWinMBT.tla", "gen_Revert_win_sim.cfg", depth=depth,
                                 seed=ctx.seed * 1000 + 700 + i + (0 if base == 8190 else 50), timeout=600,
                                 files={"gen_Revert_win_sim.cfg": cfg})
        kills = [win_kills(b) for b in pool]
        alts = set().union(*[set(k) for k in kills])
        if i + 1 >= runs and len(alts) >= 6:
            break
    if len(alts) < 6:
        raise vlib.Broken("window behaviours: only the alternatives %s are distinguished by %d generated behaviours" % (sorted(alts), len(pool)))
    feats = [win_features(b) for b in pool]
    universe = set().union(*feats)
    covered, picked = set(), []
    for alt in sorted(alts):
        seen_sit = set(kills[i][alt] for i in picked if alt in kills[i])
        have = sum(1 for i in picked if alt in kills[i])
        while have < WIN_KILLS_EACH and len(picked) < n_pick:
            cands = [i for i in range(len(pool)) if i not in picked and alt in kills[i]]
            if not cands:
                break
            best = max(cands, key=lambda i: (kills[i][alt] not in seen_sit, len(feats[i] - covered), -i))
            picked.append(best)
            covered |= feats[best]
            seen_sit.add(kills[best][alt])
            have += 1
    while len(picked) < n_pick:
        cands = [i for i in range(len(pool)) if i not in picked]
        if not cands:
            break
        best = max(cands, key=lambda i: (len(feats[i] - covered), -i))
        picked.append(best)
        covered |= feats[best]
    ctx.coverage["window_situation_triples" + tag] = "%d of %d seen in %d generated behaviours" % (len(covered), len(universe), len(pool))
    ctx.coverage["window_alternative_mechanisms_distinguished" + tag] = {
        alt: sum(1 for i in picked if alt in kills[i]) for alt in sorted(alts)}
    return [{"seed": ctx.seed * 100000 + 70000 + i, "steps": pool[i]} for i in picked]


def corrupt_window(b):
    """Claim a persisted window the chain has not completed."""
    st = b["steps"][-1]["st"]
    st["pers"] = st["pers"] + [{"w": 7, "bits": []}]
    return True


def window_part(ctx, binary, thorough):
    """spec/chain/RevertWin.tla: the window boundary of the event index under Store / Revert / Restart / Query."""
    ctx.tlc_check("chain", "MCRevertWin.tla", "Revert_win_quick.cfg", timeout=900)
    for cfg, inv, label in WIN_EXPECTED + (WIN_EXPECTED_THOROUGH if thorough else []):
        r = ctx.tlc_check("chain", "MCRevertWin.tla", cfg, timeout=900, expect_violation=True,
                          label="window: %s (violation expected)" % label)
        if r["violated"] != inv:
            raise vlib.Broken("%s should violate %s, got %s" % (cfg, inv, r["violated"]))
    if thorough:
        r = ctx.tlc_check("chain", "MCRevertWin.tla", "Revert_win_thorough.cfg", timeout=3000, coverage=True)
        vlib.require_actions_covered(r, ignore=("Sweep",))
        ctx.tlc_check("chain", "MCRevertWin.tla", "Revert_win_w4.cfg", timeout=3000)
        ctx.tlc_check("chain", "MCRevertWin.tla", "Revert_win_minpurge.cfg", timeout=900)
    wbs = win_behaviours(ctx, 60 if thorough else 12, 3 if thorough else 1, 15 * (400 if thorough else 250))
    payload = {"w": 8192, "base": 8190, "behaviours": wbs}
    res = run_engine_keep(ctx, binary, "TestRevertWindowReplay", payload, timeout=3000)
    ctx.absorb(res, "statehist", "TestRevertWindowReplay")
    ctx.coverage["window_behaviours"] = len(wbs)
    if thorough and not ctx.violations:
        # the same boundary one window up: the base image holds a complete (persisted) window, the
        # rebuild after a crash anchors on it, queries cache two windows
        w2 = win_behaviours(ctx, 24, 2, 15 * 400, base=16382, tag="_base16382")
        res = run_engine_keep(ctx, binary, "TestRevertWindowReplay", {"w": 8192, "base": 16382, "behaviours": w2}, timeout=3000)
        ctx.absorb(res, "statehist", "TestRevertWindowReplay")
        ctx.coverage["window_behaviours_base16382"] = len(w2)
    return wbs


def win_selftest(ctx, binary, wbs):
    c = json.loads(json.dumps(wbs[0]))
    corrupt_window(c)
    res = ctx.run_engine(binary, "TestRevertWindowReplay", {"w": 8192, "base": 8190, "behaviours": [c], "backends": ["new"]})
    if not res.get("divergences"):
        raise vlib.Broken("binding self-test: TestRevertWindowReplay accepted a behaviour with a falsified expectation")
    ctx.coverage["selftest_window"] = "falsified expectation rejected (%s)" % res["divergences"][0]["key"]


def run(ctx):
    binary = ctx.build_engine("statehist")
    if ctx.replay:
        with open(ctx.replay) as f:
            rp = json.load(f)
        res = ctx.run_engine(binary, rp["test"], rp["input"])
        ctx.absorb(res, "statehist", rp["test"])
        return ctx.finish("model_checking", "replay of one recorded behaviour")

    thorough = not ctx.quick()
    fix = h4_fixed()
    ctx.tlc_check("chain", "Revert.tla", "Revert_quick.cfg", timeout=900)
    ctx.tlc_check("chain", "Revert.tla", "Revert_sys_quick.cfg", timeout=900)
    # the faithful model must show the known defect, otherwise the switch does not model it
    r = ctx.tlc_check("chain", "MCStateHistory.tla", "StateHistory_h4.cfg", timeout=900, expect_violation=True,
                      label="faithful model FixH4=FALSE (violation expected)")
    if r["violated"] != "RevertNeverFails":
        raise vlib.Broken("the faithful model (FixH4 = FALSE) should violate RevertNeverFails, got %s" % r["violated"])
    # model sensitivity to Restart: a running event filter rolled back after the revert's commit
    # must be caught (a restart right before RevertHead then clears a canonical block)
    r = ctx.tlc_check("chain", "Revert.tla", "Revert_lazyfilter.cfg", timeout=900, expect_violation=True,
                      label="filter rolled back after commit (violation expected)")
    if r["violated"] != "FilterCoversChain":
        raise vlib.Broken("Revert_lazyfilter.cfg should violate FilterCoversChain, got %s" % r["violated"])
    if thorough:
        r = ctx.tlc_check("chain", "Revert.tla", "Revert_thorough.cfg", timeout=3000, coverage=True)
        vlib.require_actions_covered(r)
        ctx.tlc_check("chain", "Revert.tla", "Revert_casm_thorough.cfg", timeout=3000)

    bs = behaviours(ctx, "StateHistory_sim.cfg", 5 if thorough else 2, 17 * (150 if thorough else 50), fix, 0)
    # small alphabet around zero writes: most behaviours revert a block with a no-op zero write
    bs += behaviours(ctx, "StateHistory_h4sim.cfg", 2 if thorough else 1, 11 * (60 if thorough else 12), fix, 50)
    res = run_engine_keep(ctx, binary, "TestRevertReplay", {"behaviours": bs}, timeout=3000)
    ctx.absorb(res, "statehist", "TestRevertReplay")
    # concurrent round: readers of the retained blocks during Store ; RevertHead cycles
    nconc = 24 if thorough else 8
    cres = run_engine_keep(ctx, binary, "TestHistConcurrent",
                           {"behaviours": bs[:nconc], "rounds": 120 if thorough else 40, "readers": 4, "mode": "revert"}, timeout=1500)
    ctx.absorb(cres, "statehist", "TestHistConcurrent")
    report_observations(ctx, cres)
    ctx.coverage["concurrent_rounds"] = cres.get("replayed", 0)
    # the window boundary of the event index (RevertWin.tla) on the real geometry
    wbs = window_part(ctx, binary, thorough)
    # the binding self-test comes last: it can only turn a clean run into Broken, never hide a violation
    if not ctx.violations:
        selftest(ctx, binary, "TestRevertReplay", bs, corrupt_idx)
        win_selftest(ctx, binary, wbs)
    note_unreproduced(ctx)
    ctx.coverage["behaviours_generated"] = len(bs)
    ctx.coverage["steps_replayed"] = res.get("steps", 0)
    ctx.coverage["model_fix_h4"] = fix
    ctx.assumptions += [
        "a transaction hash occurs at most once on a chain (it may return on another fork)",
        "system contracts 0x1/0x2 never receive a zero write (SysZeroWrites = FALSE)",
        "a class is declared at most once per chain and every class definition a block delivers is listed in its declared classes",
        "the state / index alphabet of Revert.tla is replayed inside one bloom-filter window; the window boundary (8191|8192) is covered by RevertWin.tla with plain blocks that carry events and one storage write",
        "between the steps of a window behaviour nothing is read through the node (an event query warms its cache of persisted windows, which is model state); a twin is never restarted and never reverts",
        "databases compared as complete key/value dumps of db/memory; pebble equivalence is C15",
        "values returned by the API (blocks, state updates, transactions, receipts, commitments, reverse diffs, class definitions) and the inputs of Store are re-encoded after every later step and must not have changed",
        "after a Restart step nothing is read through the new process before the next step (so that step is its first operation)",
    ]
    return ctx.finish(
        "model_checking",
        "exhaustive TLC on bounded configurations of Revert.tla / StateHistory.tla + TLC simulation behaviours "
        "(apply/revert walks with forks of depth <= 6, blocks carrying declare+deploy, L1-handler and re-included "
        "transactions, CASM migration, zero and same-value writes) replayed on both state backends; non-trivial = "
        "the behaviour stores a block after a revert (a fork; counted as behaviours_with_fork); every revert is "
        "compared with the pre-store dump and with a twin node")

"""G04 (specification growth, not a listed property) — the JSON-RPC WebSocket transport and the
connection-scoped server behaviour that C11 leaves out (jsonrpc/websocket.go, Server.HandleReadWriter,
the Conn handed to handlers through the context).  Run with ./check G04; evidence/G04.json.

Specification spec/ws/WsConn.tla: ONE connection — the client sends a sequence of frames (requests,
notifications, batches, garbage, oversized messages), the server loop handles them one after the
other (that is what the code does), a batch's entries run on the worker pool in any completion
order, handlers keep the connection and subscription goroutines write notifications through it,
the client closes, the server shuts down.  The CONTENT of every answer is not re-modelled: it is what
spec/jsonrpc/JsonRpc.tla (C11) prescribes, through an INSTANCE of that module.

TLC (exhaustive): (1) one response frame per frame that owes one, never two, none for
notifications, with the entries / ids / codes of the single-shot model; each valid request invokes
its handler exactly once; (2) frames are whole (two-step writes under the per-message mutex;
without the mutex TLC exhibits the torn frame); (3) once ServeHTTP has returned the connection
context is cancelled, nothing is written any more, a failed write puts nothing on any wire, every
subscription goroutine is eventually told (liveness under weak fairness); (4) responses in request
order (sequential loop), a subscription's notifications FIFO and gap-free, nothing overtakes the
initial response of the message that created the subscription (without the `activated` wait TLC
exhibits the overtaking), nothing follows the answer of the unsubscribe; (5) an oversized message
is never answered / dispatched, the connection is closed with 1009; a connection the server ends
because it cannot serialise an answer is closed with 1011 (switch FixCloseReason: as the code is, NOT
when the error text exceeds 123 bytes - finding ws-close:no-close-frame:reason-longer-than-123-bytes); (6) MESSAGE FRAMING:
a client message is one compact frame, or cut into non-final frames closed by an empty FIN frame (a streaming writer), or
followed by insignificant whitespace inside the read limit; HandleReader stops at the end of the first JSON value, the loop
drains the rest (mechanism switch DrainRemainder; without it TLC exhibits the connection ended with 1011 / 1002 and a LATER
message never answered): the server ends a connection only for a documented reason, every owed frame of every later message
is answered (PDocumentedExit, PLaterAnswered).

Binding: TLC-simulated connection behaviours are replayed against a real jsonrpc.Server mounted as
websocket handler in an in-process httptest server with a real coder/websocket client; handler
completion order is enforced by gates in the recording handlers, notification writes happen when the
scheduler says so; every frame the client receives is compared with the frame the model put on the
wire at that step; every exchange is also sent through HandleReader and the HTTP handler of a twin
server.  Plus free-running stress rounds (monitor = property (2) and the ordering promises) and
directed rounds for the races the scheduler cannot steer (shutdown / abrupt close in flight,
read-limit boundary, two connections, internal-error close with short / long reason; the last one
doubles as the probe that sets FixCloseReason for the TLC runs; FRAMING: a first message in each of ten shapes - one / three
non-final frames + empty FIN, whitespace in a frame of its own, a value of exactly 128 / 512 bytes + newline, a value + hundreds
of spaces, as request / notification / batch - followed by three later requests that must all be answered). The replayed
behaviours and the stress load use the three framings, too.
"""
import json
import os
import vlib
from vlib import log

FAMILY = "ws"
INVS = ("TypeOK POnePerFrame PContent PInvocations PWholeFrames PRespFIFO PNotesFIFO PAfterActivation "
        "PNoNoteAfterUnsub PClientView PReadLimit PCloseIsLast PDocumentedExit PLaterAnswered PDrained")


def spec_files():
    with open(os.path.join(vlib.VERIF, "spec", "jsonrpc", "JsonRpc.tla")) as f:
        return {"JsonRpc.tla": f.read()}


def behaviours_of(ctx, n, depth, files):
    out = []
    for i in range(n):
        rows = ctx.tlc_simulate(FAMILY, "WsConnMBT.tla", "WsConn_sim.cfg", depth=depth, seed=ctx.seed * 1000 + i,
                                timeout=900, files=files)
        out += [{"steps": r["steps"]} for r in rows if r.get("steps")]
    return out


def run_engine_checked(ctx, binary, test, payload, timeout=1500):
    res = ctx.run_engine(binary, test, payload, timeout=timeout)
    st = res.get("stats", {})
    if "panic:" in res.get("_stdout", "") or "DATA RACE" in res.get("_stdout", ""):
        raise vlib.Broken("engine %s panicked:\n%s" % (test, res["_stdout"][-3000:]))
    ctx.absorb(res, "ws", test)
    if st.get("harness_timeouts") and not res.get("divergences"):
        # never a verdict; but it must not hide a divergence another part has positively observed
        ctx.g04_broken = getattr(ctx, "g04_broken", []) + [
            "%s: an awaited event of the real server did not come within the harness deadline (harness timeout, "
            "not a verdict): %s" % (test, res.get("samples"))]
    return res


def run(ctx):
    # C11's known finding shows on this transport too: same keys, recognised here as known
    ctx.known += [k for k in vlib.load_known("C11") if k["key"].startswith("jsonrpc:nonrequest-parse-error")]
    binary = ctx.build_engine("ws")
    if ctx.replay:
        with open(ctx.replay) as f:
            rp = json.load(f)
        run_engine_checked(ctx, binary, rp["test"], rp["input"])
        if getattr(ctx, "g04_broken", None) and not ctx.violations:
            raise vlib.Broken("; ".join(ctx.g04_broken))
        return ctx.finish("model_checking", "replay of one recorded behaviour / round")

    thorough = not ctx.quick()
    files = spec_files()

    # ---- probe + directed rounds first: is the close-reason defect (still) in the code?  The answer sets the
    # model's switch (the faithful model = the code as it is) and is itself reported with its key.
    dres = run_engine_checked(ctx, binary, "TestWsDirected", {"seed": ctx.seed, "rounds": 60 if thorough else 10})
    dst = dres.get("stats", {})
    if not dst.get("framing_shapes_followed_by_answered_later_requests") and not ctx.violations and not getattr(ctx, "g04_broken", None):
        raise vlib.Broken("the framing rounds observed nothing: %s" % dst)
    if not (dst.get("long_close_reason_dropped") or dst.get("long_close_reason_delivered")):
        if not getattr(ctx, "g04_broken", None) and not ctx.violations:
            raise vlib.Broken("the close-reason probe observed nothing: %s" % dst)
    fixed_reason = not dst.get("long_close_reason_dropped")
    log("close-reason probe: the code %s" % ("sends the close frame for long error texts (repaired)" if fixed_reason
                                             else "drops the close frame for error texts longer than 123 bytes (as-is model)"))
    ctx.coverage["model_switch_FixCloseReason"] = fixed_reason

    def cfg_text(cfg):
        with open(os.path.join(vlib.VERIF, "spec", FAMILY, cfg)) as f:
            t = f.read()
        return t.replace("FixCloseReason = FALSE", "FixCloseReason = TRUE") if fixed_reason else t

    def check(cfg, label, **kw):
        f = dict(files)
        f[cfg] = cfg_text(cfg)
        return ctx.tlc_check(FAMILY, "MCWsConn.tla", cfg, files=f, label=label, **kw)

    # ---- TLC: the code as it is
    r = check("WsConn_core4.cfg" if thorough else "WsConn_core3.cfg", timeout=3000, coverage=True,
              label="as-is: <= %d frames, 2 subscriptions, every completion order / notification placement" % (4 if thorough else 3))
    vlib.require_actions_covered(r, ignore=("ClientClose", "ServerShutdown", "RespEnd", "RespFail", "RespUnser", "TailClose", "ServerExit",
                                            "NoteEnd", "NoteFail", "Told", "FinishCancelled", "ReadDesync"))
    r = check("WsConn_end3.cfg" if thorough else "WsConn_end2.cfg", timeout=3000, coverage=not thorough,
              label="as-is: client close, shutdown, read limit; <= %d frames" % (3 if thorough else 2))
    if not thorough:
        vlib.require_actions_covered(r, ignore=("RespEnd", "NoteEnd", "ReadDesync"))
    r = check("WsConn_mutex4.cfg" if thorough else "WsConn_mutex3.cfg", timeout=3000, coverage=not thorough,
              label="as-is: two-step writes under the per-message mutex")
    if not thorough:
        vlib.require_actions_covered(r, ignore=("ClientClose", "ServerShutdown", "RespFail", "RespUnser", "TailClose", "ServerExit", "NoteFail",
                                                "Told", "FinishCancelled", "GorExit", "RespNone", "ReadDesync"))
    check("WsConn_framing.cfg" if thorough else "WsConn_framing2.cfg", timeout=3000,
          label="as-is: message framing (single frame / fragmented with an empty FIN frame / padding behind the value), <= %d messages" % (3 if thorough else 2))
    check("WsConn_content2.cfg", timeout=3000, label="as-is: every answer class of C11 singly and in batches, <= 2 frames")
    check("WsConn_live.cfg", timeout=3000, label="as-is: every subscription goroutine is eventually told (weak fairness)")
    # the repaired model (FixCloseReason) satisfies the promise without deviation; the as-is model must violate it
    check("WsConn_closefixed.cfg", timeout=3000, label="repaired: internal-error close always carries 1011")
    if not fixed_reason:
        h = check("WsConn_pureclose.cfg", "as-is vs pure promise: PureInternalClose must fail", timeout=600, expect_violation=True)
        if h["violated"] != "PureInternalClose":
            raise vlib.Broken("the as-is model no longer exhibits the close-reason deviation (%s)" % h["violated"])
        ctx.tlc_runs[-1]["expected_violation"] = "PureInternalClose"
    # ---- the switches bite: without the library's mutex / without the `activated` wait TLC shows the failure
    for cfg, inv in (("WsConn_nomutex.cfg", "PWholeFrames"), ("WsConn_noact.cfg", "PAfterActivation"), ("WsConn_nodrain.cfg", "PLaterAnswered")):
        h = check(cfg, "switch off: %s must fail" % inv, timeout=600, expect_violation=True)
        if h["violated"] != inv:
            raise vlib.Broken("the model without the mechanism no longer violates %s (%s)" % (inv, h["violated"]))
        ctx.tlc_runs[-1]["expected_violation"] = inv

    # ---- binding 1: replay of simulated behaviours
    sim_files = dict(files)
    sim_files["WsConn_sim.cfg"] = cfg_text("WsConn_sim.cfg")
    behaviours = behaviours_of(ctx, 8 if thorough else 2, 25000 if thorough else 12000, sim_files)
    res = run_engine_checked(ctx, binary, "TestWsReplay", {"behaviours": behaviours, "seed": ctx.seed})
    if res.get("replayed", 0) < 0.9 * len(behaviours) and not res.get("divergences") and not getattr(ctx, "g04_broken", None):
        raise vlib.Broken("engine replayed too little: %s of %s" % (res.get("replayed"), len(behaviours)))
    rst = res.get("stats", {})
    if not res.get("divergences") and not getattr(ctx, "g04_broken", None) and not (
            rst.get("messages_sent_fragmented_with_empty_fin") and rst.get("messages_sent_with_padding_behind_the_value")):
        raise vlib.Broken("the replayed behaviours sent no fragmented / padded messages: %s" % rst)
    # ---- binding 2: free-running writers, monitor = frame integrity + ordering promises
    run_engine_checked(ctx, binary, "TestWsStress", {"seed": ctx.seed, "conns": 6 if thorough else 4,
                                                      "requests": 1500 if thorough else 300, "rounds": 12 if thorough else 3})

    if getattr(ctx, "g04_broken", None) and not ctx.violations:
        raise vlib.Broken("; ".join(ctx.g04_broken))
    ctx.coverage["harness_parts_timed_out"] = len(getattr(ctx, "g04_broken", []))
    ctx.coverage["simulated_behaviours"] = len(behaviours)
    ctx.coverage["exhaustive"] = False
    ctx.assumptions += [
        "frames are handled sequentially per connection because jsonrpc.Websocket.ServeHTTP does so; response order = request "
        "order is the code's behaviour, not a JSON-RPC requirement",
        "whole-frame atomicity of concurrent writers is delegated by juno to coder/websocket's per-message mutex (WriteMutex)",
        "between the shutdown signal and ServeHTTP's return a handler-initiated write may still reach the SAME connection; "
        "after the return every write fails",
        "unsubscribe semantics (cancel, wait for the goroutine, then answer) are those of the harness handlers, mirroring "
        "rpc/v10 Unsubscribe; juno's rpc package is not linked",
        "the WithRequestTimeout option and the connection semaphore (WithMaxConnections) are not modelled",
        "message framing is abstracted to three shapes (one compact frame; non-final frames + empty FIN frame; a value followed by "
        "whitespace inside the read limit); control frames interleaved with the fragments of a message and compression are the library's",
    ]
    return ctx.finish(
        "model_checking",
        "exhaustive TLC on WsConn.tla (answer content by INSTANCE of JsonRpc.tla) for <= 3/4 frames, 2 subscriptions, every "
        "pool completion order and notification placement, close / shutdown / read limit, two-step writes, liveness of 'told'; "
        "TLC-simulated connection behaviours (<= 6 frames of <= 3 entries, 2 subscriptions x 3 notifications) replayed on a "
        "real jsonrpc.Server behind the real websocket handler with a real client, handler completion order and notification "
        "writes enforced by gates, every received frame compared with the model's wire, every exchange compared with "
        "HandleReader and HTTP; free-running stress rounds with a per-frame monitor; directed rounds for shutdown / abrupt "
        "close in flight, read-limit boundary, two connections; non-trivial = a behaviour in which the client received and "
        "matched at least one frame")

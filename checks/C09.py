"""C09 — event queries return exactly the matching events, in order, for any paging (spec/chain/Events.tla).

TLC: (i) the REPAIRED design (all defect switches TRUE) is checked exhaustively: every query's
concatenated pages equal the naive scan, no block's atoms are missing from the column the query
path consults, the index never blocks Store/RevertHead — over all histories of stores, reverts
across window boundaries, cache-warming queries and graceful/ungraceful restarts within the bounds,
and (separate configuration) over every filter x range x chunk size x scan limit.

Expectation for the tree under test: a defect switch is FALSE only while known_findings.json lists
one of its keys with status "known"; "fixed" (or not listed) means the REPAIRED model is what the
code must conform to. The tree under test never decides its own expectation.

Binding, every run:
(ii) directed behaviours judged by the ORACLE alone (naive scan of the receipts the harness stored;
Store/RevertHead must not be refused): TLC's minimal counterexample of every defect switch (the
faithful model with that switch FALSE, real geometry W = 8192 / base 8188) plus hand-written
boundary variants (revert exactly k*8192-1 with a warm cache, revert k*8192 then k*8192-1 with a
query in between, deeper reorgs, the snapshot and persisted-window variants);
(iii) TLC-simulated behaviours of the expected model replayed on a real blockchain.Blockchain and
compared step by step (results, pages, tokens, persisted windows, snapshot) plus the same oracle;
every page handed back is kept and re-read after every later call (aliasing), some behaviours run
on a store that scribbles over every buffer it lent, some on a pruned node (floor > 0);
(iv) a concurrent round: queries from several goroutines for the whole lifetime of a writer that
stores and reorgs across the boundary (stable-range exactness, provenance/order of every event,
exactness at quiescence before and after a restart).
Every divergence is a violation; an omission is labelled with the key of the known defect whose
signature it has (differential experiment on copies of the database), so a returning "fixed"
defect is reported under its own key. Only for a "known" switch the check additionally replays the
minimal counterexample as a diagnostic: if the finding no longer reproduces it prints a NOTE (the
list should be updated) and continues with the repaired expectation.
"""
import json
import os
import random
import re

import vlib

FAMILY = "chain"
SWITCHES = ["DropReopenedWindow", "InvalidateCacheOnReorg", "SnapshotConsumedOnLoad"]
# per switch: invariant that exports the counterexample, graceful stops needed, the keys of the defect,
#             and the signatures of the first divergence that show a tree is REPAIRED for it
CEX = {
    "DropReopenedWindow": ("CexBlocked", 0,
                           ("event-index:store-rejected-after-reorg-across-window-then-crash",
                            "event-index:stale-persisted-window-after-reorg-across-window-then-crash"),
                           ("event-index:conformance:Revert:persisted-missing",)),
    "InvalidateCacheOnReorg": ("CexQuery", 0, ("event-index:stale-cache-after-reorg-across-window",),
                               ("model-predicts-defect-not-in-code",)),
    "SnapshotConsumedOnLoad": ("CexQuery", 1, ("event-index:stale-snapshot-after-reorg-then-crash",),
                               ("model-predicts-defect-not-in-code", ":snapshot-presence")),
}

# ---- directed scenarios (actions only: judged by the oracle). Block numbers are relative to the base.
_E = []                                              # empty block
_X = [[{"a": "a1", "k": ["k1"]}]]                    # one tx, one event (a1, k1)
_Y = [[{"a": "a2", "k": ["k2", "k1"]}], [{"a": "a1", "k": ["k2"]}]]
_FK1 = {"addrs": [], "keys": [["k1"]]}
_FA1 = {"addrs": ["a1"], "keys": []}
_FP1 = {"addrs": [], "keys": [[], ["k1"]]}
_FK2 = {"addrs": ["a1", "a2"], "keys": [["k2"]]}


def _S(blk):
    return {"a": {"name": "Store", "blk": blk}}


_R = {"a": {"name": "Revert"}}
_G = {"a": {"name": "Restart", "graceful": True}}
_C = {"a": {"name": "Restart", "graceful": False}}


def _scenarios(base):
    def Q(f, frm=0, to=None, chunk=100, limit=0):
        return {"a": {"name": "Query", "f": f, "from": frm, "to": base + 12 if to is None else to,
                      "chunk": chunk, "limit": limit}}

    # to = -1 is blockchain.PreConfirmedFilterSentinel (the "pre_confirmed" tag as range end)
    probes = [Q(_FK1), Q(_FA1, chunk=1), Q(_FP1, limit=1), Q(_FK2, chunk=2, limit=2),
              Q(_FK1, to=-1, chunk=2), Q(_FA1, frm=base + 2, to=-1, chunk=1, limit=1), Q(_FK1, frm=base + 5, to=base + 1)]
    to_boundary = [_S(_E)] * 3 + [_S(_Y)]             # base+0 .. base+3 = k*8192-1: the window is completed
    sc = {
        # H1 family: the LRU of persisted windows and reorgs around the boundary
        "revert-last-block-of-window-with-warm-cache":
            to_boundary + [Q(_FK1)] + [_R, _S(_X)] + probes,
        "revert-first-block-of-next-window-then-query-then-last-block-of-window":
            to_boundary + [_S(_X), Q(_FK1), _R, Q(_FA1), _R, _S(_X), _S(_Y)] + probes,
        "deeper-reorg-across-boundary-with-warm-cache":
            to_boundary + [_S(_X), _S(_E), Q(_FK1), _R, _R, _R, _R, _S(_X), _S(_X), _S(_Y), _S(_X)] + probes,
        "deeper-reorg-across-boundary-queries-between-reverts":
            to_boundary + [_S(_X), _S(_E), Q(_FK1), _R, Q(_FK1), _R, Q(_FK1), _R, Q(_FK1), _R,
                           _S(_X), Q(_FK1), _S(_X), Q(_FK1), _S(_Y), _S(_X)] + probes,
        "two-reorgs-across-boundary":
            to_boundary + [Q(_FK1), _R, _S(_X), Q(_FK1), _R, _R, _S(_Y), _S(_X), _S(_X)] + probes,
        # H2 family: the shutdown snapshot
        "snapshot-then-reorg-then-crash":
            [_S(_E), _G, _R, _S(_X), _C] + probes,
        "snapshot-then-reorg-grow-then-crash-same-window-fill":
            [_S(_E), _S(_E), _G, _R, _R, _S(_X), _S(_Y), _S(_X), _C] + probes,
        "snapshot-fill-reaches-window-end":
            [_S(_E), _S(_E), _G, _R, _S(_X), _S(_E), _S(_Y), _C] + probes + [_C] + probes,
        "snapshot-above-boundary-then-reorg-across-then-crash":
            to_boundary + [_S(_E), _G, _R, _R, _S(_X), _S(_X), _C] + probes,
        # H19 family: the persisted filter of a re-opened window
        "reorg-across-boundary-then-crash-then-store":
            to_boundary + [_R, _C, _S(_X), _S(_E)] + probes,
        "reorg-across-boundary-replace-then-crash":
            to_boundary + [_R, _R, _S(_X), _C] + probes + [_S(_Y), _S(_X)] + probes,
        "reorg-across-boundary-graceful-then-crash":
            to_boundary + [_S(_E), _R, _R, _G, _S(_X), _C, _S(_X), _S(_Y)] + probes,
    }
    return sc


def _read(name):
    with open(os.path.join(vlib.VERIF, "spec", FAMILY, name)) as f:
        return f.read()


def _render(text, consts=None, invariant=None, properties=None):
    for k, v in (consts or {}).items():
        if isinstance(v, bool):
            v = "TRUE" if v else "FALSE"
        text, n = re.subn(r"(?m)^(\s*%s\s*=\s*).*$" % re.escape(k), r"\g<1>%s" % v, text)
        if n != 1:
            raise vlib.Broken("cfg template has no constant %s" % k)
    if invariant:
        text = re.sub(r"(?m)^INVARIANTS.*$", "INVARIANTS " + invariant, text)
    if properties:
        text = re.sub(r"(?m)^PROPERTIES.*$", "PROPERTIES " + properties, text)
    return text


_COV = re.compile(r"(?m)^<(\w+) line \d+, col \d+ to line \d+, col \d+ of module Events(?: \([\d ]+\))?>: (\d+):(\d+)")


def _require_covered(res, actions):
    """vacuity guard: every action of the exhaustive run generated successor states"""
    taken = {m.group(1): int(m.group(3)) for m in _COV.finditer(res["out"])}
    zero = [a for a in actions if taken.get(a, 0) == 0]
    if zero:
        raise vlib.Broken("vacuity: actions never taken in %s: %s (coverage seen: %s)" % (res["label"], zero, taken))
    return taken


def _cex_from(out):
    best = None
    for line in out.splitlines():
        if line.startswith('"['):
            try:
                b = json.loads(json.loads(line))
            except Exception:
                continue
            if best is None or len(b) < len(best):
                best = b
    return best


def _known_switch_state(ctx):
    """switch = FALSE (defective model expected) only while one of its keys is listed `known`"""
    state = {}
    for sw in SWITCHES:
        keys = CEX[sw][2]
        state[sw] = not any(k["status"] == "known" and any(vlib.key_matches(k["key"], x) for x in keys)
                            for k in ctx.known)
    return state


def run(ctx):
    binary = ctx.build_engine("events")
    if ctx.replay:
        with open(ctx.replay) as f:
            rp = json.load(f)
        res = ctx.run_engine(binary, rp["test"], rp["input"])
        ctx.absorb(res, "events", rp["test"])
        return ctx.finish("model_checking", "replay of one recorded behaviour")

    thorough = not ctx.quick()
    notes = []

    # ---- (i) the repaired design, exhaustively
    ctx.tlc_check(FAMILY, "MCEvents.tla", "Events_quick.cfg", timeout=900)
    ctx.tlc_check(FAMILY, "MCEvents.tla", "Events_paging.cfg", timeout=900)
    if thorough:
        r = ctx.tlc_check(FAMILY, "MCEvents.tla", "Events_thorough.cfg", timeout=1500, coverage=True)
        ctx.coverage["action_coverage_thorough"] = _require_covered(r, ("Store", "Revert", "Restart", "Next"))  # Next = Query
        ctx.tlc_check(FAMILY, "MCEvents.tla", "Events_paging_thorough.cfg", timeout=1500)
        # the model of the code before the fixes: every false negative it can produce has one of the
        # three known causes, and each switch alone only produces its own (soundness of the keys)
        blame = _read("Events_blame.cfg")
        ctx.tlc_check(FAMILY, "MCEvents.tla", "Events_blame.cfg", timeout=1500)
        for sw, prop in (("InvalidateCacheOnReorg", "OnlyCacheToBlame"),
                         ("SnapshotConsumedOnLoad", "OnlySnapshotToBlame"),
                         ("DropReopenedWindow", "OnlyPersistedToBlame")):
            consts = {x: True for x in SWITCHES}
            consts[sw] = False
            ctx.tlc_check(FAMILY, "MCEvents.tla", "Events_blame_run.cfg", timeout=1500,
                          files={"Events_blame_run.cfg": _render(blame, consts, properties=prop)},
                          label="blame:%s=FALSE/%s" % (sw, prop))

    # ---- the expectation comes from the committed list, never from the tree under test
    state = _known_switch_state(ctx)

    # ---- (ii) directed behaviours, judged by the oracle: TLC's minimal counterexample of every
    #      defect switch + boundary variants
    cex_tpl = _read("Events_cex.cfg")
    directed, names = [], []
    for sw in SWITCHES:
        inv, graceful, keys, repaired_sigs = CEX[sw]
        runs = [(inv, graceful)]
        if sw == "DropReopenedWindow":
            runs.append(("CexQuery", 0))      # the same root cause also yields false negatives
        for inv_i, graceful_i in runs:
            consts = {x: True for x in SWITCHES}
            consts[sw] = False
            consts["MaxGraceful"] = graceful_i
            r = ctx.tlc_check(FAMILY, "MCEvents.tla", "Events_cex_run.cfg", workers=1, timeout=600,
                              expect_violation=True,
                              files={"Events_cex_run.cfg": _render(cex_tpl, consts, inv_i)},
                              label="cex:%s=FALSE/%s" % (sw, inv_i))
            beh = _cex_from(r["out"]) if not r["ok"] else None
            if not beh:
                raise vlib.Broken("the faithful model (%s = FALSE) has no %s counterexample within Events_cex.cfg" % (sw, inv_i))
            directed.append(beh)
            names.append("tlc-minimal:%s=FALSE/%s" % (sw, inv_i))
            if not state[sw] and inv_i == inv:
                # diagnostic for a `known` finding only: does it still reproduce?
                res = ctx.run_engine(binary, "TestEventsReplay",
                                     {"w": 8192, "base": 8188, "behaviours": [beh], "mode": "calibrate", "variants": [0]},
                                     timeout=900)
                cal = res.get("stats", {}).get("calibration", [{}])[0]
                present = bool(cal.get("conform")) and any(k in (cal.get("defects") or []) for k in keys)
                fkey = cal.get("first_divergence_key") or ""
                nic = res.get("stats", {}).get("notes_model_predicts_defect_not_in_code") or []
                gone = (not present) and (bool(nic) or any(fkey == sig or fkey.endswith(sig) for sig in repaired_sigs))
                if gone:
                    notes.append("known finding %s no longer reproduces on this tree (minimal counterexample of %s = FALSE "
                                 "passes) - known_findings.json should be updated; continuing with the repaired expectation"
                                 % (keys[0], sw))
                    state[sw] = True
    for nm, beh in sorted(_scenarios(8188).items()):
        directed.append(beh)
        names.append(nm)
    # ... on an archive node (variants 0/7/3/4) and on a PRUNED node (variants 16+: blocks below a
    # floor > 0 removed with pruner.PruneUpto; pruner.InitializeRunningEventFilter + seeded RetentionFloor)
    rnd = random.Random(ctx.seed)
    both = directed + directed
    metas = [{"variant": v, "seed": rnd.randrange(1 << 40)}
             for v in ([[0, 7, 3, 4][i % 4] for i in range(len(directed))] +
                       [[16, 24, 20, 16][i % 4] for i in range(len(directed))])]
    res = ctx.run_engine(binary, "TestEventsReplay",
                         {"w": 8192, "base": 8188, "behaviours": both, "meta": metas, "mode": "oracle"}, timeout=1800)
    ctx.absorb(res, "events", "TestEventsReplay")
    total_beh, total_steps = len(both), res.get("steps", 0)
    # three index windows (two complete ones below the modelled blocks): 16 380-block image
    d3 = [beh for _, beh in sorted(_scenarios(16380).items())]
    res3 = ctx.run_engine(binary, "TestEventsReplay", {"w": 8192, "base": 16380, "behaviours": d3, "mode": "oracle",
                                                      "variants": [0, 8, 16, 4] if not thorough else [0, 7, 3, 4, 16, 25]},
                          timeout=1800)
    ctx.absorb(res3, "events", "TestEventsReplay")
    total_beh += len(d3)
    total_steps += res3.get("steps", 0)
    ctx.coverage["directed_behaviours"] = names
    ctx.coverage["switches_expected"] = {k: ("TRUE" if v else "FALSE") for k, v in state.items()}

    # ---- (iii) behaviours of the expected model, replayed on the real node
    sim_tpl = _read("Events_sim.cfg")
    nruns = 8 if thorough else 2
    per_run = 260 if thorough else 110
    behaviours = []
    for i in range(nruns):
        cfg = _render(sim_tpl, state)
        behaviours += ctx.tlc_simulate(FAMILY, "EventsMBT.tla", "Events_sim_run.cfg", depth=25 * per_run,
                                       seed=ctx.seed * 1000 + i, timeout=900,
                                       files={"Events_sim_run.cfg": cfg})
    res = ctx.run_engine(binary, "TestEventsReplay", {"w": 8192, "base": 8188, "behaviours": behaviours},
                         timeout=2400)
    ctx.absorb(res, "events", "TestEventsReplay")
    notes += res.get("stats", {}).get("notes_model_predicts_defect_not_in_code") or []
    total_beh += len(behaviours)
    total_steps += res.get("steps", 0)

    # a sample of them again on a pruned node (judged by the oracle, query starts clamped to the floor)
    sample = behaviours[:400 if thorough else 40]
    resp = ctx.run_engine(binary, "TestEventsReplay", {"w": 8192, "base": 8188, "behaviours": sample, "mode": "oracle",
                                                      "variants": [16, 17, 24, 20]}, timeout=2400)
    ctx.absorb(resp, "events", "TestEventsReplay")
    total_beh += len(sample)
    total_steps += resp.get("steps", 0)

    # ---- (iv) concurrent round: queries from several goroutines during stores and reorgs across the
    #      boundary, judged by the invariants restricted to what is defined under concurrency
    resc = ctx.run_engine(binary, "TestEventsConcurrent",
                          {"w": 8192, "base": 8188, "rounds": 12 if thorough else 3, "reorgs": 60, "readers": 3,
                           "seed": ctx.seed}, timeout=2400)
    ctx.absorb(resc, "events", "TestEventsConcurrent")
    # C09 does not quantify over schedules: what a query whose range OVERLAPS concurrently
    # stored/reverted blocks returns is an observation, never a verdict
    nobs = int(resc.get("stats", {}).get("observations", 0) or 0)
    ctx.coverage["observations"] = nobs
    ctx.coverage["observation_samples"] = resc.get("stats", {}).get("observation_samples") or []
    for o in ctx.coverage["observation_samples"][:4]:
        print("OBSERVATION: property=C09 (query range overlaps concurrent Store/RevertHead) %s" % o[:400], flush=True)

    if thorough:
        b2 = []
        for i in range(3):
            cfg = _render(sim_tpl, dict(state, Base=16380))
            b2 += ctx.tlc_simulate(FAMILY, "EventsMBT.tla", "Events_sim_run.cfg", depth=25 * 200,
                                   seed=ctx.seed * 1000 + 500 + i, timeout=900,
                                   files={"Events_sim_run.cfg": cfg})
        res2 = ctx.run_engine(binary, "TestEventsReplay", {"w": 8192, "base": 16380, "behaviours": b2,
                                                          "variants": [0, 3, 5, 6]}, timeout=2400)
        ctx.absorb(res2, "events", "TestEventsReplay")
        notes += res2.get("stats", {}).get("notes_model_predicts_defect_not_in_code") or []
        total_beh += len(b2)
        total_steps += res2.get("steps", 0)

    ctx.coverage["behaviours_generated"] = total_beh
    ctx.coverage["steps_replayed"] = total_steps
    ctx.coverage["notes"] = notes
    for n in notes[:6]:
        print("NOTE: property=C09 %s" % n, flush=True)

    if not ctx.violations:
        # rpc/v10/events.go (and v8/v9): ranges, continuation tokens, chunking and the pre-confirmed part of a query
        # are specified in RpcEvents.tla (G03) and replayed through the real RPC stack
        ctx.include("G03", accept=lambda k: k.startswith(("rpc2:getEvents", "crash:")),
                    why="starknet_getEvents through jsonrpc.Server on v0.8/v0.9/v0.10 incl. pre-confirmed blocks and tokens")
    ctx.assumptions += [
        "a block's bloom filter is modelled as the exact set of its atoms: hash-collision false positives "
        "(probability ~1e-13 per block and key here) are not modelled; stale bits are modelled exactly",
        "matching semantics are the code's (an event needs at least as many keys as the filter has positions, "
        "trailing empty positions included); the oracle uses the same definition on the stored receipts",
        "concurrent queries are judged on ranges the writer does not touch, on provenance/order of every returned "
        "event and at quiescence; a query that fails with an ERROR while the chain is reorganised is tolerated; "
        "no injected commit failures (H3 belongs to C05); pruned nodes are judged by the oracle only (floor inside "
        "or one window below the modelled blocks), concurrent pruning is C16's",
        "the pre-confirmed part of a query is exercised with an empty pre-confirmed chain only (C20 covers the overlay)",
    ]
    return ctx.finish(
        "model_checking",
        "exhaustive TLC on the repaired design (index histories with reorgs across two window boundaries, cache "
        "warming, graceful/ungraceful restarts; separately every filter x range x chunk x scan limit); the expected "
        "model is fixed by known_findings.json (fixed/unlisted = repaired); every run replays, judged by a naive-scan "
        "oracle over the stored receipts, TLC's minimal counterexample of each defect switch and 12 directed boundary "
        "scenarios (revert of block k*8192-1 with warm cache, k*8192 then k*8192-1 with a query in between, deeper "
        "reorgs, snapshot and persisted-window variants), then TLC-simulated 24-step behaviours of the expected model "
        "(random blocks of 0..2 txs x 0..2 events over 2 addresses and 2 keys x 2 positions, reverts, restarts, queries "
        "with random filter/range/chunk/limit) on a real Blockchain over a base image of 8188 (thorough: also 16380) "
        "blocks with the real window size; every step compares results, pages, tokens, persisted windows and snapshot; "
        "non-trivial = every behaviour stores blocks in the 8191|8192 boundary region and ends with single-atom probes. "
        "Concurrent round (C09 has no 'schedules' quantifier): VERDICT only for (V1) queries over a stable range that no "
        "concurrent Store/RevertHead touches = naive scan, (V2) sequentially observable state: queries by the only writer "
        "between its calls and after it finished, before/after restart, are exact, (V3) panics; anything about a query "
        "whose range overlaps concurrently mutated blocks, and watchdog time-outs, are OBSERVATION lines counted in "
        "coverage.observations, never divergences")

"""C09 — event queries return exactly the matching events, in order, for any paging (spec/chain/Events.tla).

TLC: (i) the REPAIRED design (all defect switches TRUE) is checked exhaustively: every query's
concatenated pages equal the naive scan, no block's atoms are missing from the column the query
path consults, the index never blocks Store/RevertHead — over all histories of stores, reverts
across window boundaries, cache-warming queries and graceful/ungraceful restarts within the bounds,
and (separate configuration) over every filter x range x chunk size x scan limit.
(ii) For every known defect switch TLC produces the minimal counterexample of the FAITHFUL model on
the real geometry (W = 8192, base image of 8188 blocks); it is replayed on the real code. If it
reproduces, the switch stays FALSE (the defect is in the tree; it is reported with its specific
key), otherwise the tree is repaired for it and the switch becomes TRUE.
Binding: TLC-simulated behaviours of the model with the calibrated switches are replayed on a real
blockchain.Blockchain (memory DB, real window size) and compared step by step (results, pages,
tokens, persisted windows, snapshot) plus an independent naive-scan oracle over the stored receipts.
"""
import json
import os
import re

import vlib

FAMILY = "chain"
SWITCHES = ["DropReopenedWindow", "InvalidateCacheOnReorg", "SnapshotConsumedOnLoad"]
# per switch: invariant that exports the counterexample, graceful stops needed, key the engine reports
#             and the signatures of the first divergence that show the tree is REPAIRED for it
CEX = {
    "DropReopenedWindow": ("CexBlocked", 0, "event-index:store-rejected-after-reorg-across-window-then-crash",
                           ("event-index:conformance:Revert:persisted-missing",)),
    "InvalidateCacheOnReorg": ("CexQuery", 0, "event-index:stale-cache-after-reorg-across-window",
                               ("model-mismatch:defect-not-in-code:cache",)),
    "SnapshotConsumedOnLoad": ("CexQuery", 1, "event-index:stale-snapshot-after-reorg-then-crash",
                               ("model-mismatch:defect-not-in-code:snapshot", ":snapshot-presence")),
}


def _read(name):
    with open(os.path.join(vlib.VERIF, "spec", FAMILY, name)) as f:
        return f.read()


def _render(text, consts=None, invariant=None, properties=None):
    for k, v in (consts or {}).items():
        if isinstance(v, bool):
            v = "TRUE" if v else "FALSE"
        text, n = re.subn(r"(?m)^(\s*%s\s*=\s*).*$" % re.escape(k), r"\g<1>%s" % v, text)
        if n != 1:
            raise vlib.Broken("cfg template has no constant %s" % k)
    if invariant:
        text = re.sub(r"(?m)^INVARIANTS.*$", "INVARIANTS " + invariant, text)
    if properties:
        text = re.sub(r"(?m)^PROPERTIES.*$", "PROPERTIES " + properties, text)
    return text


_COV = re.compile(r"(?m)^<(\w+) line \d+, col \d+ to line \d+, col \d+ of module Events(?: \([\d ]+\))?>: (\d+):(\d+)")


def _require_covered(res, actions):
    """vacuity guard: every action of the exhaustive run generated successor states"""
    taken = {m.group(1): int(m.group(3)) for m in _COV.finditer(res["out"])}
    zero = [a for a in actions if taken.get(a, 0) == 0]
    if zero:
        raise vlib.Broken("vacuity: actions never taken in %s: %s (coverage seen: %s)" % (res["label"], zero, taken))
    return taken


def _cex_from(out):
    best = None
    for line in out.splitlines():
        if line.startswith('"['):
            try:
                b = json.loads(json.loads(line))
            except Exception:
                continue
            if best is None or len(b) < len(best):
                best = b
    return best


def run(ctx):
    binary = ctx.build_engine("events")
    if ctx.replay:
        with open(ctx.replay) as f:
            rp = json.load(f)
        res = ctx.run_engine(binary, rp["test"], rp["input"])
        ctx.absorb(res, "events", rp["test"])
        return ctx.finish("model_checking", "replay of one recorded behaviour")

    thorough = not ctx.quick()

    # ---- (i) the repaired design, exhaustively
    ctx.tlc_check(FAMILY, "MCEvents.tla", "Events_quick.cfg", timeout=900)
    ctx.tlc_check(FAMILY, "MCEvents.tla", "Events_paging.cfg", timeout=900)
    if thorough:
        r = ctx.tlc_check(FAMILY, "MCEvents.tla", "Events_thorough.cfg", timeout=1500, coverage=True)
        ctx.coverage["action_coverage_thorough"] = _require_covered(r, ("Store", "Revert", "Restart", "Next"))  # Next = Query
        ctx.tlc_check(FAMILY, "MCEvents.tla", "Events_paging_thorough.cfg", timeout=1500)
        # the model of the code as it is: every false negative it can produce has one of the three
        # known causes, and each switch alone only produces its own (soundness of the keys)
        blame = _read("Events_blame.cfg")
        ctx.tlc_check(FAMILY, "MCEvents.tla", "Events_blame.cfg", timeout=1500)
        for sw, prop in (("InvalidateCacheOnReorg", "OnlyCacheToBlame"),
                         ("SnapshotConsumedOnLoad", "OnlySnapshotToBlame"),
                         ("DropReopenedWindow", "OnlyPersistedToBlame")):
            consts = {x: True for x in SWITCHES}
            consts[sw] = False
            ctx.tlc_check(FAMILY, "MCEvents.tla", "Events_blame_run.cfg", timeout=1500,
                          files={"Events_blame_run.cfg": _render(blame, consts, properties=prop)},
                          label="blame:%s=FALSE/%s" % (sw, prop))

    # ---- (ii) which defects does the tree under test have? minimal counterexample of each
    #      faithful switch, replayed on the real code
    cex_tpl = _read("Events_cex.cfg")
    state = {s: True for s in SWITCHES}      # not yet calibrated = repaired
    confirmed = []                            # behaviours that reproduce a defect on the real code
    for sw in SWITCHES:
        inv, graceful, key, repaired_sigs = CEX[sw]
        consts = dict(state)
        consts[sw] = False
        consts["MaxGraceful"] = graceful
        cfg = _render(cex_tpl, consts, inv)
        r = ctx.tlc_check(FAMILY, "MCEvents.tla", "Events_cex_run.cfg", workers=1, timeout=600,
                          expect_violation=True, files={"Events_cex_run.cfg": cfg},
                          label="cex:%s=FALSE" % sw)
        beh = _cex_from(r["out"]) if not r["ok"] else None
        if not beh:
            raise vlib.Broken("the faithful model (%s = FALSE) has no counterexample within Events_cex.cfg" % sw)
        res = ctx.run_engine(binary, "TestEventsReplay",
                             {"w": 8192, "base": 8188, "behaviours": [beh], "mode": "calibrate", "variants": [0]},
                             timeout=900)
        cal = res.get("stats", {}).get("calibration", [{}])[0]
        present = bool(cal.get("conform")) and key in (cal.get("defects") or [])
        fkey = cal.get("first_divergence_key") or ""
        repaired = (not present) and any(fkey == sig or fkey.endswith(sig) for sig in repaired_sigs)
        # neither: the tree differs from BOTH variants of the model somewhere else; keep the
        # faithful switch, the replay below reports that difference as a divergence
        state[sw] = repaired
        vlib.log("calibration %s: minimal counterexample (%d steps) %s on the real code -> %s = %s" % (
            sw, len(beh), "REPRODUCES" if present else (
                "does not reproduce (repaired: %s)" % fkey if repaired else "INCONCLUSIVE (first divergence: %s)" % fkey),
            sw, "TRUE" if repaired else "FALSE"))
        if present:
            confirmed.append(beh)
    if not state["DropReopenedWindow"]:
        # the same root cause also yields false negatives (not only a refused Store): export that
        # minimal history too so that it is reported under its own key in every run
        consts = dict(state, MaxGraceful=0)
        consts["InvalidateCacheOnReorg"] = True
        consts["SnapshotConsumedOnLoad"] = True
        r = ctx.tlc_check(FAMILY, "MCEvents.tla", "Events_cex_run.cfg", workers=1, timeout=600,
                          expect_violation=True, files={"Events_cex_run.cfg": _render(cex_tpl, consts, "CexQuery")},
                          label="cex:DropReopenedWindow=FALSE/query")
        beh = _cex_from(r["out"]) if not r["ok"] else None
        if not beh:
            raise vlib.Broken("no false-negative counterexample for DropReopenedWindow = FALSE")
        confirmed.append(beh)
    ctx.coverage["switches_describing_the_tree"] = {k: ("TRUE" if v else "FALSE") for k, v in state.items()}

    # ---- (iii) behaviours of the model that describes the tree, replayed on the real node
    sim_tpl = _read("Events_sim.cfg")
    nruns = 8 if thorough else 2
    per_run = 260 if thorough else 110
    behaviours = list(confirmed)
    for i in range(nruns):
        cfg = _render(sim_tpl, state)
        behaviours += ctx.tlc_simulate(FAMILY, "EventsMBT.tla", "Events_sim_run.cfg", depth=25 * per_run,
                                       seed=ctx.seed * 1000 + i, timeout=900,
                                       files={"Events_sim_run.cfg": cfg})
    res = ctx.run_engine(binary, "TestEventsReplay", {"w": 8192, "base": 8188, "behaviours": behaviours},
                         timeout=2400)
    ctx.absorb(res, "events", "TestEventsReplay")
    total_beh, total_steps = len(behaviours), res.get("steps", 0)

    if thorough:
        # second geometry: two complete windows below the modelled blocks (16 380-block image)
        b2 = []
        for i in range(3):
            cfg = _render(sim_tpl, dict(state, Base=16380))
            b2 += ctx.tlc_simulate(FAMILY, "EventsMBT.tla", "Events_sim_run.cfg", depth=25 * 200,
                                   seed=ctx.seed * 1000 + 500 + i, timeout=900,
                                   files={"Events_sim_run.cfg": cfg})
        res2 = ctx.run_engine(binary, "TestEventsReplay", {"w": 8192, "base": 16380, "behaviours": b2,
                                                          "variants": [0, 3, 5, 6]}, timeout=2400)
        ctx.absorb(res2, "events", "TestEventsReplay")
        total_beh += len(b2)
        total_steps += res2.get("steps", 0)

    ctx.coverage["behaviours_generated"] = total_beh
    ctx.coverage["steps_replayed"] = total_steps

    # a model that predicts a defect the code does not show is a broken model, not a verdict
    mism = [v for v in ctx.violations if v["key"].startswith("model-mismatch:")]
    if mism:
        raise vlib.Broken("the specification (switches %s) predicts a defect the code does not exhibit: %s — see %s" % (
            state, mism[0]["what"], mism[0]["replay"]))

    ctx.assumptions += [
        "a block's bloom filter is modelled as the exact set of its atoms: hash-collision false positives "
        "(probability ~1e-13 per block and key here) are not modelled; stale bits are modelled exactly",
        "matching semantics are the code's (an event needs at least as many keys as the filter has positions, "
        "trailing empty positions included); the oracle uses the same definition on the stored receipts",
        "single-threaded use of Blockchain (no query concurrent with Store/RevertHead); no injected commit "
        "failures (H3 belongs to C05); non-pruning node (pruner initializer exercised with floor 0 only)",
        "the pre-confirmed part of a query is exercised with an empty pre-confirmed chain only (C20 covers the overlay)",
    ]
    return ctx.finish(
        "model_checking",
        "exhaustive TLC on the repaired design (index histories with reorgs across two window boundaries, cache "
        "warming, graceful/ungraceful restarts; separately every filter x range x chunk x scan limit); minimal "
        "TLC counterexamples of each faithful defect switch replayed on the real code to decide the switches; "
        "then TLC-simulated 24-step behaviours of the calibrated model (random blocks of 0..2 txs x 0..2 events over "
        "2 addresses and 2 keys x 2 positions, reverts, restarts, queries with random filter/range/chunk/limit) "
        "replayed on a real Blockchain over a base image of 8188 (thorough: also 16380) blocks with the real window "
        "size; non-trivial = every behaviour stores blocks across the 8191|8192 boundary region and ends with "
        "single-atom probe queries; every step compares results, pages, tokens, persisted windows and snapshot")

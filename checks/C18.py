"""C18 — schema migrations preserve all chain data and survive interruption at any point.

Specifications (spec/migration):
  Migration.tla        the runner (NewRunner / Run / runMigration) at the granularity of its durable
                       mutations and of the Before / Migrate calls, with store faults, cancellation,
                       restarts with other optional sets and older binaries;
  BlockTxMigration.tla the block-transactions migration (ranges of 10 blocks, 4 concurrent ingestors,
                       one batch per ingestor, commits in completion order, crash after any commit, rerun).
TLC verifies the REPAIRED designs exhaustively (all Fix* switches TRUE) and shows that each switch set to
FALSE (= the code as it is) violates the property it belongs to.
Binding (replay, spec -> code), engine harness/engines/migration:
  (a) TLC-generated runner behaviours are stepped through the real migration.MigrationRunner with scripted
      mocks on a fault-injecting store; projection after every durable mutation;
  (b) TLC-generated schedules of the block-transactions migration are forced onto the real
      blocktransactions.Migrator under the real runner by gating the ingestors' reads; projection
      (old entries / new blob per block, applied bit) after every commit;
  (d) the optional history-pruning migration under the same crash enumeration (TestHistoryPrunerEnum);
  (c) crash / cancel enumeration: databases written in the previous layout from seeded chains, the real
      blocktransactions.Migrator and statedifflength.Migrator under the real runner, CrashAfter k /
      CancelAfter k for EVERY durable mutation k (plus second crashes), rerun to completion, final
      database and accessor sweep against the pre-migration content and the uninterrupted run.
A divergence of the code from the repaired design that is exactly the behaviour of a switch set to FALSE
gets that defect's specific key; then the behaviours of the faithful model (switch FALSE) are replayed
too and must conform completely.
"""
import json
import random
import vlib

RUNNER_SIM = {"n": 4, "optional": [2, 3]}
KEY_H7 = "runner:applied-on-nil-state-cancel"
KEY_H19 = "runner:older-binary-admitted-with-pending-newer-migration"
KEY_H15 = "blocktx-migration:rerun-overwrites-migrated-block"
KEY_H20 = "blocktx-migration:empty-block-left-without-blob"  # + ":uninterrupted-leading-range" | ":after-crash" | ":after-cancel" | ":after-fail"


def _known_pattern(ctx, key):
    """Is `key` (or a prefix family of it) listed with status known in known_findings.json? Only then is the
    code EXPECTED to behave like the model with that switch FALSE; fixed or unlisted => repaired model only."""
    return any(k.get("status") == "known" and (vlib.key_matches(k["key"], key) or k["key"].rstrip("*").startswith(key))
               for k in ctx.known)


def _guard(ctx, fn, *args):
    """A later part that cannot be run (engine dies, hangs, TLC trouble) must not turn an already
    recorded violation into BROKEN: the violation is the verdict."""
    try:
        fn(ctx, *args)
    except vlib.Broken as e:
        if not ctx.violations:
            raise
        ctx.coverage.setdefault("parts_broken_after_a_violation", []).append(str(e)[:400])


def _keys(res):
    return {d.get("key") for d in res.get("divergences", [])}


def _asis_cfg(ctx, cfg, switches):
    """The text of a sim cfg with the named Fix* switches set to FALSE (the code as it is)."""
    import os
    with open(os.path.join(vlib.VERIF, "spec", "migration", cfg)) as f:
        txt = f.read()
    for s in switches:
        txt = txt.replace("%s = TRUE" % s, "%s = FALSE" % s)
    return txt


def runner_part(ctx, binary, thorough):
    # 1. TLC: the repaired design holds; each switch, set as in the code, breaks its property
    ctx.tlc_check("migration", "MCMigration.tla", "Migration_quick.cfg", timeout=600)
    ctx.tlc_check("migration", "MCMigration.tla", "Migration_noyield.cfg", timeout=600)
    r = ctx.tlc_check("migration", "MCMigration.tla", "Migration_asis_h7.cfg", timeout=600, expect_violation=True)
    if r["violated"] != "AppliedImpliesComplete":
        raise vlib.Broken("FixH7 = FALSE should violate AppliedImpliesComplete, TLC says %s" % r["violated"])
    r = ctx.tlc_check("migration", "MCMigration.tla", "Migration_asis_h19.cfg", timeout=600, expect_violation=True)
    if r["violated"] != "AdmittedKnowsLastTarget":
        raise vlib.Broken("FixH19 = FALSE should violate AdmittedKnowsLastTarget, TLC says %s" % r["violated"])
    if thorough:
        r = ctx.tlc_check("migration", "MCMigration.tla", "Migration_thorough.cfg", timeout=3000, coverage=True)
        vlib.require_actions_covered(r)

    # 2. replay behaviours of the repaired design
    nruns = 10 if thorough else 2
    depth = 40000 if thorough else 12000
    behaviours = []
    for i in range(nruns):
        behaviours += ctx.tlc_simulate("migration", "MigrationMBT.tla", "Migration_sim.cfg", depth=depth,
                                       seed=ctx.seed * 1000 + i, timeout=900)
    payload = dict(RUNNER_SIM, behaviours=behaviours)
    res = ctx.run_engine(binary, "TestRunnerReplay", payload, timeout=1500)
    ctx.absorb(res, "migration", "TestRunnerReplay")
    ctx.coverage["runner_behaviours"] = len(behaviours)
    ctx.coverage["runner_steps_replayed"] = res.get("steps", 0)

    # 3. the code shows a defect the specification has a switch for: the faithful model (those
    #    switches FALSE) must then describe the code completely
    asis = [s for s, k in (("FixH7", KEY_H7), ("FixH19", KEY_H19)) if _known_pattern(ctx, k)]
    ctx.coverage["runner_switches_as_in_code"] = {"FixH7": "FixH7" not in asis, "FixH19": "FixH19" not in asis}
    if asis:
        cfg = _asis_cfg(ctx, "Migration_sim.cfg", asis)
        b2 = []
        for i in range(nruns):
            b2 += ctx.tlc_simulate("migration", "MigrationMBT.tla", "Migration_sim_dyn.cfg", depth=depth,
                                   seed=ctx.seed * 1000 + 500 + i, timeout=900,
                                   files={"Migration_sim_dyn.cfg": cfg})
        res2 = ctx.run_engine(binary, "TestRunnerReplay", dict(RUNNER_SIM, behaviours=b2), timeout=1500)
        ctx.absorb(res2, "migration", "TestRunnerReplay")
        ctx.coverage["runner_behaviours_faithful_model"] = len(b2)


def blocktx_part(ctx, binary, thorough):
    # 1. TLC: repaired design for EVERY placement of empty blocks; each switch as in the code breaks it
    ctx.tlc_check("migration", "MCBlockTxMigration.tla", "BlockTx_quick.cfg", timeout=900)
    r = ctx.tlc_check("migration", "MCBlockTxMigration.tla", "BlockTx_asis_h15.cfg", timeout=600, expect_violation=True)
    if r["violated"] != "NeverLost":
        raise vlib.Broken("FixH15 = FALSE should violate NeverLost, TLC says %s" % r["violated"])
    r = ctx.tlc_check("migration", "MCBlockTxMigration.tla", "BlockTx_asis_h20.cfg", timeout=600, expect_violation=True)
    if r["violated"] != "Preserved":
        raise vlib.Broken("FixH20 = FALSE should violate Preserved, TLC says %s" % r["violated"])
    if thorough:
        r = ctx.tlc_check("migration", "MCBlockTxMigration.tla", "BlockTx_thorough.cfg", timeout=3000, coverage=True)
        vlib.require_actions_covered(r)

    # 2. schedules of the repaired design forced onto the real migrator
    cfgs = ["BlockTx_sim.cfg", "BlockTx_sim23.cfg", "BlockTx_sim58.cfg"]
    depth = 2500 if thorough else 500
    def gen(switches, off):
        out = []
        for j, cfg in enumerate(cfgs):
            txt = _asis_cfg(ctx, cfg, switches)
            out += ctx.tlc_simulate("migration", "BlockTxMigrationMBT.tla", "BlockTx_dyn.cfg", depth=depth,
                                    seed=ctx.seed * 1000 + off + j, timeout=900, files={"BlockTx_dyn.cfg": txt})
        return out
    behaviours = gen([], 0)
    res = ctx.run_engine(binary, "TestBlockTxReplay", {"behaviours": behaviours}, timeout=1500)
    ctx.absorb(res, "migration", "TestBlockTxReplay")
    ctx.coverage["blocktx_behaviours"] = len(behaviours)
    ctx.coverage["blocktx_steps_replayed"] = res.get("steps", 0)
    asis = [s for s, k in (("FixH15", KEY_H15), ("FixH20", KEY_H20)) if _known_pattern(ctx, k)]
    ctx.coverage["blocktx_switches_as_in_code"] = {"FixH15": "FixH15" not in asis, "FixH20": "FixH20" not in asis}
    if asis:
        b2 = gen(asis, 500)
        res2 = ctx.run_engine(binary, "TestBlockTxReplay", {"behaviours": b2}, timeout=1500)
        # the faithful model predicts the damage; the projections must conform step by step, the
        # final accessor sweep reports the damage under the same specific keys
        ctx.absorb(res2, "migration", "TestBlockTxReplay")
        ctx.coverage["blocktx_behaviours_faithful_model"] = len(b2)
        other = {x for x in _keys(res2) if not (x == KEY_H15 or x.startswith(KEY_H20))}
        ctx.coverage["blocktx_faithful_model_conforms"] = not other


def shapes(seed, thorough):
    rnd = random.Random(seed * 7 + 1)

    def rand(n):
        return [rnd.randint(0, 3) for _ in range(n)]

    out = [{"name": "random-35", "txs": rand(35)}]
    t = rand(40)
    t[10:20] = [0] * 10
    t[30:40] = [0] * 10
    out.append({"name": "empty-ranges-40", "txs": t})
    t = rand(27)
    t[0:12] = [0] * 12
    out.append({"name": "leading-empty-27", "txs": t})
    t = rand(58)
    t[40:58] = [0] * 18
    out.append({"name": "trailing-empty-58", "txs": t})
    out.append({"name": "short-7", "txs": rand(7)})
    # degenerate / boundary shapes: no block at all, a single block (empty / not), chain lengths at the
    # range boundary (exactly one range; one block into the second), one block whose transaction count
    # crosses the one- and two-byte length encodings
    out.append({"name": "no-blocks-0", "txs": []})
    out.append({"name": "single-empty-1", "txs": [0]})
    out.append({"name": "single-1", "txs": [2]})
    out.append({"name": "one-into-second-range-11", "txs": rand(10) + [1]})
    fat = rand(12)
    fat[5] = 300
    out.append({"name": "fat-block-12", "txs": fat, "noReadFaults": True})
    if thorough:
        out.append({"name": "exactly-one-range-10", "txs": rand(10)})
    out.append({"name": "pruned-30", "txs": rand(30), "pruneTo": 13})
    if thorough:
        out.append({"name": "all-empty-12", "txs": [0] * 12})
        out.append({"name": "random-58", "txs": rand(58)})
        for i in range(3):
            out.append({"name": "random-%d" % i, "txs": rand(rnd.randint(25, 40))})
        out.append({"name": "pruned-aligned-40", "txs": rand(40), "pruneTo": 20})
    return out


def enum_part(ctx, binary, thorough):
    sh = shapes(ctx.seed, thorough)
    res = ctx.run_engine(binary, "TestMigrationEnum", {"shapes": sh, "pairs": thorough, "readFaults": True}, timeout=2400)
    ctx.absorb(res, "migration", "TestMigrationEnum")
    ctx.coverage["enum_shapes"] = [s["name"] for s in sh]
    ctx.coverage["enum_interrupt_restart_sequences"] = res.get("replayed", 0)


def historypruner_part(ctx, binary, thorough):
    """Optional history-pruning migration (anchored under C16, driven by this engine): crash after EVERY
    durable mutation of the full registry with pruning enabled, restart (3 attempts), final database
    identical to the uninterrupted run's, retained blocks read back."""
    rnd = random.Random(ctx.seed * 13 + 5)
    sh = [{"name": "legacy-30", "txs": [rnd.randint(0, 3) for _ in range(30)]}]
    if thorough:
        sh.append({"name": "legacy-44", "txs": [rnd.randint(0, 3) for _ in range(44)]})
    res = ctx.run_engine(binary, "TestHistoryPrunerEnum", {"shapes": sh}, timeout=1500)
    ctx.absorb(res, "migration", "TestHistoryPrunerEnum")
    ctx.coverage["historypruner_crash_restart_sequences"] = res.get("replayed", 0)


def extras_part(ctx, binary, thorough):
    """Concurrent round (free-running migration judged on live snapshots by NeverLost / OnlyOriginal) and
    the degenerate / extreme shapes of the runner (empty registry, 64 migrations, index 63)."""
    res = ctx.run_engine(binary, "TestMigrationConcurrent", {"blocks": 600, "rounds": 6 if thorough else 3}, timeout=900)
    # C18 does not quantify over schedules: what an independent reader saw while the migration ran is
    # an OBSERVATION (printed, counted), never a verdict; the state left afterwards is judged as usual
    obs = (res.get("stats") or {}).pop("observations", None) or []
    for o in obs:
        print("OBSERVATION: property=C18 %s" % o, flush=True)
    ctx.coverage["observations"] = ctx.coverage.get("observations", 0) + len(obs)
    ctx.absorb(res, "migration", "TestMigrationConcurrent")
    res = ctx.run_engine(binary, "TestRunnerExtremes", {}, timeout=900)
    ctx.absorb(res, "migration", "TestRunnerExtremes")


def run(ctx):
    binary = ctx.build_engine("migration")
    if ctx.replay:
        with open(ctx.replay) as f:
            rp = json.load(f)
        res = ctx.run_engine(binary, rp["test"], rp["input"])
        ctx.absorb(res, "migration", rp["test"])
        return ctx.finish("model_checking", "replay of one recorded behaviour")

    thorough = not ctx.quick()
    only = ctx.options.get("only")
    if only:   # run as a part of another property's check (C16: the history-pruner migration is anchored there)
        for name in only:
            _guard(ctx, {"runner": runner_part, "blocktx": blocktx_part, "enum": enum_part,
                         "historypruner": historypruner_part, "extras": extras_part}[name], binary, thorough)
        return ctx.finish("model_checking", "parts %s of the C18 check" % ",".join(only))
    _guard(ctx, runner_part, binary, thorough)
    _guard(ctx, blocktx_part, binary, thorough)
    _guard(ctx, enum_part, binary, thorough)
    _guard(ctx, historypruner_part, binary, thorough)
    _guard(ctx, extras_part, binary, thorough)
    # a listed known finding that did not show in this run is worth a line, not a verdict
    hit = {h["key"] for h in ctx.known_hits}
    for k in ctx.known:
        if k.get("status") == "known" and k["key"] not in hit:
            print("NOTE: property=C18 known finding [%s] did not reproduce in this run" % k["key"], flush=True)
    if not ctx.violations:
        # migration/pipeline/pipeline.go and migration/semaphore carry every data migration (Pipeline.tla, Semaphore.tla: G06);
        # the head-state migration is the state-side schema migration (HeadState.tla: G05)
        ctx.include("G06", options={"only": ["pipeline", "semaphore"]}, accept=lambda k: k.startswith(("pipeline", "semaphore", "crash:")),
                    why="migration/pipeline and migration/semaphore: every item through every stage exactly once, one error, termination")
        ctx.include("G05", why="head-state migration: reads and commitment preserved, crash at every durable mutation")
    ctx.assumptions += [
        "a single Batch.Write / Put / DeleteRange is atomic and durable (C15 examines the backends)",
        "a crash is modelled as: the k-th durable mutation is applied and no later operation reaches the store",
        "mock migrations are honest: they return (nil, nil) exactly when their own work is complete",
        "batches of the block-transactions migration never reach the 96 MB hand-over threshold in the replayed "
        "databases (the specification covers early hand-over, TLC checks it, the binding does not force it)",
        "a pruned database always has the block-transactions migration applied (pruning is only reachable after it)",
    ]
    return ctx.finish(
        "model_checking",
        "exhaustive TLC on the repaired designs of Migration.tla (registry M,O,M / M,O,O,M, older binary, every "
        "Migrate return combination, fail/crash/cancel at every durable mutation, <= 4 restarts) and "
        "BlockTxMigration.tla (EVERY placement of empty blocks over 6-8 blocks, any completion order of the "
        "ingestors, crashes and a cancellation at any point); each Fix* switch set as in the code must violate its "
        "property. Cases for the binding: (a) TLC -simulate behaviours of the runner model (schema-uniform, 6 process "
        "starts each, >= 1 admitted run) stepped through the real MigrationRunner; (b) TLC -simulate schedules "
        "(random chain shape incl. empty ranges, 23/35/58 blocks, random completion order, <= 2 crashes, <= 1 "
        "cancellation) forced onto the real blocktransactions.Migrator by gating its ingestors, compared after every "
        "step, every behaviour ends with the migration applied and a full accessor sweep; (c) for every seeded valid "
        "chain in the previous layout: crash / cancel / write-failure at EVERY durable mutation of the full registry "
        "(blocktransactions + statedifflength), cancellation at every pipeline stage, (thorough) every second "
        "crash, restart, final database byte-identical to the uninterrupted run and every block read back through "
        "the current accessors; (d) the same crash enumeration with the history-pruning migration enabled "
        "(legacy state, L1 head 4 below the tip, 5 blocks retained); non-trivial = the interrupt fired and the "
        "restart had work left or had to recognise completed work")

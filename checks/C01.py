"""C01 — the state root is the protocol-defined commitment of the resulting state (spec/trie/*).

TLC: exhaustive check of LegacyTrie.tla (core/trie Put/deleteLast/Commit/Reopen transcription) and
Trie2.tla (core/trie2 insert/delete/tracer/hasher/collector/Commit/Reopen transcription) against the
canonical-term definition Root(kv) of Trie.tla: root = Root(kv) after every commit, cached hashes
never stale, canonical shape, database = canonical sparse trie, reopen is a no-op.
Binding: TLC-simulated behaviours of both models are replayed in lockstep on the REAL core/trie and
core/trie2 (small height and height 251 under a bit-expansion embedding, Pedersen and Poseidon);
every Get, the stored node table / database paths, and every committed root are compared with the
model and with refimpl.Root (independent implementation of the protocol definition); state level:
model state diffs split into blocks in different ways through Blockchain.Finalise on both state
backends and both sides of 0.14.0 against refimpl.GlobalRoot; block commitments (transactions,
events, receipts) through both temporary-trie backends.

Value domain (FeltDomain.tla, PedersenWin.tla): every behaviour carries a magnitude class per abstract
value / class hash / compiled class hash / nonce ({small, 1, >= 2^248, >= 2^250, >= 2^251, p-1}) that the
replayers concretise, so extreme felts reach every operand position of the commitments; the reference
commitments are computed with INDEPENDENT hash primitives (harness/internal/refcrypto: textbook elliptic
curve arithmetic / gnark-crypto for Pedersen, Hades from derived round constants for Poseidon), a root that
equals the definition evaluated with core/crypto instead is keyed crypto:*; TestCryptoDiff compares every
core/crypto hash function with the references on boundary operands directly; PedersenWin.tla is the
exhaustively checked transcription of the table/mask algorithm against the definition.
Read faults (StateCommit.tla ReadFault / FailedUpdateIsNoOp): blocks the model marks are applied once per
storage-read position with that read failing, on a copy of the node: a failed update is fine, a successful
one and the fault-free retry must store the reference commitment.
"""
import json
import vlib
from trie_common import Guards, safe_engine, safe_sim, finish


def trie2_cfg(fixed, quick_invariants):
    return ("CONSTANTS\n  H = 3\n  MaxV = 1\n  MaxSteps = 4\n  FixValueDeletePath = %s\n  Bug = \"none\"\n"
            "INIT Init\nNEXT Next\nVIEW view\nINVARIANTS %s\nCHECK_DEADLOCK FALSE\n" % (
                "TRUE" if fixed else "FALSE", quick_invariants))


def tlc_part(ctx, thorough):
    # ---- 1. TLC on the specifications
    ctx.tlc_check("trie", "LegacyTrie.tla", "Legacy_thorough.cfg" if thorough else "Legacy_quick.cfg",
                  timeout=3000, coverage=False)
    # the repaired trie2 design satisfies everything, including "no orphan database entries"
    ctx.tlc_check("trie", "Trie2.tla", "Trie2_thorough.cfg" if thorough else "Trie2_quick.cfg", timeout=3000)
    ctx.tlc_check("trie", "StateCommit.tla", "State_thorough.cfg" if thorough else "State_quick.cfg", timeout=3000)
    # the hash primitive's table / mask algorithm against its definition, every operand magnitude (scaled-down field)
    ctx.tlc_check("trie", "PedersenWin.tla", "Pedersen_thorough.cfg" if thorough else "Pedersen_quick.cfg", timeout=600)
    # The registered Trie2 model is the repaired one (FixValueDeletePath = TRUE; trie.go:511 fixed by 85c68cc and
    # listed as `fixed`): expectations never depend on the tree under test. A tree that still has the defect
    # diverges from it (trie2-orphan-leaf:* / trie2-db:orphans-differ-from-model).
    if thorough:
        # vacuity: every action of the exhaustive configurations is taken
        for mod, cfg in (("LegacyTrie.tla", "Legacy_quick.cfg"), ("Trie2.tla", "Trie2_quick.cfg"), ("StateCommit.tla", "State_quick.cfg")):
            r = ctx.tlc_check("trie", mod, cfg, coverage=True, timeout=1200, label=mod + "/coverage")
            vlib.require_actions_covered(r)
            if not r.get("coverage"):
                raise vlib.Broken("no action coverage reported for " + mod)
        # spec self-test: seeded defects must violate the properties (the specification is not vacuous)
        for mod, cfg, bug in (("LegacyTrie.tla", "Legacy_quick.cfg", "nodirty-on-delete"),
                              ("LegacyTrie.tla", "Legacy_quick.cfg", "nodirty-on-split"),
                              ("Trie2.tla", "Trie2_quick.cfg", "keep-flags-on-insert"),
                              ("Trie2.tla", "Trie2_quick.cfg", "forget-edge-delete"),
                              ("Trie2.tla", "Trie2_quick.cfg", "FixValueDeletePath"),
                              ("StateCommit.tla", "State_quick.cfg", "root-read-fault-as-empty"),
                              ("PedersenWin.tla", "Pedersen_quick.cfg", "mask-a-drops-top-bit"),
                              ("PedersenWin.tla", "Pedersen_quick.cfg", "mask-b-drops-top-bit"),
                              ("PedersenWin.tla", "Pedersen_quick.cfg", "low-windows-short"),
                              ("PedersenWin.tla", "Pedersen_quick.cfg", "b-low-uses-a-table"),
                              ("PedersenWin.tla", "Pedersen_quick.cfg", "high-table-off-by-one")):
            with open(vlib.VERIF + "/spec/trie/" + cfg) as f:
                text = f.read()
            if bug == "FixValueDeletePath":   # the pre-fix behaviour must violate NoOrphans
                text = text.replace("FixValueDeletePath = TRUE", "FixValueDeletePath = FALSE")
            else:
                text = text.replace('Bug = "none"', 'Bug = "%s"' % bug)
            r = ctx.tlc_check("trie", mod, "bug.cfg", files={"bug.cfg": text}, expect_violation=True,
                              label="%s seeded %s" % (mod, bug), timeout=600)
            if r["violated"] is None:
                raise vlib.Broken("seeded defect %s is not detected by %s" % (bug, mod))



def run(ctx):
    binary = ctx.build_engine("trie")
    if ctx.replay:
        with open(ctx.replay) as f:
            rp = json.load(f)
        res = ctx.run_engine(binary, rp["test"], rp["input"])
        ctx.absorb(res, "trie", rp["test"])
        return ctx.finish("model_checking", "replay of one recorded behaviour")

    thorough = not ctx.quick()

    guards = Guards()

    # ---- 0. the hash primitives themselves, boundary-heavy operands against the independent references
    res = safe_engine(ctx, binary, "TestCryptoDiff", {}, "trie", guards)
    guards.require(res.get("steps", 0) > 2000 or ctx.violations, "crypto differential round compared only %s hashes" % res.get("steps"))
    ctx.coverage["hashes_compared"] = res.get("steps", 0)

    # ---- 2. replay on the real tries
    nruns = 10 if thorough else 2
    per_run = 120 if thorough else 60
    for kind, module, cfg in (("legacy", "LegacyMBT.tla", "Legacy_sim.cfg"),
                              ("trie2", "Trie2MBT.tla", "Trie2_sim.cfg")):
        behaviours = []
        for i in range(nruns):
            behaviours += safe_sim(ctx, guards, "trie", module, cfg, depth=31 * per_run, seed=ctx.seed * 1000 + i, timeout=900)
        if not behaviours:
            continue
        res = safe_engine(ctx, binary, "TestTrieReplay", {"kind": kind, "h": 5, "behaviours": behaviours}, "trie", guards)
        guards.require(res.get("steps", 0) > 500 or ctx.violations, "trie replay (%s) executed only %s steps" % (kind, res.get("steps")))
        extreme = sum(v for k, v in res.get("stats", {}).items() if k.startswith("trie_%s_mag-" % kind) and k.rsplit("-", 1)[1] in ("b251", "pm1"))
        guards.require(extreme > 0 or ctx.violations, "no %s behaviour carried a value with bit 251 set" % kind)
        ctx.coverage["behaviours_" + kind] = len(behaviours)
        ctx.coverage["steps_replayed_" + kind] = res.get("steps", 0)

    # ---- 3. state level: StateCommit.tla behaviours through Blockchain.Finalise on both backends
    sbeh = []
    for i in range(4 if thorough else 1):
        sbeh += safe_sim(ctx, guards, "trie", "StateMBT.tla", "State_sim.cfg", depth=32 * (60 if thorough else 40),
                                 seed=ctx.seed * 1000 + 500 + i, timeout=900)
    res = safe_engine(ctx, binary, "TestStateReplay", {"behaviours": sbeh}, "trie", guards)
    guards.require(res.get("steps", 0) > 100 or ctx.violations, "state replay finalised only %s blocks" % res.get("steps"))
    guards.require(res.get("stats", {}).get("state_restarts", 0) > 0 or ctx.violations, "no restart was replayed at the state level")
    guards.require(res.get("stats", {}).get("state_read_fault_rejected", 0) > 20 or ctx.violations,
                   "only %s block applications met an injected read fault" % res.get("stats", {}).get("state_read_fault_rejected"))
    ctx.coverage["read_fault_attempts"] = res.get("stats", {}).get("state_read_fault_attempts", 0)
    for o in (res.get("stats", {}).get("observations") or [])[:5]:
        # a fault-free retry that FAILS after a failed block application stores no root: outside what C01 states
        print("OBSERVATION: property=%s %s" % (ctx.prop, o), flush=True)
    ctx.coverage["behaviours_state"] = len(sbeh)
    ctx.coverage["blocks_finalised"] = res.get("steps", 0)

    # ---- 4. temporary tries (tx / event / receipt commitments) and large batches, both backends
    for test in ("TestTempTries", "TestTrieBulk"):
        res = safe_engine(ctx, binary, test, {}, "trie", guards)
        ctx.coverage["steps_" + test] = res.get("steps", 0)

    # ---- 1. TLC on the specifications (independent of the tree under test; run last so that a TLC problem can
    # never mask a divergence observed on the real code)
    try:
        tlc_part(ctx, thorough)
    except vlib.Broken as e:
        guards.failed.append(str(e)[:1500])

    if not ctx.violations:
        # "process restarts between updates ... whichever state implementation": a database upgraded by the head-state
        # migration leaves persisted storage roots zero until first touch (HeadState.tla, G05); the state root of every
        # post-upgrade block is compared with the reference commitment on three real nodes
        ctx.include("G05", accept=lambda k: "wrong-state-root" in k or k.startswith("crash:"),
                    why="state roots of blocks applied on a database upgraded by the head-state migration (lazy storage-root backfill)")
    ctx.assumptions += [
        "core/felt (field arithmetic, serialisation) and gnark-crypto's curve/field arithmetic are trusted; core/crypto's Pedersen / Poseidon are NOT: "
        "the references are a textbook math/big evaluation, gnark-crypto's pedersen-hash cross-validated against it, and Hades from derived constants; "
        "hashes are injective terms in the trie / state specifications",
        "read faults: a failing read returns an error other than not-found; only single faults per block application; the update may fail",
        "callers commit a trie before dropping it (deprecatedstate closers, state.Commit); Reopen is only taken from a committed trie",
        "universality over 251-bit keys rests on the algorithms being height-generic; height 251 is exercised through the embedding",
    ]
    return finish(
        ctx, guards, "model_checking",
        "exhaustive TLC on LegacyTrie.tla and Trie2.tla (H=3) + TLC-simulated behaviours (30 calls over 32 model keys: "
        "insert / overwrite / delete / zero-to-absent near present keys, Get, Hash, Commit, Reopen) replayed in lockstep on "
        "core/trie and core/trie2 at height 5 and at height 251 under a random bit-expansion embedding; non-trivial = "
        "every behaviour restructures the trie (edge split, binary collapse, root replacement) and commits at least once; "
        "state level: TLC-simulated StateCommit.tla update sequences (deploy / replace / nonce / storage incl. zero writes and "
        "adjacent slots / declare / system contract) through Blockchain.Finalise on both state backends x {0.13.2, 0.14.0, "
        "0.13.4->0.14.1} x three block splits, every block root against refimpl.GlobalRoot; directed: height-64 temporary "
        "tries of 17+ sizes and whole-block commitments through both TempTrieBackends, bulk batches > 100 updates; value domain: a "
        "magnitude class per abstract value / class hash / compiled hash / nonce chosen by the generators, references on independent "
        "primitives, direct differential round over every ordered pair of boundary operands and every class in every array position "
        "(lengths 0..5); read faults: blocks marked by the model applied once per read position with that read failing")

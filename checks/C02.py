"""C02 — a block is stored only if hash, linkage, tx hashes and state root all verify; a rejected
block leaves chain, indexes and state unchanged (spec/chain/BlockVerify.tla).

TLC: exhaustive check of the verify;store pipeline over every (position, version, committed field)
tamper, every non-continuing / wrong-root / stale-class offer, every INAPPLICABLE state diff that
neither hash nor root shows (an entry moved between two sections the state-diff commitment folds
together, or re-stating what the state holds: re-deploy, replace of a new address, migrate of a new
class, re-declaration, second migration) and blocks verified ahead of the head; the design switches
(checks and state-layer guards) are flipped one at a time as a self-test (TLC must object).
Binding: (a) TLC-generated behaviours are replayed on a real blockchain.Blockchain (both state
backends): valid blocks come from the real Simulate, a tampered offer is a deep copy with exactly
one concrete field altered and all declared hashes kept; the specification's accept/reject, the
raw database dump and the reader API are compared after every offer; the generator's cursor walks
every (version, committed field) pair; a second generator grows chains that deploy, declare and
migrate and offers every kind of inapplicable diff at every position (rejected, database and reads
unchanged). (b) the repository's real fixture blocks (all formats back
to pre-0.7) must verify, chains from genesis must be stored, and the same single-field tamperings
restricted to what their format commits to must be rejected.
"""
import json
import vlib


def run(ctx):
    binary = ctx.build_engine("blockverify")
    if ctx.replay:
        with open(ctx.replay) as f:
            rp = json.load(f)
        res = ctx.run_engine(binary, rp["test"], rp["input"])
        ctx.absorb(res, "blockverify", rp["test"])
        return ctx.finish("model_checking", "replay of one recorded behaviour")

    thorough = not ctx.quick()
    ctx.tlc_check("chain", "MCBlockVerify.tla", "BlockVerify_quick.cfg", timeout=900)
    # self-test of the properties: each design switch flipped must be caught by TLC (the fifth:
    # the new-root check skipped for blocks whose state diff has no entry)
    # ("redeclare" is the model of the code as it is: Sierra re-declaration is not refused - finding
    # block-verify:accepted-inapplicable:redeclare*; every other run uses the repaired design)
    tests = ("emptydiffroot", "nodeployguard") if not thorough else (
        "nosucc", "noroot", "emptydiffroot", "notxhash", "earlywrite",
        "nodeployguard", "noexistguard", "nomigrateguard", "redeclare")
    for name in tests:
        r = ctx.tlc_check("chain", "MCBlockVerify.tla", "BlockVerify_self_%s.cfg" % name, timeout=600,
                          expect_violation=True, label="selftest:" + name)
        if r["ok"] or not r["violated"]:
            raise vlib.Broken("self-test %s: TLC did not object to the weakened design" % name)
    ctx.coverage["spec_selftests_caught"] = len(tests)
    if thorough:
        ctx.tlc_check("chain", "MCBlockVerify.tla", "BlockVerify_thorough.cfg", timeout=3000)
        r = ctx.tlc_check("chain", "MCBlockVerify.tla", "BlockVerify_pending.cfg", timeout=3000, coverage=True)
        vlib.require_actions_covered(r)

    # behaviours: the cursor walks all (version, field) pairs; ~40% of the steps are tamperings
    cycles = 3 if thorough else 1
    tables = None
    behaviours = []
    covered = set()
    run_i = 0
    ntampers = None
    while True:
        got = ctx.tlc_simulate("chain", "BlockVerifyMBT.tla", "BlockVerify_sim.cfg", depth=3200,
                               seed=ctx.seed * 1000 + run_i, timeout=900)
        run_i += 1
        for b in got:
            if isinstance(b, dict):
                tables = b
                continue
            behaviours.append(b)
            for st in b:
                if st["a"]["name"] == "OfferTampered":
                    covered.add((st["a"]["v"], st["a"]["f"]))
        if tables is None:
            raise vlib.Broken("BlockVerifyMBT did not print the Committed table")
        ntampers = tables["ntampers"]
        if len(covered) >= ntampers and run_i >= cycles:
            break
        if run_i > 12 * cycles:
            raise vlib.Broken("behaviour generation does not cover all %d tamperings (%d)" % (ntampers, len(covered)))
    want = {(v, f) for v, fs in tables["committed"].items() for f in fs}
    if covered != want:
        raise vlib.Broken("generated tamperings differ from Committed: missing %s" % sorted(want - covered)[:5])

    res = ctx.run_engine(binary, "TestBlockVerifyReplay", {"seed": 0, "start": 0, "behaviours": behaviours, "concurrent": True},
                         timeout=3000)
    ctx.absorb(res, "blockverify", "TestBlockVerifyReplay")
    # concurrency-only misbehaviour is not a verdict for this property (its quantifier has no "schedules")
    obs = res.get("stats", {}).get("observations") or []
    for o in obs:
        print("OBSERVATION: property=%s %s" % (ctx.prop, o), flush=True)
    ctx.coverage["observations"] = len(obs)
    stats = res.get("stats", {})
    replayed = {tuple(c.split("@")[::-1]) for c in stats.get("covered", [])}
    ctx.coverage.pop("covered", None)
    by_shape = stats.get("offers_by_shape", {})
    # the state-root check must have been exercised on blocks WITHOUT diff entries, re-sealed so that only
    # Store's root check can reject, at height 0 and above
    for shape in ("emptydiff", "empty"):
        n = sum(v for k, v in by_shape.items() if k.startswith("OfferWrongRoot/root/resealed/" + shape))
        if not res.get("divergences") and n == 0:
            raise vlib.Broken("no re-sealed wrong-root offer on an %s block was replayed" % shape)
    ctx.coverage["resealed_wrong_root_offers_on_empty_diff"] = sum(
        v for k, v in by_shape.items() if k.startswith("OfferWrongRoot/") and "/resealed/" in k
        and ("/emptydiff/" in k or "/empty/" in k))
    ctx.coverage["behaviours_generated"] = len(behaviours)
    ctx.coverage["steps_replayed"] = res.get("steps", 0)
    ctx.coverage["tamper_cases_in_spec"] = ntampers
    if not res.get("divergences") and replayed != want:
        raise vlib.Broken("tamperings replayed with a real target differ from Committed: missing %s"
                          % sorted(want - replayed)[:8])

    # second generator: inapplicable state diffs (every kind on both state backends)
    kinds = set(tables["inapkinds"])
    inap, seen, run_i = [], set(), 0
    while True:
        got = ctx.tlc_simulate("chain", "BlockVerifyMBT.tla", "BlockVerify_siminap.cfg", depth=850 if not thorough else 3400,
                               seed=ctx.seed * 1000 + 500 + run_i, timeout=900)
        run_i += 1
        for b in got:
            if isinstance(b, dict):
                continue
            for st in b:
                if st["a"]["name"] == "OfferInapplicable":
                    seen.add((st["a"]["kind"], len(inap) % 2))   # the replayer alternates the state backend
            inap.append(b)
        if len(seen) == 2 * len(kinds):
            break
        if run_i >= 6:
            raise vlib.Broken("behaviour generation does not reach every kind of inapplicable diff on both backends: %s"
                              % sorted(set((k, n) for k in kinds for n in (0, 1)) - seen))
    res2 = ctx.run_engine(binary, "TestBlockVerifyReplay", {"seed": 0, "start": 0, "behaviours": inap, "concurrent": False},
                          timeout=3000)
    n_before = len(ctx.violations)
    keep = {k: ctx.coverage.get(k) for k in ("outcomes", "offers_by_shape")}
    ctx.absorb(res2, "blockverify", "TestBlockVerifyReplay")
    ctx.coverage["inapplicable_outcomes"] = ctx.coverage.get("outcomes")
    ctx.coverage.update(keep)
    ctx.coverage.pop("covered", None)
    st2 = res2.get("stats", {})
    for o in st2.get("observations") or []:
        print("OBSERVATION: property=%s %s" % (ctx.prop, o), flush=True)
    ctx.coverage["observations"] = len(obs) + len(st2.get("observations") or [])
    offered = st2.get("inapplicable_offers", {})
    ctx.coverage["inapplicable_offers"] = offered
    ctx.coverage["engine_wall_s"] = {"replay": res.get("_wall_s"), "replay_inapplicable": res2.get("_wall_s")}
    ctx.coverage["behaviours_generated"] += len(inap)
    ctx.coverage["steps_replayed"] += res2.get("steps", 0)
    if len(ctx.violations) == n_before:
        missing = [k + "/" + be for k in sorted(kinds) for be in ("core/deprecatedstate", "core/state") if not offered.get(k + "/" + be)]
        if missing:
            raise vlib.Broken("inapplicable diffs not replayed with a real target: %s" % missing)

    fx = ctx.run_engine(binary, "TestBlockVerifyFixtures",
                        {"repo": vlib.REPO, "legacy": tables["legacy"], "committed": tables["committed"]},
                        timeout=3000)
    ctx.absorb(fx, "blockverify", "TestBlockVerifyFixtures")

    ctx.assumptions += [
        "hash primitives (Pedersen, Poseidon, keccak) and the commitment tries are trusted; the network's own hashes of "
        "the repository's fixture blocks are the independent reference for the hash formulas of every format",
        "Committed[v] lists a field only when the protocol definition commits to it and no real fixture contradicts "
        "(receipt l2_gas, fee unit, execution resources, events bloom, signatures, legacy DEPLOY/DECLARE-v0 fields are "
        "deliberately not listed); see spec/chain/MCBlockVerify.tla",
        "one Batch.Write is atomic (C15/C05 examine that)",
        "applicability is the protocol's: an address is deployed once, only existing contracts are replaced, a Sierra class "
        "is declared once, only a class declared under the old compiled class hash is migrated, once; re-declaring a "
        "Cairo-0 class is legal in the network's history and not examined",
    ]
    return ctx.finish(
        "model_checking",
        "exhaustive TLC on BlockVerify.tla (chain length <= 2 quick / 3 thorough, 4 protocol versions x 4 content shapes "
        "(full, empty diff, empty block, bare), every committed-field tamper at every position, wrong parent/number/"
        "root (re-sealed and hash-kept) /class, verify-ahead pipeline) + TLC simulation behaviours whose "
        "cursor enumerates every (version, committed field) pair, replayed offer by offer on real nodes (memory DB, "
        "both state backends, with and without prior chain); distinct non-trivial case = one (version, field) "
        "tampering applied to a real target (in a block of a shape that has one), or one hash-valid "
        "non-continuing / wrong-root / stale-class / failed-commit offer; + every real fixture block",
        {"distinct_nontrivial": len(replayed) + int(ctx.coverage.get("fixture_tampers_rejected", 0)),
         "evaluations": int(res.get("steps", 0)) + int(ctx.coverage.get("fixture_offers", 0))})

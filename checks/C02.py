"""C02 — a block is stored only if hash, linkage, tx hashes and state root all verify; a rejected
block leaves chain, indexes and state unchanged (spec/chain/BlockVerify.tla).

TLC: exhaustive check of the verify;store pipeline over every (position, version, committed field)
tamper, every non-continuing / wrong-root / stale-class offer, every INAPPLICABLE state diff that
neither hash nor root shows (an entry moved between two sections the state-diff commitment folds
together, or re-stating what the state holds: re-deploy, replace of a new address, migrate of a new
class, re-declaration, second migration) and blocks verified ahead of the head; the design switches
(checks and state-layer guards) are flipped one at a time as a self-test (TLC must object).
Presence / value classes: committed fields are absent / present-zero ((0,0) bound, felt 0, [0], reverted with the
empty reason) / non-zero; the hashes are injective terms of (field -> class) as the PROTOCOL sees them, the verifier
recomputes them as the CODE sees them (switch ZeroAsAbsent; MalformedRefused for classes no valid block has), every
class field is moved to every other class with all hashes kept (OfferReclass: rejected) and valid blocks of the
shapes "zero" (everything present-zero) and "void" (absent where allowed) are offered (accepted); conflating
mutants must break BOTH directions (expected-violation configs).
Binding: (a) TLC-generated behaviours are replayed on a real blockchain.Blockchain (both state
backends): valid blocks are completed by the real Simulate (roots) but declare the transaction hashes and the
block hash of an INDEPENDENT reference (harness/internal/refimpl/blockhash.go, written from the protocol
definition, evaluated on primitives that are not juno's, self-tested against the network's hashes of the
repository's fixture blocks) - so "valid block rejected" is observable; a tampered offer is a deep copy with exactly
one concrete field altered (or moved to another presence / value class) and all declared hashes kept; the specification's accept/reject, the
raw database dump and the reader API are compared after every offer; the generator's cursor walks
every (version, committed field) pair; a second generator grows chains that deploy, declare and
migrate and offers every kind of inapplicable diff at every position (rejected, database and reads
unchanged). (b) the repository's real fixture blocks (all formats back
to pre-0.7) must verify, chains from genesis must be stored, and the same single-field tamperings
restricted to what their format commits to must be rejected.
"""
import json
import os
import vlib


def run(ctx):
    binary = ctx.build_engine("blockverify")
    if ctx.replay:
        with open(ctx.replay) as f:
            rp = json.load(f)
        res = ctx.run_engine(binary, rp["test"], rp["input"])
        ctx.absorb(res, "blockverify", rp["test"])
        return ctx.finish("model_checking", "replay of one recorded behaviour")

    thorough = not ctx.quick()
    # moves into classes NO valid block has (a v3 transaction without an L1_GAS / L2_GAS bound) crash the verifier of the
    # tree as it was (finding block-verify:crash:invalid-class*, fixed in juno by 4b991ba). They are offered in every
    # run (VERIF_C02_MALFORMED=0 switches them off for development); the exhaustive configurations verify the repaired
    # design (MalformedRefused) and keep the code as it was as an expected violation (BlockVerify_self_malformedcrash.cfg).
    malformed = os.environ.get("VERIF_C02_MALFORMED", "1") != "0"

    def sim_files(cfg):
        if not malformed:
            return None
        with open(os.path.join(vlib.VERIF, "spec", "chain", cfg)) as f:
            return {cfg: f.read().replace("MalformedMoves = FALSE", "MalformedMoves = TRUE")}
    ctx.tlc_check("chain", "MCBlockVerify.tla", "BlockVerify_quick.cfg", timeout=900)
    # the presence / value class dimension: shapes full / zero / void, every class field moved to every other class
    ctx.tlc_check("chain", "MCBlockVerify.tla", "BlockVerify_class.cfg", timeout=900)
    # self-test of the properties: each design switch flipped must be caught by TLC (the fifth:
    # the new-root check skipped for blocks whose state diff has no entry)
    # ("malformedcrash" likewise: a v3 transaction without a mandatory bound crashes the verifier - finding
    # block-verify:crash:invalid-class*)
    # ("redeclare" is the model of the code as it is: Sierra re-declaration is not refused - finding
    # block-verify:accepted-inapplicable:redeclare*; every other run uses the repaired design)
    # (zerobound_*: "an all-zero l1_data_gas bound is hashed like an absent one" must break BOTH directions -
    # a tampered block accepted, a valid block rejected; zerotip / emptyreason: two more conflations)
    tests = ("emptydiffroot", "nodeployguard", "zerobound_sound", "zerobound_complete") if not thorough else (
        "nosucc", "noroot", "emptydiffroot", "notxhash", "earlywrite",
        "nodeployguard", "noexistguard", "nomigrateguard", "redeclare",
        "zerobound_sound", "zerobound_complete", "zerotip", "emptyreason", "malformedcrash")
    expected = {"zerobound_sound": "TamperRejected", "zerobound_complete": "ValidAccepted", "zerotip": "ValidAccepted"}
    for name in tests:
        r = ctx.tlc_check("chain", "MCBlockVerify.tla", "BlockVerify_self_%s.cfg" % name, timeout=600,
                          expect_violation=True, label="selftest:" + name)
        if r["ok"] or not r["violated"]:
            raise vlib.Broken("self-test %s: TLC did not object to the weakened design" % name)
        if name in expected and expected[name] not in str(r["violated"]):
            raise vlib.Broken("self-test %s: TLC reports %s, expected %s" % (name, r["violated"], expected[name]))
    ctx.coverage["spec_selftests_caught"] = len(tests)
    if thorough:
        ctx.tlc_check("chain", "MCBlockVerify.tla", "BlockVerify_thorough.cfg", timeout=3000)
        ctx.tlc_check("chain", "MCBlockVerify.tla", "BlockVerify_class_thorough.cfg", timeout=3000)
        r = ctx.tlc_check("chain", "MCBlockVerify.tla", "BlockVerify_pending.cfg", timeout=3000, coverage=True)
        vlib.require_actions_covered(r, ignore=("OfferReclass",))   # (class moves: BlockVerify_class*.cfg)

    # behaviours: the cursor walks all (version, field) pairs; ~40% of the steps are tamperings
    cycles = 3 if thorough else 1
    tables = None
    behaviours = []
    covered = set()
    moved = set()
    onzero = set()
    run_i = 0
    ntampers = None
    while True:
        simcfg = "BlockVerify_sim_thorough.cfg" if thorough else "BlockVerify_sim.cfg"
        got = ctx.tlc_simulate("chain", "BlockVerifyMBT.tla", simcfg, depth=5200, seed=ctx.seed * 1000 + run_i, timeout=900,
                               files=sim_files(simcfg))
        run_i += 1
        for b in got:
            if isinstance(b, dict):
                tables = b
                continue
            behaviours.append(b)
            for st in b:
                if st["a"]["name"] == "OfferTampered":
                    covered.add((st["a"]["v"], st["a"]["f"]))
                    if st["a"]["var"] == "zero":
                        onzero.add(st["a"]["f"])
                if st["a"]["name"] == "OfferReclass":
                    moved.add((st["a"]["v"], st["a"]["f"], st["a"]["from"], st["a"]["kind"]))
        if tables is None:
            raise vlib.Broken("BlockVerifyMBT did not print the Committed table")
        ntampers = tables["ntampers"]
        zwant = {z[1] for z in tables["zerotampers"]}
        if len(covered) >= ntampers and len(moved) >= len(tables["classtampers"]) and zwant <= onzero and run_i >= cycles:
            break
        if run_i > 12 * cycles:
            raise vlib.Broken("behaviour generation does not cover all %d tamperings (%d) and %d class moves (%d)" % (
                ntampers, len(covered), len(tables["classtampers"]), len(moved)))
    want = {(v, f) for v, fs in tables["committed"].items() for f in fs}
    if covered != want:
        raise vlib.Broken("generated tamperings differ from Committed: missing %s" % sorted(want - covered)[:5])
    want_moves = {tuple(m) for m in tables["classtampers"]}
    if moved != want_moves:
        raise vlib.Broken("generated class moves differ from the specification's: missing %s" % sorted(want_moves - moved)[:5])
    # every class of every class field occurs in a VALID block shape, and every 3-class field is moved along all six edges
    classes = {k: tables[k] for k in ("shapeclass", "classin", "classof", "validclassof", "protosame")}
    for f, cs in tables["classof"].items():
        have = {sc[f] for sc in tables["shapeclass"].values()}
        valid = set(tables["validclassof"][f])
        if not valid <= have:
            raise vlib.Broken("class field %s: no valid block shape carries class %s" % (f, sorted(valid - have)))

    res = ctx.run_engine(binary, "TestBlockVerifyReplay", {"seed": 0, "start": 0, "behaviours": behaviours, "concurrent": True,
                                                           "classes": classes}, timeout=3000)
    ctx.absorb(res, "blockverify", "TestBlockVerifyReplay")
    # concurrency-only misbehaviour is not a verdict for this property (its quantifier has no "schedules")
    obs = res.get("stats", {}).get("observations") or []
    for o in obs:
        print("OBSERVATION: property=%s %s" % (ctx.prop, o), flush=True)
    ctx.coverage["observations"] = len(obs)
    stats = res.get("stats", {})
    replayed = {tuple(c.split("@")[::-1]) for c in stats.get("covered", [])}
    ctx.coverage.pop("covered", None)
    by_shape = stats.get("offers_by_shape", {})
    # the state-root check must have been exercised on blocks WITHOUT diff entries, re-sealed so that only
    # Store's root check can reject, at height 0 and above
    for shape in ("emptydiff", "empty"):
        n = sum(v for k, v in by_shape.items() if k.startswith("OfferWrongRoot/root/resealed/" + shape))
        if not res.get("divergences") and n == 0:
            raise vlib.Broken("no re-sealed wrong-root offer on an %s block was replayed" % shape)
    ctx.coverage["resealed_wrong_root_offers_on_empty_diff"] = sum(
        v for k, v in by_shape.items() if k.startswith("OfferWrongRoot/") and "/resealed/" in k
        and ("/emptydiff/" in k or "/empty/" in k))
    ctx.coverage["behaviours_generated"] = len(behaviours)
    ctx.coverage["steps_replayed"] = res.get("steps", 0)
    ctx.coverage["tamper_cases_in_spec"] = ntampers
    if not res.get("divergences") and replayed != want:
        raise vlib.Broken("tamperings replayed with a real target differ from Committed: missing %s"
                          % sorted(want - replayed)[:8])
    zmiss = zwant - set(stats.get("zero_shape_covered", []))
    ctx.coverage.pop("zero_shape_covered", None)
    ctx.coverage["zero_shape_value_tampers_replayed"] = len(zwant) - len(zmiss)
    if not res.get("divergences") and zmiss:
        raise vlib.Broken("content alterations of the all-zero shape not replayed with a real target: %s" % sorted(zmiss)[:8])
    moves_replayed = set()
    for c in stats.get("class_covered", []):
        mv, v = c.rsplit("@", 1)
        f, ft = mv.rsplit(":", 1)
        moves_replayed.add((v, f) + tuple(ft.split(">")))
    ctx.coverage.pop("class_covered", None)
    ctx.coverage["class_moves_in_spec"] = len(want_moves)
    ctx.coverage["malformed_class_moves_offered"] = malformed
    ctx.coverage["class_moves_replayed"] = len(moves_replayed)
    if not res.get("divergences") and moves_replayed != want_moves:
        raise vlib.Broken("class moves replayed differ from the specification's: missing %s" % sorted(want_moves - moves_replayed)[:8])
    # valid blocks of the class shapes were offered (and, no divergence, accepted) at every version
    for shape in ("zero", "void"):
        n = sum(v for k, v in by_shape.items() if k.startswith("Offer///" + shape + "/"))
        if not res.get("divergences") and n == 0:
            raise vlib.Broken("no valid %s block was offered" % shape)
        ctx.coverage["valid_%s_blocks_offered" % shape] = n

    # second generator: inapplicable state diffs (every kind on both state backends)
    kinds = set(tables["inapkinds"])
    inap, seen, run_i = [], set(), 0
    while True:
        got = ctx.tlc_simulate("chain", "BlockVerifyMBT.tla", "BlockVerify_siminap.cfg", depth=850 if not thorough else 3400,
                               seed=ctx.seed * 1000 + 500 + run_i, timeout=900)
        run_i += 1
        for b in got:
            if isinstance(b, dict):
                continue
            for st in b:
                if st["a"]["name"] == "OfferInapplicable":
                    seen.add((st["a"]["kind"], len(inap) % 2))   # the replayer alternates the state backend
            inap.append(b)
        if len(seen) == 2 * len(kinds):
            break
        if run_i >= 6:
            raise vlib.Broken("behaviour generation does not reach every kind of inapplicable diff on both backends: %s"
                              % sorted(set((k, n) for k in kinds for n in (0, 1)) - seen))
    res2 = ctx.run_engine(binary, "TestBlockVerifyReplay", {"seed": 0, "start": 0, "behaviours": inap, "concurrent": False,
                                                            "classes": classes}, timeout=3000)
    n_before = len(ctx.violations)
    keep = {k: ctx.coverage.get(k) for k in ("outcomes", "offers_by_shape")}
    ctx.absorb(res2, "blockverify", "TestBlockVerifyReplay")
    ctx.coverage["inapplicable_outcomes"] = ctx.coverage.get("outcomes")
    ctx.coverage.update(keep)
    ctx.coverage.pop("covered", None)
    st2 = res2.get("stats", {})
    for o in st2.get("observations") or []:
        print("OBSERVATION: property=%s %s" % (ctx.prop, o), flush=True)
    ctx.coverage["observations"] = len(obs) + len(st2.get("observations") or [])
    offered = st2.get("inapplicable_offers", {})
    ctx.coverage["inapplicable_offers"] = offered
    ctx.coverage["engine_wall_s"] = {"replay": res.get("_wall_s"), "replay_inapplicable": res2.get("_wall_s")}
    ctx.coverage["behaviours_generated"] += len(inap)
    ctx.coverage["steps_replayed"] += res2.get("steps", 0)
    if len(ctx.violations) == n_before:
        missing = [k + "/" + be for k in sorted(kinds) for be in ("core/deprecatedstate", "core/state") if not offered.get(k + "/" + be)]
        if missing:
            raise vlib.Broken("inapplicable diffs not replayed with a real target: %s" % missing)

    fx = ctx.run_engine(binary, "TestBlockVerifyFixtures",
                        {"repo": vlib.REPO, "legacy": tables["legacy"], "committed": tables["committed"], "classes": classes,
                         "malformed": malformed},
                        timeout=3000)
    ctx.absorb(fx, "blockverify", "TestBlockVerifyFixtures")

    ctx.assumptions += [
        "the reference hashes of the valid synthetic blocks (transaction hashes, commitments, block hash of 0.13.2 / 0.13.4+) come "
        "from harness/internal/refimpl (protocol definition, independent Pedersen / Poseidon / Patricia trie, keccak from "
        "x/crypto); it is itself validated against the network's own hashes of the repository's fixture blocks (every "
        "recomputable transaction hash, every 0.13.2+ block hash) on every run; the state ROOT of a valid block is the code's (C01 examines it); "
        "for the older formats the fixtures are the only reference",
        "presence / value classes are examined on representative fields (MCClassFields: resource bounds, tip, nonce, max_fee, "
        "paymaster / account-deployment / calldata / constructor-calldata / proof-facts / signature arrays, receipt fee, gas, "
        "revert reason, event keys / data / from, message payload / from / to, sequencer, timestamp, gas prices); nil vs empty "
        "arrays and nil TotalGasConsumed are not told apart by the protocol and not examined; the 0.13.2 transaction leaf's "
        "empty-signature = [0] rule is taken from the protocol (no offer distinguishes the two there)",
        "Committed[v] lists a field only when the protocol definition commits to it and no real fixture contradicts "
        "(receipt l2_gas, fee unit, execution resources, events bloom, signatures, legacy DEPLOY/DECLARE-v0 fields are "
        "deliberately not listed); see spec/chain/MCBlockVerify.tla",
        "one Batch.Write is atomic (C15/C05 examine that)",
        "applicability is the protocol's: an address is deployed once, only existing contracts are replaced, a Sierra class "
        "is declared once, only a class declared under the old compiled class hash is migrated, once; re-declaring a "
        "Cairo-0 class is legal in the network's history and not examined",
    ]
    return ctx.finish(
        "model_checking",
        "exhaustive TLC on BlockVerify.tla (chain length <= 2 quick / 3 thorough, 4 protocol versions x 4 content shapes "
        "(full, empty diff, empty block, bare), every committed-field tamper at every position, wrong parent/number/"
        "root (re-sealed and hash-kept) /class, verify-ahead pipeline; + the presence/value class dimension: shapes full / zero / "
        "void, every class field moved to every other class) + TLC simulation behaviours whose "
        "cursor enumerates every (version, committed field) pair, every class move (field, from, to) and every content alteration "
        "of the all-zero shape, replayed offer by offer on real nodes (memory DB, "
        "both state backends, with and without prior chain), valid blocks carrying reference hashes; distinct non-trivial case = one (version, field) "
        "tampering applied to a real target (in a block of a shape that has one), one class move, or one hash-valid "
        "non-continuing / wrong-root / stale-class / failed-commit offer; + every real fixture block (incl. class moves on their first carriers)",
        {"distinct_nontrivial": len(replayed) + len(moves_replayed) + int(ctx.coverage.get("fixture_tampers_rejected", 0)),
         "evaluations": int(res.get("steps", 0)) + int(ctx.coverage.get("fixture_offers", 0))})

"""C11 — the JSON-RPC server answers any input with well-formed, correlated responses
(spec/jsonrpc/JsonRpc.tla).

TLC: (a) the REPAIRED model (all switches TRUE) satisfies the pure property for every single
request and every batch of one entry over the full member alphabet (76 323 entries), for every
interleaving of batches of <= 3 (thorough: 4) class representatives through the worker pool, for
inputs with >= 128 bytes of leading whitespace and for a server with batches disabled;
(b) the model of the code AS IT IS (FixNonRequest = FALSE, a known finding; FixNotif and FixLongWs
were repaired in /repo and are TRUE; FixNullRequired follows the status of its finding in known_findings.json:
listed known = FALSE, fixed / not listed = TRUE) satisfies the property with exactly that deviation switched
in, and violates the pure property (expected counterexample);
(c) positional == named and "operational argument builder == declarative reading" as ASSUMEs;
(d) PARAMETER TYPE CLASSES x VALUE CLASSES x VALIDATOR (parseParam / validateParam): every params value of
seven typed methods - slots of class value struct with validate tags, pointer to struct, pointer to scalar,
[]struct, []*struct, map[string]*struct, custom-UnmarshalJSON value / pointer / flags - over {omitted, null,
good, wrong kind, tag-violating, container with a null element}, positional and named, request and
notification, on a server WITH the production validator and WITHOUT one; the mechanism "a nil struct pointer
is not handed to the validator" is a switch (NilPointerSkipsValidation) whose FALSE side TLC must refute.

(e) THE EXCHANGE'S CONTEXT (deadline / cancellation): the context arrives live, expired or cancelled, or ends at any moment
of a batch's dispatch (before the first entry has a worker, while an earlier entry occupies the only one, between two entries,
after the last), on a 1- (thorough: and 2-) worker pool, with and without the HTTP admission gate - the only place where the code
looks at the context: one response per owed entry and one handler call per valid request in EVERY such state (POnePerEntry,
PInvocations, PHandlerOnceOrError), refusal only by the gate and only for a context that had ended at arrival (PRefusal), every
handler handed the request's context (PCtxSeen); the mutants "a request whose deadline has passed / whose context is cancelled is
treated like a notification" (SilentOnCtx) are refuted by TLC (expected-violation runs).

Binding: the faithful exhaustive run exports one row per finished exchange; every row is rendered
to bytes and sent to a real jsonrpc.Server with recording handlers (HandleReader, HandleReadWriter,
HTTP handler), at once or in seeded CHUNKS (chunking io.Reader / body streamed through io.Pipe), at
natural size and - for every request that reaches a handler, every batch and a sample of all other
classes - LARGE (600 B .. 64 KiB: transport/framing independence); batches of 300 .. 140 000 entries;
a CONCURRENT round (8 goroutines, one shared server); returned response bytes re-checked after later
exchanges; TLC-simulated batches likewise on a 3-worker pool; the answer bytes and the handler
invocation log are compared with what the PROPERTY promises (not with the switches). The typed methods take
mirrored tagged structs and the REAL rpc/v10 parameter types (BlockID, SubscriptionBlockID, ResponseFlags,
EventArgs, ResourceBoundsMap / ResourceBounds); the validating servers are built WithValidator(rpcv10.Validator())
as the node does; the handlers log a canonical text of the Go values they receive (nil vs zero vs value). Plus seeded
byte-level mutants judged with encoding/json + the abstraction function + the exhaustive table.
The context dimension (TestJsonRpcCtx): every exported row (single / batch of one x context state at arrival x gate) through
HandleReader, HandleReadWriter (requestTimeout 0 / 1 h / 1 ns) and the HTTP handler (WithRequestTimeout 0 / 1 h / 1 ns, WithGate)
under std contexts (WithDeadline in the past, WithCancel + cancel) and a manually ended one; TLC-simulated batches with a schedule
on 1- and 2-worker pools: the real server's handlers park at gates, the replayer lets them return and ends the context in the
model's order (no sleeps, no timing assumption); a few rounds with the real timers of WithRequestTimeout / requestTimeout whose
first handler returns when it has seen its context end. Answers, handler log and the context state every handler saw are compared.
"""
import json
import os
import re
import vlib

FAMILY = "jsonrpc"
# the finding "a JSON null for a REQUIRED pointer parameter reaches the handler as a nil pointer" (one key per type class)
NULLREQ_KEYS = ["jsonrpc:null-for-required-pointer:" + c for c in ("pstruct", "pcustom", "pint")]


def nullreq_known(ctx):
    """FixNullRequired follows the status of that finding in known_findings.json: listed `known` = the model of the
    code as it was found (FALSE); fixed / not listed = the repaired design (TRUE)."""
    return any(k.get("status") == "known" and any(vlib.key_matches(k["key"], x) for x in NULLREQ_KEYS) for k in ctx.known)


def asis(ctx, cfg):
    """files= for a configuration of the code AS IT IS: the cfg text with FixNullRequired set from the finding's status."""
    with open(os.path.join(vlib.VERIF, "spec", FAMILY, cfg)) as f:
        text = f.read()
    text, n = re.subn(r"FixNullRequired = (TRUE|FALSE)", "FixNullRequired = " + ("FALSE" if nullreq_known(ctx) else "TRUE"), text)
    if n != 1:
        raise vlib.Broken("%s does not set FixNullRequired exactly once" % cfg)
    return {cfg: text}

INVS = "TypeOK PShape POnePerEntry PResponses PTopLevel PInvocations PInFlight"


def ctx_rows_of(res):
    rows, seen = [], set()
    for line in res["out"].splitlines():
        if line.startswith('"{'):
            try:
                r = json.loads(json.loads(line))
            except Exception:
                raise vlib.Broken("unparsable row exported by TLC: " + line[:200])
            if r["cx"] != r["cx0"]:
                continue   # the context ended during the dispatch of a batch of one: schedules are replayed from the simulated behaviours
            k = json.dumps([r["top"], r["cx0"], r["cx"], r["gated"], r["entries"]], sort_keys=True)
            if k not in seen:
                seen.add(k)
                rows.append(r)
    if not rows:
        raise vlib.Broken("TLC exported no rows for %s" % res["label"])
    return rows


def context_dimension(ctx, binary, thorough):
    """(e) deadlines / cancellation: TLC on the context dimension of JsonRpc.tla, then TestJsonRpcCtx on the real server."""
    r = ctx.tlc_check(FAMILY, "MCJsonRpc.tla", "JsonRpc_ctx_batch1.cfg", timeout=1500, coverage=thorough, files=asis(ctx, "JsonRpc_ctx_batch1.cfg"),
                      label="as-is: context live / expired / cancelled at arrival or ending mid-batch, batches <= 3, 1 worker, gate / no gate")
    if thorough:
        vlib.require_actions_covered(r)
        ctx.tlc_check(FAMILY, "MCJsonRpc.tla", "JsonRpc_ctx_batch2.cfg", timeout=3000, files=asis(ctx, "JsonRpc_ctx_batch2.cfg"),
                      label="as-is: context dimension, batches <= 3, 2 workers")
        ctx.tlc_check(FAMILY, "MCJsonRpc.tla", "JsonRpc_ctx_fixed.cfg", timeout=1500, label="repaired: context dimension, all top-level kinds")
    t = ctx.tlc_check(FAMILY, "JsonRpcMBT.tla", "JsonRpc_ctx_table.cfg", timeout=600, files=asis(ctx, "JsonRpc_ctx_table.cfg"),
                      label="as-is: context state at arrival x gate, singles + batches of one (exported)")
    rows = ctx_rows_of(t)
    mutants = [("JsonRpc_ctx_expired_silent.cfg", "POnePerEntry", "mutant: expired deadline treated like a notification")]
    if thorough:
        mutants += [("JsonRpc_ctx_cancelled_silent.cfg", "PHandlerOnceOrError", "mutant: cancelled context, entry skipped")]
    for cfg, inv, lab in mutants:
        h = ctx.tlc_check(FAMILY, "MCJsonRpc.tla", cfg, timeout=600, expect_violation=True, label="%s: %s must fail" % (lab, inv),
                          files=asis(ctx, cfg))
        if h["violated"] != inv:
            raise vlib.Broken("the mutant model no longer violates %s (%s)" % (inv, h["violated"]))
        ctx.tlc_runs[-1]["expected_violation"] = inv
    behaviours = []
    for i, cfg in enumerate(("JsonRpc_ctxsim1.cfg", "JsonRpc_ctxsim2.cfg")):
        for j in range(3 if thorough else 1):
            behaviours += ctx.tlc_simulate(FAMILY, "JsonRpcCtxMBT.tla", cfg, depth=20000 if thorough else 6000,
                                           seed=ctx.seed * 1000 + 500 + 10 * i + j, timeout=900, files=asis(ctx, cfg))
    payload = {"rows": rows, "behaviours": behaviours, "timers": 12 if thorough else 6, "seed": ctx.seed, "selftest": True}
    res = ctx.run_engine(binary, "TestJsonRpcCtx", payload, timeout=1500)
    ctx.absorb(res, "jsonrpc", "TestJsonRpcCtx")
    ctx.coverage["context_rows_exported"] = len(rows)
    ctx.coverage["context_behaviours_simulated"] = len(behaviours)
    return res, payload


def rows_of(res):
    rows, seen = [], set()
    for line in res["out"].splitlines():
        if line.startswith('"{'):
            try:
                r = json.loads(json.loads(line))
            except Exception:
                raise vlib.Broken("unparsable row exported by TLC: " + line[:200])
            k = json.dumps([r["top"], r["far"], r["nobatch"], r.get("validator"), r["entries"]], sort_keys=True)
            if k in seen:
                continue
            seen.add(k)
            rows.append(r)
    if not rows:
        raise vlib.Broken("TLC exported no rows for %s" % res["label"])
    return rows


def run(ctx):
    binary = ctx.build_engine("jsonrpc", stubs=True)   # links rpc/v10 (the production validator, real parameter types)
    if ctx.replay:
        with open(ctx.replay) as f:
            rp = json.load(f)
        res = ctx.run_engine(binary, rp["test"], rp["input"])
        ctx.absorb(res, "jsonrpc", rp["test"])
        return ctx.finish("model_checking", "replay of one recorded request")

    thorough = not ctx.quick()

    # ---- (a) repaired model (all switches TRUE): the pure property
    ctx.tlc_check(FAMILY, "MCJsonRpc.tla", "JsonRpc_far_fixed.cfg", timeout=600,
                  label="repaired: all top-level kinds, <= 2 class representatives, long leading whitespace")
    if thorough:
        ctx.tlc_check(FAMILY, "MCJsonRpcFull.tla", "JsonRpc_single_fixed.cfg", timeout=1500,
                      label="repaired: singles + batches of one, full alphabet")
        ctx.tlc_check(FAMILY, "MCJsonRpc.tla", "JsonRpc_batch_fixed.cfg", timeout=1500, label="repaired: batches <= 3, pool 2")

    # ---- (b) the code as it is (FixNonRequest = FALSE is a known finding; FixNotif / FixLongWs were
    # repaired in /repo): holds with the known deviation switched in; exports the rows to replay
    t = ctx.tlc_check(FAMILY, "MCJsonRpcFull.tla", "JsonRpc_table.cfg", timeout=1500, files=asis(ctx, "JsonRpc_table.cfg"),
                      label="as-is: singles + batches of one, full alphabet (exported)")
    rows = rows_of(t)
    t2 = ctx.tlc_check(FAMILY, "JsonRpcMBT.tla", "JsonRpc_far.cfg", timeout=600, files=asis(ctx, "JsonRpc_far.cfg"), label="as-is: long leading whitespace (exported)")
    rows += rows_of(t2)
    t3 = ctx.tlc_check(FAMILY, "JsonRpcMBT.tla", "JsonRpc_nobatch.cfg", timeout=600, files=asis(ctx, "JsonRpc_nobatch.cfg"), label="as-is: batches disabled (exported)")
    rows += rows_of(t3)
    # parameter type classes x value classes x {validator, no validator} (typed methods; rows exported)
    for cfg, lab in (("JsonRpc_typed.cfg", "with the production validator"), ("JsonRpc_typed_noval.cfg", "without a validator")):
        tt = ctx.tlc_check(FAMILY, "JsonRpcMBT.tla", cfg, timeout=600, files=asis(ctx, cfg),
                           label="as-is: typed parameters, %s (exported)" % lab)
        rows += rows_of(tt)
    r = ctx.tlc_check(FAMILY, "MCJsonRpc.tla", "JsonRpc_batch_quick.cfg", timeout=1500, coverage=thorough, files=asis(ctx, "JsonRpc_batch_quick.cfg"),
                      label="as-is: batches <= 3, pool 2")
    if thorough:
        vlib.require_actions_covered(r, ignore=("CtxEnd",))   # (the context dimension has its own configurations)
        ctx.tlc_check(FAMILY, "MCJsonRpc.tla", "JsonRpc_batch_thorough.cfg", timeout=3000, files=asis(ctx, "JsonRpc_batch_thorough.cfg"),
                      label="as-is: batches <= 4, pool 2")
        ctx.tlc_check(FAMILY, "MCJsonRpc.tla", "JsonRpc_batch_thorough3.cfg", timeout=3000, files=asis(ctx, "JsonRpc_batch_thorough3.cfg"),
                      label="as-is: batches <= 4, pool 3")
    # against the PURE property TLC must exhibit the known deviation (and, thorough, the two repaired
    # ones on the pre-fix model)
    pure = [("JsonRpc_h8b.cfg", "PureStdCodes", "as-is vs pure property"),
            # the mechanism "a nil struct pointer is not handed to the validator" switched off: null for *T is refused
            ("JsonRpc_typed_nilptr.cfg", "PInvocations", "NilPointerSkipsValidation = FALSE")]
    if nullreq_known(ctx):
        pure += [("JsonRpc_typed_nullreq.cfg", "PureInvocations", "as-is vs pure property")]
    if thorough:
        pure += [("JsonRpc_h8.cfg", "PureNotifSilent", "pre-fix model vs pure property"),
                 ("JsonRpc_h8c.cfg", "PureBatchIsProcessed", "pre-fix model vs pure property")]
        if not nullreq_known(ctx):
            pure += [("JsonRpc_typed_nullreq.cfg", "PureInvocations", "pre-fix model vs pure property")]
    for cfg, inv, lab in pure:
        h = ctx.tlc_check(FAMILY, "MCJsonRpc.tla", cfg, timeout=600, expect_violation=True, label="%s: %s" % (lab, inv),
                          files=asis(ctx, cfg) if cfg == "JsonRpc_h8b.cfg" else None)
        if h["violated"] != inv:
            raise vlib.Broken("the model no longer exhibits the deviation %s (%s)" % (inv, h["violated"]))
        ctx.tlc_runs[-1]["expected_violation"] = inv

    # ---- simulated batches
    nruns = 8 if thorough else 2
    depth = 60000 if thorough else 25000
    batches = []
    for i in range(nruns):
        batches += ctx.tlc_simulate(FAMILY, "JsonRpcMBT.tla", "JsonRpc_sim.cfg", depth=depth,
                                    seed=ctx.seed * 1000 + i, timeout=900, files=asis(ctx, "JsonRpc_sim.cfg"))

    # ---- (e) the exchange's context: deadlines and cancellation
    ctx_res, ctx_payload = context_dimension(ctx, binary, thorough)

    payload = {"rows": rows, "batches": batches, "renderings": 3 if thorough else 1,
               "mutations": 400000 if thorough else 60000, "seed": ctx.seed, "selftest": True}
    res = ctx.run_engine(binary, "TestJsonRpcReplay", payload, timeout=3000)
    st = res.get("stats", {})
    if st.get("abstraction_mismatch") and not res.get("divergences"):
        raise vlib.Broken("harness self-check failed: abstraction(render(x)) != x for %s inputs; samples %s" % (
            st["abstraction_mismatch"], st.get("abstraction_mismatch_samples")))
    ctx.absorb(res, "jsonrpc", "TestJsonRpcReplay")
    # a known finding that no longer reproduces is worth a line, not a failure
    for k in ctx.known:
        if k.get("status") == "known" and k["key"] not in [h["key"] for h in ctx.known_hits]:
            print("NOTE: property=C11 known finding %s did not reproduce in this run" % k["key"], flush=True)
    if not ctx.violations:
        # (a hang of the real code AFTER a recorded divergence reports the divergence; alone it is a harness timeout)
        if st.get("engine_panics"):
            raise vlib.Broken("the engine itself panicked: %s" % st.get("abstraction_mismatch_samples"))
        if st.get("timeouts") or st.get("harness_timeouts"):
            raise vlib.Broken("a request did not return within the per-request deadline (harness timeout; stats %s)" % st)
        if st.get("selftest_missed") or not st.get("selftest_caught"):
            raise vlib.Broken("binding self-test: corrupted expectations were accepted (%s missed, %s caught)" % (
                st.get("selftest_missed"), st.get("selftest_caught")))
        if "panic:" in res.get("_stdout", ""):
            raise vlib.Broken("engine panicked:\n" + res["_stdout"][-3000:])
        if st.get("exchanges", 0) < len(rows) or not st.get("exchanges_invoking_a_handler") \
                or not st.get("large_chunked_exchanges_invoking_a_handler") or not st.get("exchanges_delivered_in_chunks") \
                or not st.get("concurrent_invocations_checked") or not st.get("huge_batches_conforming") \
                or not st.get("typed_null_for_struct_pointer_invoking_a_handler") or not st.get("typed_null_element_invoking_a_handler") \
                or not st.get("typed_tag_violation_refused_by_validator") or not st.get("typed_tag_violation_accepted_without_validator") \
                or not st.get("typed_null_refused") or not st.get("mutants_of_typed_methods_classified"):
            raise vlib.Broken("engine replayed too little: %s" % st)
    if not ctx.violations:
        cst = ctx_res.get("stats", {})
        if cst.get("engine_panics"):
            raise vlib.Broken("the context engine itself panicked: %s" % ctx_res.get("samples"))
        if cst.get("selftest_missed") or not cst.get("selftest_caught"):
            raise vlib.Broken("context binding self-test: a mutant's outcome was accepted (%s missed, %s caught)" % (
                cst.get("selftest_missed"), cst.get("selftest_caught")))
        if cst.get("harness_timeouts", 0) > 5:
            raise vlib.Broken("context dimension: %s awaited events of the real server did not come within the harness deadline "
                              "(harness timeout, not a verdict)" % cst.get("harness_timeouts"))
        need = ("ctx_rows_conforming", "ctx_refused_by_gate", "ctx_ended_at_arrival_invoking_a_handler", "ctx_behaviours_conforming",
                "ctx_situation_expired_during_batch", "ctx_situation_cancelled_during_batch",
                "ctx_handlers_dispatched_after_the_context_ended_mid_batch", "ctx_handlers_called_after_the_deadline",
                "ctx_handlers_called_after_cancellation", "ctx_timer_rounds_conforming")
        if any(not cst.get(k) for k in need) or cst.get("ctx_row_exchanges", 0) < len(ctx_payload["rows"]):
            raise vlib.Broken("context engine replayed too little: %s" % cst)
    ctx.coverage["rows_exported_exhaustively"] = len(rows)
    ctx.coverage["simulated_batches"] = len(batches)
    ctx.coverage["exhaustive"] = False
    if not ctx.violations:
        # jsonrpc/websocket.go: the same answers, one per owed frame, whole frames, over a real websocket connection
        ctx.include("G04", accept=lambda k: not k.startswith(("ws-notification", "ws-close", "ws-cross-connection", "ws-conn",
                                                              "ws-stream:unexpected-notification", "ws-stream:expected-notification")),
                    why="jsonrpc/websocket.go: request/response correlation and well-formedness on the websocket transport")
    ctx.assumptions += [
        "an id member that is null is read as 'no id' (notification), as the code and JSON-RPC 1.0 do",
        "for an INVALID request the response id may be null or the request's own id",
        "only the first JSON value of the byte stream is the request; trailing bytes are not judged",
        "member names are matched as encoding/json does; inputs with duplicate or case-folded member names "
        "(other than a duplicated id) are judged for well-formedness of the answer only",
        "a refusal by the HTTP admission gate (503 before the body is read, for a context that has already ended) is not a "
        "request the server received; past the gate the state of the context never excuses a missing response",
        "handlers of the harness method table return non-nil results (a handler returning an untyped nil result would be "
        "serialised without result member; no juno handler does)",
    ]
    return ctx.finish(
        "model_checking",
        "exhaustive TLC on JsonRpc.tla (repaired + faithful) over the full member alphabet for singles/batches of one and "
        "over class representatives for batches <= 3/4 with every pool interleaving; every exported row (one per distinct "
        "abstract input) rendered with seeded syntax variation (natural size, and 600 B..64 KiB for all handler-reaching "
        "requests, batches and a sixth of the rest) and sent to the real jsonrpc.Server through HandleReader / "
        "HandleReadWriter / HTTP, at once or in seeded read-size patterns; TLC-simulated batches of <= 6 entries on a 3-worker pool; seeded byte-level mutants judged "
        "by encoding/json + abstraction + the exhaustive table; typed methods (parameter type classes struct / *struct / *scalar / "
        "[]struct / []*struct / map[string]*struct / custom UnmarshalJSON, real rpc/v10 types) x {omitted, null, good, wrong kind, "
        "tag-violating, null element} exhaustively, on servers with the production validator rpcv10.Validator() and without one, "
        "3 renderings per row; the context dimension: every (single / batch of one) x (context live / expired / cancelled at arrival) x "
        "(gate / no gate) row through HandleReader / HandleReadWriter / HTTP with the transports' timeout options, TLC-simulated batches of "
        "<= 4 entries on 1- and 2-worker pools with a gate-enforced schedule in which the context ends mid-batch, real-timer rounds; "
        "non-trivial = the answer bytes are parsed and compared "
        "(shape, one response per owed entry, id, result/error, code, payload) and the handler log is compared")

"""G01 (specification growth, not a listed property) — feed.Feed: one-slot lossy broadcast.
Supports C06 (notification order), C16 (pruner triggers), C17 (L1-head feed). Run with ./check G01.
Not registered in MANIFEST.json (only listed properties are); evidence is written to evidence/G01.json."""
import json
import vlib


def run(ctx):
    binary = ctx.build_engine("feed")
    if ctx.replay:
        rp = json.load(open(ctx.replay))
        ctx.absorb(ctx.run_engine(binary, rp["test"], rp["input"]), "feed", rp["test"])
        return ctx.finish("model_checking", "replay")
    ctx.tlc_check("feed", "Feed.tla", "Feed_quick.cfg" if ctx.quick() else "Feed_thorough.cfg", timeout=1800)
    behaviours = []
    for i in range(2 if ctx.quick() else 10):
        behaviours += ctx.tlc_simulate("feed", "FeedMBT.tla", "Feed_sim.cfg", depth=31 * 200, seed=ctx.seed * 100 + i)
    ctx.absorb(ctx.run_engine(binary, "TestFeedReplay", {"behaviours": behaviours}), "feed", "TestFeedReplay")
    ctx.absorb(ctx.run_engine(binary, "TestFeedConcurrent", {}), "feed", "TestFeedConcurrent")
    return ctx.finish("model_checking", "exhaustive TLC on Feed.tla + replay of simulated behaviours (30 calls, 4 subscribers) "
                      "on the real feed.Feed + concurrent sender/receiver rounds monitored with the spec's invariants")

"""C19 — erasure-coded broadcast rebuilds the exact message from any sufficient shards
(spec/consensus/Propeller.tla).

TLC: exhaustive check of Propeller.tla with every Fix* switch TRUE (the repaired design): every
subset of at least `data` units rebuilds the message, fewer never do; a unit corrupted in any single
field yields the exact message or an error and never a failure; the validator accepts honest units
and rejects every corrupted one; padding arithmetic; scheduler thresholds.  A second run with the
switches FALSE (the code as it is) must be reported in violation by TLC - it is what the known
findings are about.
Binding: TLC evaluates the specification's Construct / Validate / FromProto / padding / scheduler
operators into per-configuration outcome tables (once per switch setting); the Go engine runs
the REAL CreatePropellerUnits (seeded libp2p ed25519 keys), ConstructMessageFromUnits for every
subset and every single-field corruption in every subset, Byzantine length prefixes, the real
UnitValidator / Scheduler / UnitFromProto / merkle proofs, and compares outcome classes; the validator is
also driven as a STATE MACHINE: sequences of genuine and junk units (every junk kind aimed at every index,
before and after the genuine unit, and "poison-all") on ONE real validator instance, with hand-built units
whose Merkle leaves use the encoding that validator verifies (so H17 does not mask it); a rejected unit must
leave no trace, a genuine unit is accepted iff its index was not accepted before, and the accepted shards
must still reach the build threshold and rebuild the message.  Two monitors of the API-level machine of the
spec (calls of several messages in flight interleave; results depend on the own message only and are values):
a CONCURRENT round (8 goroutines x N honest create / verify-every-proof / rebuild-from-a-random-sufficient-subset
round trips on distinct messages at the same time) and a RETAINED-RESULT check (every value handed back by the
package - rebuilt messages, local shards and proofs, unit shards / proofs / signatures, padded / unpadded buffers -
is kept and compared again with a private copy after thousands of later calls)
(msg bit-for-bit | err | panic | other).  Equal to the repaired table: fine.  Equal to the as-is
table only: a divergence keyed by the modelled defect.  Anything else: a divergence keyed by the case.
"""
import json
import os
from concurrent.futures import ThreadPoolExecutor

import vlib


def tables(ctx, cfg):
    # one JSON line per configuration (the `behaviours` of this property are outcome tables)
    return ctx.tlc_simulate("consensus", "PropellerMBT.tla", cfg, depth=40, seed=1, timeout=900)


def run(ctx):
    binary = ctx.build_engine("propeller")
    if ctx.replay:
        with open(ctx.replay) as f:
            rp = json.load(f)
        res = ctx.run_engine(binary, rp["test"], rp["input"])
        ctx.absorb(res, "propeller", rp["test"])
        return ctx.finish("model_checking", "replay of one recorded case")

    thorough = not ctx.quick()
    if os.environ.get("VERIF_SKIP_TLC"):   # development aid only (mutation runs); never set by registered commands
        return replay_tables(ctx, binary, thorough)
    r = ctx.tlc_check("consensus", "MCPropeller.tla", "Propeller_thorough.cfg" if thorough else "Propeller_quick.cfg",
                      timeout=2400, coverage=thorough)
    if thorough:
        vlib.require_actions_covered(r)
    ctx.tlc_check("consensus", "MCPropeller.tla", "Propeller_api.cfg", timeout=600,
                  label="API-level machine: interleaved calls on 2 messages, results are values")
    m = ctx.tlc_check("consensus", "MCPropeller.tla", "Propeller_ascode.cfg", timeout=900, expect_violation=True,
                      label="the code as it is (Fix* = FALSE)")
    if m["ok"]:
        raise vlib.Broken("the as-is model satisfies every property although defects are modelled: switches are dead")
    if thorough:
        mm = ctx.tlc_check("consensus", "MCPropeller.tla", "Propeller_mutant.cfg", timeout=900, expect_violation=True,
                           label="design mutant: validator records the shard index before checking the unit")
        if mm["ok"]:
            raise vlib.Broken("vacuity: the session properties hold for a validator that records rejected units")

    return replay_tables(ctx, binary, thorough)


H17_KEY = "propeller-validator:honest-unit-rejected:proof-checked-against-marshalled-shards"


def leaf_encoding(ctx):
    """Which Merkle leaf encoding the validator of this tree uses - taken from known_findings.json, never found out
    by trying on the tree under test: H17 listed as known => the validator hashes the protobuf encoding of
    ShardData; fixed / unlisted => the repaired design (raw shard bytes, as CreatePropellerUnits does)."""
    for k in ctx.known:
        if k.get("status") == "known" and vlib.key_matches(k["key"], H17_KEY):
            return "proto"
    return "raw"


def replay_tables(ctx, binary, thorough):
    with ThreadPoolExecutor(max_workers=2) as ex:
        fut_fix = ex.submit(tables, ctx, "Propeller_sim_fix.cfg")
        fut_cur = ex.submit(tables, ctx, "Propeller_sim_cur.cfg")
        fix, cur = fut_fix.result(), fut_cur.result()
    if len(fix) != len(cur) or len(fix) < 13:
        raise vlib.Broken("expected one table per configuration, got %d / %d" % (len(fix), len(cur)))
    fix.sort(key=lambda t: (t["d"] + t["p"], t["d"]))
    res = ctx.run_engine(binary, "TestPropellerReplay", {"fix": fix, "cur": cur, "seed": ctx.seed, "full": thorough, "leaf": leaf_encoding(ctx),
                                                            "concurrent": {"goroutines": 8, "rounds": 600 if thorough else 150}},
                         timeout=3000)
    ctx.absorb(res, "propeller", "TestPropellerReplay")
    st = res.get("stats", {})
    if not ctx.violations:   # vacuity guards; a run that already observed a violation reports that instead
        for need in ("cases:honest", "cases:corrupt", "cases:byz", "cases:validate", "cases:proto", "cases:create",
                     "cases:sched", "cases:session", "cases:concurrent", "retained_values_rechecked"):
            if not st.get(need):
                raise vlib.Broken("vacuity: the replay ran no %s" % need)
        if st.get("session_setup_impossible"):
            raise vlib.Broken("validator sequences could not be set up (%d plans)" % st["session_setup_impossible"])
    for k in ctx.known:   # a listed known finding that no longer shows is worth a note, not a verdict
        if k.get("status") == "known" and k["key"] not in [h["key"] for h in ctx.known_hits] and not ctx.violations:
            print("NOTE: property=C19 known finding [%s] did not reproduce on this tree" % k["key"], flush=True)
    ctx.coverage["validator_leaf_encoding"] = leaf_encoding(ctx)
    ctx.coverage["configurations"] = ["(%d,%d)" % (t["d"], t["p"]) for t in fix]
    ctx.coverage["cases_replayed"] = res.get("steps", 0)
    ctx.assumptions += [
        "Reed-Solomon algebra (klauspost/reedsolomon), SHA-256 and Ed25519 are trusted: the model only uses "
        "that any `data` shards determine the codeword and that changed inputs do not verify",
        "the processor files a unit under its index field and creates one validator per (committee, publisher, root, "
        "nonce); the unexported subprocessor loop itself is not driven (it cannot pass its validator today, see H17)",
        "outcome classes are compared, not error texts; validator stages are read off the error prefix",
    ]
    return ctx.finish(
        "model_checking",
        "exhaustive TLC over 13 (data, parity) configurations incl. all scheduler-derived ones for 2..10 peers x every "
        "subset of present units x every single-field corruption x validator experiments; outcome tables generated by "
        "TLC for the repaired and the as-is switch settings are replayed case by case on the real propeller package "
        "(message lengths 0..17, 125..130, 16380..16386; every subset; every corruption in every subset); "
        "non-trivial = every case class must have been run (checked) and the as-is model must violate the property in TLC. "
        "The property does not quantify over schedules; the concurrent round (and the 6 case workers) is nevertheless a verdict "
        "because processing several messages at once is how ONE node's engine uses this package internally (Processor: one "
        "goroutine per message key plus the publisher): package-level state shared between independent messages is part of "
        "a single node's behaviour, not an interleaving of independent API users")

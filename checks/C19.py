"""C19 — erasure-coded broadcast rebuilds the exact message from any sufficient shards
(spec/consensus/Propeller.tla).

TLC: exhaustive check of Propeller.tla with every Fix* switch TRUE (the repaired design): every
subset of at least `data` units rebuilds the message, fewer never do; a unit corrupted in any single
field yields the exact message or an error and never a failure; the validator accepts honest units
and rejects every corrupted one; padding arithmetic; scheduler thresholds.  A second run with the
switches FALSE (the code as it is) must be reported in violation by TLC - it is what the known
findings are about.
Binding: TLC evaluates the specification's Construct / Validate / FromProto / padding / scheduler
operators into per-configuration outcome tables (once per switch setting); the Go engine runs
the REAL CreatePropellerUnits (seeded libp2p ed25519 keys), ConstructMessageFromUnits for every
subset and every single-field corruption in every subset, Byzantine length prefixes, the real
UnitValidator / Scheduler / UnitFromProto / merkle proofs, and compares outcome classes; the validator is
also driven as a STATE MACHINE: sequences of genuine and junk units (every junk kind aimed at every index,
before and after the genuine unit, and "poison-all") on ONE real validator instance, with hand-built units
whose Merkle leaves use the encoding that validator verifies (so H17 does not mask it); a rejected unit must
leave no trace, a genuine unit is accepted iff its index was not accepted before, and the accepted shards
must still reach the build threshold and rebuild the message.  Two monitors of the API-level machine of the
spec (calls of several messages in flight interleave; results depend on the own message only and are values):
a CONCURRENT round (8 goroutines x N honest create / verify-every-proof / rebuild-from-a-random-sufficient-subset
round trips on distinct messages at the same time) and a RETAINED-RESULT check (every value handed back by the
package - rebuilt messages, local shards and proofs, unit shards / proofs / signatures, padded / unpadded buffers -
is kept and compared again with a private copy after thousands of later calls)
(msg bit-for-bit | err | panic | other).  Equal to the repaired table: fine.  Equal to the as-is
table only: a divergence keyed by the modelled defect.  Anything else: a divergence keyed by the case.

THE ROUTING LAYER (spec/consensus/Processor.tla, EXTENDS Propeller): Processor.ProcessMessage as the action - map
messageKey -> subprocessor (own validator with the cached-signature fast path, received indices, build / receive
thresholds), the finalized time cache, Run's finalize, context end - over several message instances that share
parts of (committee, publisher, root, nonce): the same payload of the same publisher under another committee id /
nonce, by another publisher, another payload under the same other three.  TLC: AcceptedOnlySigned, JudgedByOwn /
OthersUntouched (isolation), DroppedOnlyOwn (the cache never suppresses another instance), AtMostOnce /
DeliveredIsClosed, GenuineNeverRefused, NeverBlocked hold for the repaired design; the routing properties hold for
the code's key with every other switch as the code is; every narrowed key (drop committee / nonce / publisher /
root, cache keyed without publisher, finalize not recording) and the code as it is must be reported in violation.
Binding: behaviours simulated by TLC from the model of the code as it is (committees of 4, 7, 10; a focus pair of
sibling instances per behaviour; genuine units, units with the fields of one instance and the signature of its
sibling, single-defect junk, anything) are stepped through the REAL Processor + Run + subprocessor goroutines with
real keys and signatures: return value, new/old subprocessor, verdict, subprocessor fate, sizes of the subprocessor
map / task counter / finalized cache after every step (harness/engines/propeller/processor_test.go).
"""
import json
import os
import re
from concurrent.futures import ThreadPoolExecutor

import vlib


def tables(ctx, cfg):
    # one JSON line per configuration (the `behaviours` of this property are outcome tables)
    return ctx.tlc_simulate("consensus", "PropellerMBT.tla", cfg, depth=40, seed=1, timeout=900)


def run(ctx):
    binary = ctx.build_engine("propeller")
    if ctx.replay:
        with open(ctx.replay) as f:
            rp = json.load(f)
        res = ctx.run_engine(binary, rp["test"], rp["input"])
        ctx.absorb(res, "propeller", rp["test"])
        return ctx.finish("model_checking", "replay of one recorded case")

    thorough = not ctx.quick()
    part = os.environ.get("VERIF_C19_PART", "")   # development aid only; never set by registered commands
    if part == "processor":
        if not os.environ.get("VERIF_SKIP_TLC"):
            processor_tlc(ctx, thorough)
        processor_replay(ctx, binary, thorough)
        return ctx.finish("model_checking", "development run: routing layer only")
    if os.environ.get("VERIF_SKIP_TLC"):   # development aid only (mutation runs); never set by registered commands
        processor_replay(ctx, binary, thorough)
        return replay_tables(ctx, binary, thorough)
    with ThreadPoolExecutor(max_workers=1) as bg:
        fut = bg.submit(processor_tlc, ctx, thorough)
        try:
            run_propeller_tlc(ctx, thorough)
        finally:
            fut.result()
    processor_replay(ctx, binary, thorough)
    return replay_tables(ctx, binary, thorough)


def run_propeller_tlc(ctx, thorough):
    r = ctx.tlc_check("consensus", "MCPropeller.tla", "Propeller_thorough.cfg" if thorough else "Propeller_quick.cfg",
                      timeout=2400, coverage=thorough)
    if thorough:
        vlib.require_actions_covered(r)
    ctx.tlc_check("consensus", "MCPropeller.tla", "Propeller_api.cfg", timeout=600,
                  label="API-level machine: interleaved calls on 2 messages, results are values")
    m = ctx.tlc_check("consensus", "MCPropeller.tla", "Propeller_ascode.cfg", timeout=900, expect_violation=True,
                      label="the code as it is (Fix* = FALSE)")
    if m["ok"]:
        raise vlib.Broken("the as-is model satisfies every property although defects are modelled: switches are dead")
    if thorough:
        mm = ctx.tlc_check("consensus", "MCPropeller.tla", "Propeller_mutant.cfg", timeout=900, expect_violation=True,
                           label="design mutant: validator records the shard index before checking the unit")
        if mm["ok"]:
            raise vlib.Broken("vacuity: the session properties hold for a validator that records rejected units")


EVENTS_KEY = "propeller-processor:local-shard-broadcast-blocks-for-ever:events-channel-never-wired"
POISON_KEY = "propeller-processor:junk-first-unit-finalizes-key:genuine-units-dropped"

PROC_KEY_PROPS = ["AcceptedOnlySigned", "JudgedByOwn", "OthersUntouched", "DroppedOnlyOwn", "GenuineNeverRefused"]
PROC_INVARIANTS = {"AcceptedOnlySigned", "OneSubPerInstance", "AtMostOnce", "CompleteMeansThreshold", "NeverBlocked", "CacheOnlyFinalized"}


def fixed(ctx, key):
    return any(k.get("status") == "fixed" and vlib.key_matches(k["key"], key) for k in ctx.known)


def processor_tlc(ctx, thorough):
    """Processor.tla: the repaired design holds; the code's key isolates; every narrowed key / the code as it is violates."""
    jobs = [("Processor_thorough.cfg" if thorough else "Processor_quick.cfg", None, None, "routing layer, repaired design")]
    if thorough:
        jobs.append(("Processor_thorough7.cfg", None, None, "routing layer, repaired design, committee of 7"))
    jobs.append(("Processor_ascode_key.cfg" if thorough else "Processor_ascode_key_quick.cfg", None, None,
                 "routing layer, the code as it is: routing properties with the code's key"))
    jobs.append(("Processor_ascode.cfg", {"GenuineNeverRefused", "NeverBlocked"}, None, "routing layer, the code as it is (expected violation)"))
    for d in "cnpr":
        jobs.append(("Processor_x_drop%s.cfg" % d, set(PROC_KEY_PROPS), None, "design mutant: key without %s (expected violation)" % d))
    jobs.append(("Processor_x_findropp.cfg", {"DroppedOnlyOwn", "GenuineNeverRefused"}, None, "design mutant: finalized cache keyed without publisher (expected violation)"))
    jobs.append(("Processor_x_norecord.cfg", {"AtMostOnce", "DeliveredIsClosed"}, None, "design mutant: finalize does not record the key (expected violation)"))
    if thorough:   # every routing property fails on its own under every narrowed key
        for d in "cnpr":
            with open(os.path.join(vlib.VERIF, "spec", "consensus", "Processor_x_drop%s.cfg" % d)) as f:
                base = f.read()
            for prop in PROC_KEY_PROPS:
                lines = [l for l in base.splitlines() if not l.startswith("INVARIANTS") and not l.startswith("PROPERTIES")]
                lines.append(("INVARIANTS " if prop in PROC_INVARIANTS else "PROPERTIES ") + prop)
                name = "Processor_x_drop%s_%s.cfg" % (d, prop)
                jobs.append((name, {prop}, {name: "\n".join(lines) + "\n"}, "design mutant: key without %s violates %s" % (d, prop)))

    def one(job):
        cfg, expect, files, label = job
        r = ctx.tlc_check("consensus", "ProcessorMC.tla", cfg, timeout=1800, expect_violation=expect is not None, files=files,
                          label=label, coverage=(thorough and cfg == "Processor_thorough.cfg"),
                          workers=max(2, int(os.environ.get("VERIF_TLC_WORKERS", "16")) // 2))
        if expect is not None:
            if r["ok"]:
                raise vlib.Broken("vacuity: %s satisfies every property (%s)" % (cfg, label))
            if r["violated"] not in expect:
                raise vlib.Broken("%s: TLC reports %s violated, expected one of %s" % (cfg, r["violated"], sorted(expect)))
        elif thorough and cfg == "Processor_thorough.cfg":
            vlib.require_actions_covered(r)
        return r

    with ThreadPoolExecutor(max_workers=2) as ex:
        list(ex.map(one, jobs))


def processor_replay(ctx, binary, thorough):
    """Behaviours of the model of the code as it is, stepped through the real Processor."""
    leaf = leaf_encoding(ctx)
    sw = {"FixLeaf": "FALSE" if leaf == "proto" else "TRUE",
          "EventsWired": "TRUE" if fixed(ctx, EVENTS_KEY) else "FALSE",
          "AbortPoisons": "FALSE" if fixed(ctx, POISON_KEY) else "TRUE"}
    plan = [(7, 4200 if thorough else 1500), (4, 2400 if thorough else 800), (10, 2400 if thorough else 700)]

    def sim(item):
        np_, depth = item
        with open(os.path.join(vlib.VERIF, "spec", "consensus", "Processor_sim%d.cfg" % np_)) as f:
            cfg = f.read()
        for k, v in sw.items():
            cfg, n = re.subn(r"^  %s = \w+$" % k, "  %s = %s" % (k, v), cfg, flags=re.M)
            if n != 1:
                raise vlib.Broken("Processor_sim%d.cfg has no switch %s" % (np_, k))
        name = "Processor_sim%d_run.cfg" % np_
        bs = ctx.tlc_simulate("consensus", "ProcessorMBT.tla", name, depth=depth, timeout=900, files={name: cfg})
        return {"np": np_, "loc": 1, "behaviours": bs}

    with ThreadPoolExecutor(max_workers=3) as ex:
        groups = list(ex.map(sim, plan))
    payload = {"groups": groups, "seed": ctx.seed, "leaf": leaf, "workers": 6,
               "defects": {"events": EVENTS_KEY, "poison": POISON_KEY, "leaf": H17_KEY}}
    res = ctx.run_engine(binary, "TestProcessorReplay", payload, timeout=1500)
    ctx.absorb(res, "propeller", "TestProcessorReplay")
    st = res.get("stats", {})
    vlib.log("processor replay: " + ", ".join("%s=%s" % (k[10:], v) for k, v in sorted(st.items()) if k.startswith("processor_")))
    if not ctx.violations:   # vacuity: the situations the routing properties are about were really driven
        need = ["processor_steps:process", "processor_steps:finalize", "processor_steps:cancel", "processor_verdict:ok",
                "processor_verdict:sig", "processor_verdict:dup", "processor_verdict:dropped", "processor_return:full",
                "processor_genuine_accepted_while_sibling_finalized", "processor_exit_first", "processor_exit_ctx"]
        need += ["processor_signature_of_warm_sibling:%s" % d for d in "cnpr"]
        for k in need:
            if not st.get(k):
                raise vlib.Broken("vacuity: the processor replay never went through %s" % k)
    ctx.coverage["processor_situations"] = {k: v for k, v in sorted(st.items()) if k.startswith("processor_")}
    ctx.coverage["processor_behaviours"] = sum(len(g["behaviours"]) for g in groups)
    ctx.coverage["processor_steps"] = res.get("steps", 0)
    ctx.coverage["processor_model_switches"] = sw
    ctx.assumptions += [
        "the routing layer is observed through ProcessMessage's return value and the records of Processor.Run; Processor.logger "
        "(never set by the package on this commit) is set by reflection to a recording logger that also gates finalize; sizes of "
        "subProcessors / tasks / finalized are read by reflection while Run is quiescent",
        "StaleMessageTimeout is 30 min in the replay: no expiry of the finalized cache inside a behaviour; a subprocessor's timeout "
        "is the explicit Cancel step (the creating call's context); committees of <= 3 peers (receive threshold below the count "
        "after the build stage) are outside the processor model",
    ]
    return res


H17_KEY = "propeller-validator:honest-unit-rejected:proof-checked-against-marshalled-shards"


def leaf_encoding(ctx):
    """Which Merkle leaf encoding the validator of this tree uses - taken from known_findings.json, never found out
    by trying on the tree under test: H17 listed as known => the validator hashes the protobuf encoding of
    ShardData; fixed / unlisted => the repaired design (raw shard bytes, as CreatePropellerUnits does)."""
    for k in ctx.known:
        if k.get("status") == "known" and vlib.key_matches(k["key"], H17_KEY):
            return "proto"
    return "raw"


def replay_tables(ctx, binary, thorough):
    with ThreadPoolExecutor(max_workers=2) as ex:
        fut_fix = ex.submit(tables, ctx, "Propeller_sim_fix.cfg")
        fut_cur = ex.submit(tables, ctx, "Propeller_sim_cur.cfg")
        fix, cur = fut_fix.result(), fut_cur.result()
    if len(fix) != len(cur) or len(fix) < 13:
        raise vlib.Broken("expected one table per configuration, got %d / %d" % (len(fix), len(cur)))
    fix.sort(key=lambda t: (t["d"] + t["p"], t["d"]))
    res = ctx.run_engine(binary, "TestPropellerReplay", {"fix": fix, "cur": cur, "seed": ctx.seed, "full": thorough, "leaf": leaf_encoding(ctx),
                                                            "concurrent": {"goroutines": 8, "rounds": 600 if thorough else 150}},
                         timeout=3000)
    ctx.absorb(res, "propeller", "TestPropellerReplay")
    st = res.get("stats", {})
    if not ctx.violations:   # vacuity guards; a run that already observed a violation reports that instead
        for need in ("cases:honest", "cases:corrupt", "cases:byz", "cases:validate", "cases:proto", "cases:create",
                     "cases:sched", "cases:session", "cases:concurrent", "retained_values_rechecked"):
            if not st.get(need):
                raise vlib.Broken("vacuity: the replay ran no %s" % need)
        if st.get("session_setup_impossible"):
            raise vlib.Broken("validator sequences could not be set up (%d plans)" % st["session_setup_impossible"])
    for k in ctx.known:   # a listed known finding that no longer shows is worth a note, not a verdict
        if k.get("status") == "known" and k["key"] not in [h["key"] for h in ctx.known_hits] and not ctx.violations:
            print("NOTE: property=C19 known finding [%s] did not reproduce on this tree" % k["key"], flush=True)
    ctx.coverage["validator_leaf_encoding"] = leaf_encoding(ctx)
    ctx.coverage["configurations"] = ["(%d,%d)" % (t["d"], t["p"]) for t in fix]
    ctx.coverage["cases_replayed"] = res.get("steps", 0)
    ctx.assumptions += [
        "Reed-Solomon algebra (klauspost/reedsolomon), SHA-256 and Ed25519 are trusted: the model only uses "
        "that any `data` shards determine the codeword and that changed inputs do not verify",
        "in the table replay the processor's rule (a unit is filed under its index field, one validator per (committee, "
        "publisher, root, nonce)) is applied by the engine; the rule itself is what the routing-layer replay checks on "
        "the real Processor / subprocessor goroutines (Processor.tla)",
        "outcome classes are compared, not error texts; validator stages are read off the error prefix",
    ]
    return ctx.finish(
        "model_checking",
        "exhaustive TLC over 13 (data, parity) configurations incl. all scheduler-derived ones for 2..10 peers x every "
        "subset of present units x every single-field corruption x validator experiments; outcome tables generated by "
        "TLC for the repaired and the as-is switch settings are replayed case by case on the real propeller package "
        "(message lengths 0..17, 125..130, 16380..16386; every subset; every corruption in every subset); "
        "non-trivial = every case class must have been run (checked) and the as-is model must violate the property in TLC. "
        "The property does not quantify over schedules; the concurrent round (and the 6 case workers) is nevertheless a verdict "
        "because processing several messages at once is how ONE node's engine uses this package internally (Processor: one "
        "goroutine per message key plus the publisher): package-level state shared between independent messages is part of "
        "a single node's behaviour, not an interleaving of independent API users. "
        "Routing layer: exhaustive TLC on Processor.tla (committee of 4, <= 5 ProcessMessage calls over instances that differ in "
        "one key field, every unit an adversary can assemble from signed material) for the repaired design and for the code's key; "
        "6 narrowed-key / life-cycle design mutants and the code as it is must violate; TLC-simulated behaviours of the as-is model "
        "(committees of 4, 7, 10) are stepped through the real Processor; non-trivial = a unit carrying the signature of a sibling "
        "instance (differing in committee, nonce, publisher, root) met that sibling's warm validator, genuine units were accepted "
        "while a sibling instance sat in the finalized cache, and every verdict / return / exit class occurred (checked)")

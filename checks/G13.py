"""G13 (specification growth, not a listed property) — the consensus gossip layer and the catch-up
path: consensus/p2p/buffered (ProtoBroadcaster with retry and rebroadcast strategy, TopicSubscription),
consensus/p2p/vote (vote converters, broadcasters, listeners), consensus/p2p/p2p.go (the P2P service)
and consensus/sync/sync.go with the driver's sync branch (triggerSync, syncCurrentHeight, the
syncListener) and tendermint's ProcessSync.  Spec family spec/gossip (Gossip.tla, VoteCodec.tla,
ConsensusSync.tla), engine harness/engines/gossip.

What the check does:
  1. exhaustive TLC: Gossip.tla (sending side timed, receiving side, both sides on one topic,
     liveness under fairness; repaired and as coded), VoteCodec.tla, ConsensusSync.tla (safety and
     liveness); every property has an expected-violation run (the modelled defects, stated design
     limits, mutants);
  2. directed probes reproduce the modelled defects on the real code with the shortest scripts (keys
     gossip:broadcaster:*, gossip:subscription:*, consensus-sync:*) and record design observations;
  3. VoteCodec.tla's outcome table (every field-presence x value class of a wire vote; every
     in-memory vote x type) replayed on the real ToVote / FromVote and, as bytes on a real topic, on
     the real vote listeners;
  4. TLC-simulated behaviours of Gossip.tla replayed in lockstep on the real broadcaster (generic
     ProtoBroadcaster with rebroadcast strategy, and the vote broadcaster as p2p.New builds it) and the
     real vote listeners over real libp2p-pubsub topics on an in-memory network inside a
     testing/synctest bubble (fake clock, exact quiescence; every publish attempt gated in a topic
     validator): queue length, blocked callers, pending attempt, first publications, re-sends,
     arrivals, drops, malformed messages, delivered votes compared after every step;
  5. free-running rounds (two callers, a peer, a slow consumer, seeded publish failures) validated
     by TLC against GossipTrace.tla and by monitors that are Gossip.tla's properties;
  6. the real p2p.New services on libp2p hosts over the loopback interface: every vote of every node
     reaches every node's listeners exactly once, unchanged;
  7. TLC-simulated behaviours of ConsensusSync.tla replayed on the real Driver + tendermint state
     machine + MessageExtractor + proposal store + commit listener + p2p/sync BlockFetcher whose peers
     are real p2p/server instances over chainkit chains behind an in-memory host.

The model in force follows known_findings.json: a defect listed `known` is modelled as coded,
otherwise repaired; a defect that a probe reproduces although it is not listed is reported by the
probe (VIOLATION) and the step-by-step bindings then follow the code, so that one defect is one key.
VERIF_G13_ONLY=tlc,probes,codec,replay,conc,nodes,sync restricts a run (development aid)."""
import json
import os
import re
from concurrent.futures import ThreadPoolExecutor

import vlib

FAM = "gossip"
K_CLOSED = "gossip:broadcaster:closed-topic-retried-after-cancel"
K_DEADLINE_OUT = "gossip:broadcaster:deadline-exceeded-retried-for-ever"
K_DEADLINE_IN = "gossip:subscription:deadline-exceeded-busy-loop"
K_CTX = (K_CLOSED, K_DEADLINE_OUT, K_DEADLINE_IN)
K_STALE = "consensus-sync:error-body-reexecutes-previous-actions"
K_EMPTY = "consensus-sync:empty-fetch-never-retried"

G = "MCGossip.tla"
V = "VoteCodec.tla"
C = "ConsensusSync.tla"

EXPECT = [  # module, cfg, violated property, what it shows
    (G, "Gossip_x_deadline_out.cfg", "temporal", "as coded: the retry loop treats DeadlineExceeded as a transient error"),
    (G, "Gossip_x_closed_out.cfg", "temporal", "as coded: a closed topic is retried for ever, also after cancellation"),
    (G, "Gossip_x_deadline_in.cfg", "NoHotSpin", "as coded: the subscription loop spins on DeadlineExceeded"),
    (G, "Gossip_x_blocking.cfg", "NonBlockingBroadcast", "design: a full channel blocks the caller of Broadcast"),
    (G, "Gossip_x_starve.cfg", "RebroPeriodic", "design: every first publication restarts the rebroadcast period"),
    (G, "Gossip_x_forget.cfg", "RebroForgetsOldKeys", "design: the rebroadcast cache never forgets a key"),
    (G, "Gossip_x_dropfull.cfg", "NoSilentLoss", "mutant"), (G, "Gossip_x_noretry.cfg", "NoSilentLoss", "mutant"),
    (G, "Gossip_x_reorder.cfg", "FirstPubFIFO", "mutant"), (G, "Gossip_x_rebroall.cfg", "RebroOnlyLatest", "mutant"),
    (G, "Gossip_x_keepfirst.cfg", "RebroOnlyLatest", "mutant"), (G, "Gossip_x_noreset.cfg", "RebroNotEarly", "mutant"),
    (G, "Gossip_x_earlyretry.cfg", "RetryNotEarly", "mutant"), (G, "Gossip_x_junkthrough.cfg", "TypedRouting", "mutant"),
    (G, "Gossip_x_dup.cfg", "InOrderExactlyOnce", "mutant"), (G, "Gossip_x_reorderin.cfg", "InOrderExactlyOnce", "mutant"),
    (V, "VoteCodec_x_canonical.cfg", "CanonicalOnly", "design: felts are not checked for their canonical form"),
    (C, "CS_x_stale.cfg", "NoStaleReexecution", "as coded: an error body re-executes the previous event's actions"),
    (C, "CS_x_empty.cfg", "temporal", "as coded: a fetch that ends without a body is never retried"),
    (C, "CS_x_fork.cfg", "SyncedIsCanonical", "design: the fetched block is committed whatever the quorum voted for"),
    (C, "CS_x_dupfetch.cfg", "NoDuplicateFetch", "design: fetches of one height overlap"),
    (C, "CS_x_nospawn.cfg", "temporal", "mutant"), (C, "CS_x_fetchnext.cfg", "FetchOnlyCurrent", "mutant"),
    (C, "CS_x_anyheight.cfg", "SyncedIsCanonical", "mutant"), (C, "CS_x_alwaysspawn.cfg", "FetchesBounded", "mutant"),
]

# actions that cannot fire in a configuration by construction
NEVER = {
    "Gossip_out_quick.cfg": ("BDrop", "WaitAbort", "CloseTopic", "EnvPublish", "NetDeliverAt", "NetDeliver", "SubTake", "CbPush", "CbAbort", "SubExit",
                             "SubSpin", "Consume", "CancelB", "Receive", "NoReceive", "Send", "Next", "Env"),
    "Gossip_in_thorough.cfg": ("BStart", "BEnqueue", "BAbort", "BDrop", "InitDone", "LoopExit", "LoopTake", "PubOk", "PubFail", "PubCtx", "RetryWake",
                               "WaitAbort", "LoopTick", "RebroEnd", "TickFire", "Advance", "CancelA", "CloseTopic", "SubSpin", "Receive", "NoReceive", "Send", "Next", "Env"),
    "CS_quick.cfg": ("Next",),
}


def known(ctx, *keys):
    return any(k.get("status") == "known" and any(vlib.key_matches(k["key"], key) for key in keys) for k in ctx.known)


def tla_bool(b):
    return "TRUE" if b else "FALSE"


def tlc_phase(ctx):
    t = not ctx.quick()
    hold = [(G, "Gossip_out_quick.cfg", "sending side, timed (repaired)"),
            (G, "Gossip_in_thorough.cfg", "receiving side (repaired)"),
            (G, "Gossip_both_quick.cfg", "both sides on one topic (repaired)"),
            (G, "Gossip_live_out.cfg", "liveness, sending side (repaired)"), (G, "Gossip_live_in.cfg", "liveness, receiving side (repaired)"),
            (G, "Gossip_live_ascoded_out.cfg", "liveness as coded, sending side, cancellation only"),
            (G, "Gossip_live_ascoded_in.cfg", "liveness as coded, receiving side, cancellation only"),
            (G, "Gossip_ascoded_in.cfg", "as coded, receiving side"),
            (G, "Gossip_noreset.cfg", "design variant: periodic re-sends"),
            (V, "VoteCodec.cfg", "vote converters as coded"), (V, "VoteCodec_strict.cfg", "vote converters, canonical decoder"),
            (C, "CS_quick.cfg", "catch-up (repaired)"), (C, "CS_live.cfg", "catch-up liveness (repaired)"),
            (C, "CS_live_nodecide.cfg", "catch-up liveness by the catch-up path alone (repaired)")]
    if t:
        hold += [(G, "Gossip_out_close.cfg", "sending side, closed topic, deadline contexts (repaired)"),
                 (G, "Gossip_out_norebro.cfg", "sending side without rebroadcast strategy"),
                 (G, "Gossip_in_quick.cfg", "receiving side, small"),
                 (G, "Gossip_both_thorough.cfg", "both sides, larger"),
                 (G, "Gossip_ascoded.cfg", "as coded, sending side"),
                 (C, "CS_thorough.cfg", "catch-up, larger (repaired)"), (C, "CS_ascoded.cfg", "catch-up as coded")]
    else:
        hold += [(G, "Gossip_ascoded_quick.cfg", "as coded, sending side")]
    par = 3
    workers = max(2, int(os.environ.get("VERIF_TLC_WORKERS", "16")) // par)

    def one(job):
        module, cfg, label, expect = job
        return job, ctx.tlc_check(FAM, module, cfg, workers=workers if expect is None else 2, timeout=3000,
                                  label=label + " [" + cfg + "]", expect_violation=expect is not None,
                                  coverage=(t and cfg in NEVER))

    jobs = [(m, c, l, None) for m, c, l in hold] + [(m, c, "expected violation of %s (%s)" % (p, w), p) for m, c, p, w in EXPECT]
    with ThreadPoolExecutor(max_workers=par) as ex:
        results = list(ex.map(one, jobs))
    for (module, cfg, label, expect), r in results:
        if expect is None:
            if "coverage" in r:
                vlib.require_actions_covered(r, ignore=NEVER[cfg])
            continue
        if r["ok"] or r["violated"] != expect:
            raise vlib.Broken("expected-violation run %s: expected %s, got %s — the model changed" % (cfg, expect, r["violated"]))


def cfg_with(base, **over):
    src = open(os.path.join(vlib.VERIF, "spec", FAM, base)).read()
    for k, v in over.items():
        if str(v).startswith("<-"):
            src, n = re.subn(r"\b%s <- \S+" % k, "%s %s" % (k, v), src)
        else:
            src, n = re.subn(r"\b%s = \S+" % k, "%s = %s" % (k, v), src)
        if n != 1:
            raise vlib.Broken("cfg rewrite: %s not found once in %s" % (k, base))
    return src


def validate_trace(ctx, tracefile, rinfo, cfg_text, engine_test):
    """TLC decides whether the recorded rounds are behaviours of GossipTrace.tla. A rejected round
    is reported (replayable: its lines) and dropped; the rest is validated again."""
    lines = open(tracefile).read().splitlines()
    if len(lines) < 10:
        raise vlib.Broken("concurrent recorder produced no events")
    accepted = 0
    for _ in range(4):
        with open(tracefile, "w") as f:
            f.write("\n".join(lines) + "\n")
        ok, r = ctx.tlc_trace(FAM, "GossipTrace.tla", "gen.cfg", tracefile, timeout=1500, files={"gen.cfg": cfg_text})
        if ok:
            accepted += len(rinfo)
            break
        if r["violated"] != "postcondition" or not r.get("highwater"):
            raise vlib.Broken("trace validation failed for another reason than rejection:\n%s" % "\n".join(r["out"].splitlines()[-30:]))
        hw = r["highwater"]
        bad = ([x for x in rinfo if x["first"] <= hw <= x["last"]] or [rinfo[-1]])[0]
        seg = lines[bad["first"] - 1: bad["last"]]
        ctx.report("gossip:concurrent:trace-rejected",
                   "a recorded free-running history of the real broadcaster / listeners is not a behaviour of Gossip.tla (stuck at line %d of the round: %s)" % (
                       hw - bad["first"] + 1, lines[min(hw, len(lines)) - 1][:200]),
                   {"property": "G13", "engine": FAM, "test": engine_test, "seed": ctx.seed,
                    "input": {"trace": {"lines": seg, "cfg": cfg_text}}})
        keep, new_info, pos = [], [], 1
        for x in rinfo:
            if x is bad:
                continue
            n = x["last"] - x["first"] + 1
            keep += lines[x["first"] - 1: x["last"]]
            y = dict(x)
            y["first"], y["last"] = pos, pos + n - 1
            new_info.append(y)
            pos += n
        lines, rinfo = keep, new_info
        if not lines:
            break
    ctx.traces_validated += accepted
    ctx.coverage["concurrent_rounds_validated_by_tlc"] = ctx.coverage.get("concurrent_rounds_validated_by_tlc", 0) + accepted
    if lines and len(ctx.samples) < 6:
        ctx.samples.append({"concurrent_trace_excerpt": [json.loads(x) for x in lines[:12]]})
    return lines


def selftest(ctx, lines, cfg_text):
    """The trace binding must reject corrupted histories (thorough tier)."""
    def corrupt(kind):
        out, done = [], False
        for ln in lines:
            e = json.loads(ln)
            if not done:
                if kind == "phantom-take" and e["ev"] == "Take" and e["m"] < 100:
                    e["m"] = 39 if e["m"] % 2 == 1 else 38   # a message of the right kind that was never broadcast
                    done = True
                elif kind == "wrong-channel" and e["ev"] == "Take":
                    e["k"] = "pc" if e["k"] == "pv" else "pv"
                    done = True
                elif kind == "double-take" and e["ev"] == "Take":
                    out.append(json.dumps(e))   # the same vote handed out twice
                    done = True
                elif kind == "unsent-result" and e["ev"] == "BEnd":
                    e["res"] = "aborted"
                    done = True
            out.append(json.dumps(e))
        return out if done else None
    n = 0
    for kind in ("phantom-take", "wrong-channel", "double-take", "unsent-result"):
        bad = corrupt(kind)
        if bad is None:
            continue
        tf = os.path.join(ctx.scratch, "selftest-%s.ndjson" % kind)
        with open(tf, "w") as f:
            f.write("\n".join(bad) + "\n")
        ok, _ = ctx.tlc_trace(FAM, "GossipTrace.tla", "gen.cfg", tf, timeout=900, files={"gen.cfg": cfg_text})
        if ok:
            raise vlib.Broken("selftest: the trace binding accepted a corrupted history (%s)" % kind)
        n += 1
    if n == 0:
        raise vlib.Broken("selftest: no corruptible event found")
    ctx.coverage["selftest_corrupted_traces_rejected"] = n
    ctx.tlc_runs[:] = [r for r in ctx.tlc_runs if not (r["label"].startswith("trace:") and not r["ok"])]


def run(ctx):
    binary = ctx.build_engine(FAM, stubs=True)
    if ctx.replay:
        rp = json.load(open(ctx.replay))
        inp = rp["input"]
        if isinstance(inp, dict) and "trace" in inp:
            tf = os.path.join(ctx.scratch, "replay.ndjson")
            with open(tf, "w") as f:
                f.write("\n".join(inp["trace"]["lines"]) + "\n")
            validate_trace(ctx, tf, [{"first": 1, "last": len(inp["trace"]["lines"])}], inp["trace"]["cfg"], rp["test"])
        else:
            ctx.absorb(ctx.run_engine(binary, rp["test"], inp), FAM, rp["test"])
        return ctx.finish("model_checking", "replay of one recorded behaviour")
    only = [p for p in os.environ.get("VERIF_G13_ONLY", "").split(",") if p] or ["tlc", "probes", "codec", "replay", "conc", "nodes", "sync"]
    assume = [k for k in os.environ.get("VERIF_G13_ASSUME_KNOWN", "").split(",") if k]
    if assume:
        print("NOTE: property=G13 DEVELOPMENT RUN: treating %s as listed known findings (VERIF_G13_ASSUME_KNOWN)" % assume, flush=True)
        ctx.known += [{"property": "G13", "key": k, "status": "known", "what": "(assumed for development) " + k} for k in assume]
    pool = ThreadPoolExecutor(max_workers=1)
    tlc_job = pool.submit(tlc_phase, ctx) if "tlc" in only else None
    try:
        return bindings(ctx, binary, only, not ctx.quick(), tlc_job)
    finally:
        pool.shutdown(wait=True, cancel_futures=True)


def bindings(ctx, binary, only, thorough, tlc_job):
    # ---- probes: whether the modelled defects show on this tree
    ctx_coded, stale_coded, empty_coded = known(ctx, *K_CTX), known(ctx, K_STALE), known(ctx, K_EMPTY)
    if "probes" in only:
        res = ctx.run_engine(binary, "TestGossipProbes", {}, timeout=600)
        ctx.absorb(res, FAM, "TestGossipProbes")
        keys = {d["key"] for d in res.get("divergences") or []}
        seen_ctx = bool(keys & set(K_CTX))
        if ctx_coded and not seen_ctx:
            print("NOTE: property=G13 known findings %s did not reproduce on this tree" % (K_CTX,), flush=True)
        ctx_coded = seen_ctx
        obs = dict((res.get("stats") or {}).get("observations", {}))
        res2 = ctx.run_engine(binary, "TestConsensusSyncProbes", {}, timeout=600)
        ctx.absorb(res2, FAM, "TestConsensusSyncProbes")
        keys2 = {d["key"] for d in res2.get("divergences") or []}
        for flag, key in (("stale", K_STALE), ("empty", K_EMPTY)):
            coded = stale_coded if flag == "stale" else empty_coded
            if coded and key not in keys2:
                print("NOTE: property=G13 known finding [%s] did not reproduce on this tree" % key, flush=True)
        stale_coded, empty_coded = K_STALE in keys2, K_EMPTY in keys2
        obs.update((res2.get("stats") or {}).get("observations", {}))
        for k, v in sorted(obs.items()):
            print("OBSERVATION property=G13 (stated design, seen on the real code, not a verdict) %s: %s" % (k, v), flush=True)
        ctx.coverage["observations"] = sorted(obs)
    ctx.coverage["model"] = "FixCtx=%s StaleFix=%s RetryEmptyFix=%s" % (not ctx_coded, not stale_coded, not empty_coded)

    # ---- the converters' outcome table
    if "codec" in only:
        rows = ctx.tlc_simulate(FAM, "VoteCodecMBT.tla", "VoteCodec_table.cfg", depth=5, seed=1, timeout=600)
        if len(rows) < 1900:
            raise vlib.Broken("the outcome table of VoteCodec.tla is incomplete (%d rows)" % len(rows))
        res = ctx.run_engine(binary, "TestVoteCodecTable", {"rows": rows}, timeout=900)
        ctx.absorb(res, FAM, "TestVoteCodecTable")
        ctx.traces_validated -= int(res.get("replayed", 0))
        st = res.get("stats") or {}
        if not ctx.violations and (st.get("codec_wire_rows", 0) < 1700 or st.get("codec_listener_cases", 0) < 1700 or st.get("codec_enc_rows", 0) < 150):
            raise vlib.Broken("vacuity: the codec table was not replayed completely: %s" % st)

    # ---- step-by-step replay of Gossip.tla
    if "replay" in only:
        plans = [  # (name, cfg constants, engine parameters, runs quick / thorough)
            ("r1", dict(QCap=1, SubCap=2, OutCap=1, WithRebro="TRUE", WithListener="FALSE"), dict(qcap=1, subcap=2, outcap=1, rebro=True, nolistener=True), 1, 4),
            ("r2", dict(QCap=2, SubCap=1, OutCap=1, WithRebro="TRUE", Key="<- KeyT1"), dict(qcap=2, subcap=1, outcap=1, rebro=True, onekey=True), 1, 4),
            ("v", dict(QCap=1, SubCap=2, OutCap=2, WithRebro="FALSE"), dict(qcap=1, subcap=2, outcap=2, rebro=False), 1, 4),
            ("v2", dict(QCap=3, SubCap=3, OutCap=1, WithRebro="FALSE", NCallers=1), dict(qcap=3, subcap=3, outcap=1, rebro=False), 1, 3),
        ]
        nb = 0
        for i, (name, consts, eng, nq, nt) in enumerate(plans):
            cfg = cfg_with("Gossip_sim.cfg", **consts)
            beh = []
            for j in range(nt if thorough else nq):
                beh += ctx.tlc_simulate(FAM, "GossipMBT.tla", "gen.cfg", depth=9000 if thorough else 3500,
                                        seed=ctx.seed * 1000 + i * 50 + j, files={"gen.cfg": cfg})
            nb += len(beh)
            payload = dict(eng, retry=2, reb=3, fixctx=not ctx_coded, behaviours=beh)
            ctx.absorb(ctx.run_engine(binary, "TestGossipReplay", payload, timeout=1500), FAM, "TestGossipReplay")
        ctx.coverage["gossip_behaviours_replayed"] = nb

    diverged = any(v["key"].startswith(("gossip:replay", "crash:")) for v in ctx.violations)
    # ---- free-running rounds (skipped when the replay already diverged)
    if "conc" in only and not diverged:
        for name, shape in (("rebro", dict(qcap=1, subcap=2, outcap=1, rebro=True)), ("votes", dict(qcap=2, subcap=1, outcap=1, rebro=False))):
            if name == "votes" and not thorough:
                shape = dict(shape)
            tf = os.path.join(ctx.scratch, "gossip-%s.ndjson" % name)
            res = ctx.run_engine(binary, "TestGossipConcurrent",
                                 dict(shape, out=tf, trace_rounds=(24 if thorough else 10) if name == "rebro" else (12 if thorough else 5),
                                      monitor_rounds=(600 if thorough else 120) if name == "rebro" else (300 if thorough else 60)), timeout=1500)
            rinfo = (res.get("stats") or {}).pop("rounds", [])
            ctx.absorb(res, FAM, "TestGossipConcurrent")
            tcfg = cfg_with("GossipTrace.cfg", QCap=shape["qcap"], SubCap=shape["subcap"], OutCap=shape["outcap"],
                            WithRebro=tla_bool(shape["rebro"]), FixCtx=tla_bool(not ctx_coded))
            if rinfo:
                lines = validate_trace(ctx, tf, rinfo, tcfg, "TestGossipConcurrent")
                if thorough and lines and name == "rebro":
                    selftest(ctx, lines, tcfg)
    elif "conc" in only:
        ctx.coverage["concurrent_skipped_after_divergence"] = 1

    if "nodes" in only and not diverged:
        ctx.absorb(ctx.run_engine(binary, "TestGossipNodes", {"nodes": 5 if thorough else 3, "votes": 16 if thorough else 8}, timeout=600), FAM, "TestGossipNodes")

    # ---- the catch-up path
    if "sync" in only:
        cfg = cfg_with("CS_sim.cfg", StaleFix=tla_bool(not stale_coded), RetryEmptyFix=tla_bool(not empty_coded))
        beh = []
        for j in range(4 if thorough else 1):
            beh += ctx.tlc_simulate(FAM, "ConsensusSyncMBT.tla", "gen.cfg", depth=4000 if thorough else 1500, seed=ctx.seed * 1000 + 700 + j, files={"gen.cfg": cfg})
        ctx.coverage["catch_up_behaviours_replayed"] = len(beh)
        ctx.absorb(ctx.run_engine(binary, "TestConsensusSyncReplay", {"h0": 1, "maxh": 6, "behaviours": beh}, timeout=1500), FAM, "TestConsensusSyncReplay")

    if tlc_job is not None:
        tlc_job.result()
    ctx.assumptions += [
        "libp2p-pubsub v0.17.0 as linked: Topic.Publish runs topic validators synchronously for local publications and fails with a ValidationError "
        "when one rejects; a full subscription buffer drops the message; pubsub does not close subscriptions when it shuts down",
        "Go runtime: goroutines parked on a channel send are served in arrival order (used only to generate replayable behaviours); what a select does "
        "with two ready cases is never generated for replay (behaviours end with the cancellation)",
        "the order in which a rebroadcast burst walks its map is not controllable: replayed bursts hold one message, or their receivers are not compared",
        "the network between the hosts is libp2p's in-memory mocknet (replay, free-running rounds) or the loopback interface (TestGossipNodes)",
        "catch-up: the peers are real p2p/server instances over chains of empty blocks; how BlockFetcher assembles and checks a block is G10's subject; "
        "the validator set is four validators of power 1 plus the placeholder sender with the whole power, as consensus/mock.go",
    ]
    return ctx.finish(
        "model_checking",
        "exhaustive TLC on Gossip.tla / VoteCodec.tla / ConsensusSync.tla (repaired design: all properties; as coded: what the defects leave intact; "
        "one expected-violation run per property); the converters' complete outcome table; TLC-simulated behaviours (schema-uniform harness actions, "
        "internal steps have priority so every recorded step starts at rest) replayed on the real objects inside synctest bubbles with full comparison "
        "after every step; free-running rounds validated by TLC (silent steps) and by monitors; real services over loopback; non-trivial = a behaviour "
        "publishes at least one message / starts at least one fetch")

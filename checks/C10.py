"""C10 — Merkle proofs verify against the root and cannot be forged by tampering (spec/trie/Proof.tla).

TLC: exhaustive over every key/value set (H = 3), every queried key, both implementations and every
single tampering of the alphabet: completeness (honest proof => the key's value / absence at every
divergence depth) and soundness (tampered proof => error or the TRUE value) of the VerifyProof
transcriptions; once for the repaired design (all switches TRUE) and once for the code as it is
(wire-level soundness, completeness except the empty trie).
Binding: ProofMBT.tla behaviours replayed on the real tries at height 251 (embedding): real Prove
(node sequence compared with the model's), the model's tampering applied to the real proof objects,
real VerifyProof outcome against the model's verdict and against the soundness / completeness
oracles; honest proofs (incl. of the database-loaded trie2, which the RPC proves on) are also
checked by the independent refimpl.Verify.  RPC: starknet_getStorageProof responses (wire format,
v8/v9/v10, both state backends) verified by refimpl against the block's global state root.  Range proofs: claims generated from the contract
(true / omit-left / omit-mid / alter-value / add-absent / empty / whole-trie) on both VerifyRangeProof,
with the left boundary `first` a present key, an absent model key, or an absent key that leaves the trie INSIDE an
edge (root / internal / leaf edge, on its left or right side: a padding bit of the embedding flipped).
"""
import json
import vlib
from trie_common import Guards, safe_engine, safe_sim, known_status, finish


def run(ctx):
    binary = ctx.build_engine("trie")
    if ctx.replay:
        with open(ctx.replay) as f:
            rp = json.load(f)
        if rp.get("engine") == "trierpc":
            binary = ctx.build_engine("trierpc", stubs=True)
        res = ctx.run_engine(binary, rp["test"], rp["input"])
        ctx.absorb(res, rp.get("engine", "trie"), rp["test"])
        return ctx.finish("model_checking", "replay of one recorded behaviour")

    thorough = not ctx.quick()
    guards = Guards()

    # Which model generates the expectations is decided by known_findings.json, never by the tree under test:
    # a deviation listed as `known` => the model of the code as it is (switch FALSE); fixed / unlisted => repaired.
    sw = {
        "EmptyTrieVerifies": known_status(ctx, "membership-proof:empty-trie-rejected:trie2") is None,
        "CheckValueDepth": known_status(ctx, "membership-proof:retyped-child:trie2") is None,
        "LeftEdgeChecked": known_status(ctx, "range-proof:left-edge-omission:trie2") is None,
    }
    ctx.coverage["model_switches"] = {k: ("TRUE" if v else "FALSE") for k, v in sw.items()}
    with open(vlib.VERIF + "/spec/trie/Proof_sim.cfg") as f:
        simcfg = f.read()
    for k, v in sw.items():
        for old in ("TRUE", "FALSE"):
            simcfg = simcfg.replace("%s = %s" % (k, old), "%s = %s" % (k, "TRUE" if v else "FALSE"))

    nruns = 10 if thorough else 2
    per_run = 40 if thorough else 20
    behaviours = []
    for i in range(nruns):
        behaviours += safe_sim(ctx, guards, "trie", "ProofMBT.tla", "sim.cfg", depth=41 * per_run,
                               seed=ctx.seed * 1000 + i, timeout=900, files={"sim.cfg": simcfg})
    if behaviours:
        res = safe_engine(ctx, binary, "TestProofReplay", {"h": 4, "maxv": 3, "behaviours": behaviours}, "trie", guards)
        ctx.coverage["behaviours_proof"] = len(behaviours)
        ctx.coverage["queries_replayed"] = res.get("steps", 0)
        guards.require(res.get("steps", 0) >= 100 or ctx.violations, "proof replay executed only %s queries" % res.get("steps"))

    # ---- RPC: starknet_getStorageProof on the wire, independent verifier (engine trierpc, FFI stubs)
    try:
        rpcbin = ctx.build_engine("trierpc", stubs=True)
    except vlib.Broken as e:
        rpcbin = None
        guards.failed.append(str(e)[:1500])
    if rpcbin:
        sbeh = []
        for i in range(3 if thorough else 1):
            sbeh += safe_sim(ctx, guards, "trie", "StateMBT.tla", "State_sim.cfg", depth=32 * (40 if thorough else 24),
                             seed=ctx.seed * 1000 + 700 + i, timeout=900)
        if sbeh:
            res = safe_engine(ctx, rpcbin, "TestStorageProofRPC", {"behaviours": sbeh}, "trierpc", guards,
                              env_extra={"CGO_LDFLAGS": "-L" + vlib.BUILD + "/lib"})
            # concurrency-only misbehaviour is not a verdict for C10 (its quantifier has no "schedules"): observations
            obs = res.get("stats", {}).get("observations", {}) or {}
            details = res.get("stats", {}).get("observation_details", {}) or {}
            for k in sorted(obs):
                print("OBSERVATION: property=C10 %s (%d occurrences) %s" % (k, obs[k], details.get(k, "")[:400]), flush=True)
            ctx.coverage["observations"] = obs
            ctx.coverage.pop("observation_details", None)
            ctx.coverage["rpc_chains"] = res.get("replayed", 0)
            ctx.coverage["rpc_proof_checks"] = res.get("steps", 0)
            guards.require(res.get("replayed", 0) >= 10 or ctx.violations, "RPC storage-proof engine served only %s requests" % res.get("replayed"))

    # ---- TLC on the specification (independent of the tree under test; last, so that it can never mask a divergence)
    try:
        # (i) the repaired design: completeness and soundness against the whole alphabet
        ctx.tlc_check("trie", "Proof.tla", "Proof_thorough.cfg" if thorough else "Proof_quick.cfg", timeout=3000,
                      label="Proof.tla/repaired")
        # (ii) the code as it is: sound against wire-level tampering, complete on non-empty tries
        ctx.tlc_check("trie", "Proof.tla", "Proof_faithful.cfg", timeout=3000, label="Proof.tla/faithful")
        if thorough:
            # spec self-test: each switch alone must break a property
            with open(vlib.VERIF + "/spec/trie/Proof_quick.cfg") as f:
                base = f.read()
            for name in ("EmptyTrieVerifies", "CheckValueDepth"):
                r = ctx.tlc_check("trie", "Proof.tla", "sw.cfg", files={"sw.cfg": base.replace(name + " = TRUE", name + " = FALSE")},
                                  expect_violation=True, label="Proof.tla %s=FALSE" % name, timeout=600)
                if r["violated"] is None:
                    raise vlib.Broken("switch %s does not matter in Proof.tla" % name)
    except vlib.Broken as e:
        guards.failed.append(str(e)[:1500])

    ctx.assumptions += [
        "hashes are injective terms in Proof.tla (unforgeable up to collisions); core/crypto is trusted",
        "range proofs are specified by their contract, not transcribed",
        "the RPC handlers are linked against FFI stubs (the VM is never called by starknet_getStorageProof)",
        "every tampered node is rebuilt from its content (no cached nodeFlag.Hash), as a proof received from outside; child retyping models a deserialiser that lets the sender choose the child type",
    ]
    return finish(
        ctx, guards, "model_checking",
        "exhaustive TLC over all key/value sets with <= 3 (thorough 4) keys at H=3 x all queried keys x both implementations x "
        "every single tampering (drop, child := junk / sibling, swap, edge path flip / shorten / lengthen, leaf replaced with "
        "re-hashed path, other key, retype; altered nodes rebuilt and stored under old key / new hash); binding: TLC-simulated behaviours "
        "(key/value sets over 16 model keys, ~35 membership queries and range claims each) replayed at height 251; "
        "non-trivial = every query runs the real Prove and VerifyProof / VerifyRangeProof on a trie with >= 1 binary node "
        "or the empty trie, absent keys at every divergence depth included; range claims (incl. the empty claim) with `first` "
        "diverging inside the root edge, internal edges and leaf edges, left and right of the edge path; RPC: starknet_getStorageProof through the real "
        "jsonrpc.Server (v8/v9/v10 method tables, both state backends) on chains built from StateMBT.tla behaviours, every "
        "class / contract / storage slot (present and absent) verified on the wire format by refimpl.Verify against the "
        "header's state root")

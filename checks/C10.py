"""C10 — Merkle proofs verify against the root and cannot be forged by tampering (spec/trie/Proof.tla).

TLC: exhaustive over every key/value set (H = 3), every queried key, both implementations and every
single tampering of the alphabet: completeness (honest proof => the key's value / absence at every
divergence depth) and soundness (tampered proof => error or the TRUE value) of the VerifyProof
transcriptions; once for the repaired design (all switches TRUE) and once for the code as it is
(wire-level soundness, completeness except the empty trie).
Binding: ProofMBT.tla behaviours replayed on the real tries at height 251 (embedding): real Prove
(node sequence compared with the model's), the model's tampering applied to the real proof objects,
real VerifyProof outcome against the model's verdict and against the soundness / completeness
oracles; honest proofs (incl. of the database-loaded trie2, which the RPC proves on) are also
checked by the independent refimpl.Verify.  RPC: starknet_getStorageProof responses (wire format,
v8/v9/v10, both state backends) verified by refimpl against the block's global state root.  Range proofs: claims generated from the contract
(true / omit-left / omit-mid / alter-value / add-absent / empty / whole-trie) on both VerifyRangeProof,
with the left boundary `first` a present key, an absent model key, or an absent key that leaves the trie INSIDE an
edge (root / internal / leaf edge, on its left or right side: a padding bit of the embedding flipped).
Range proofs, mechanism level (spec/trie/RangeProof.tla): trie2's VerifyRangeProof transcribed with the cached node
hashes it relies on (proofToPath linking the proof-set objects, unsetInternal / unset marking every visited node
dirty, copy-on-write insert, hasher.hash returning a cached hash) - TLC exhaustive over every key set x `first` x
claim shape (every subset of the range withheld, value altered, key added inside / below / beyond, empty, whole
trie) x PROVENANCE of the proof nodes (in-memory nodes carrying nodeFlag.Hash | nodes without cache) x single
tamperings of a proof node; the verifier as it is against the contract with the known deviations left open, the
repaired design against the full contract, and "a visited node is not marked dirty" as expected violation.
Binding: Sweep steps (one range, EVERY claim shape, each verified with the proof nodes taken directly from
GetRangeProof of a hashed trie, of a never hashed trie, of the database-loaded trie, and re-decoded from their
encoding) and RTamper steps (one proof node dropped / altered under its old key / its new hash) on the real
verifiers; verdict = the contract's, and for trie2 additionally the transcription's.
Proof SETS shared between the keys of one request (Proof.tla "shared proof sets", spec/trie/ProofSet.tla): no caller
hands the result of one Prove call to a verifier - rpc/v{8,9,10}/storage.go and GetRangeProof fill ONE set (hash ->
node) per trie with one Prove call per requested key, in request order. TLC, exhaustive over every key/value set with
<= 4 keys at H = 3 over a value alphabet that is NOT tied to the keys (equal sub-tries at different positions exist:
000 001 110 111 -> a b a b) x every request of distinct keys (present and absent) in every order x both
implementations: every key verifies against the accumulated set (SharedSetComplete) and the set is exactly the union of
the single-key proofs (SharedSetIsUnion); "Prove skips a node whose child hash the set already holds", "the walk stops
at the first node the set already holds" and "an edge is filed under its child's hash" are expected violations.
Binding: ProofMBT.tla Graft / Multi behaviours (sub-tries copied to other prefixes, requests of 2..4 keys) and directed
families lifted from TLC's counterexample, on the legacy trie (Pedersen and Poseidon), the in-memory and the
database-loaded trie2, at height 251 and at small heights (5, the model's height, a few bits more): one set filled as
the handlers fill it, in EVERY order of the request; every key must be established by the real VerifyProof (height 251)
and by refimpl.Verify, and the set must be the union of the real single-key proofs. RPC: state whose storage, classes
and contracts tries all hold such equal sub-tries, requests in every order through the real starknet_getStorageProof
(v8 / v9 / v10, both backends), every key established on the wire format by refimpl.Verify and by trie.VerifyProof.
"""
import json
import threading
import vlib
from trie_common import Guards, safe_engine, safe_sim, known_status, finish


def run(ctx):
    binary = ctx.build_engine("trie")
    if ctx.replay:
        with open(ctx.replay) as f:
            rp = json.load(f)
        if rp.get("engine") == "trierpc":
            binary = ctx.build_engine("trierpc", stubs=True)
        res = ctx.run_engine(binary, rp["test"], rp["input"])
        ctx.absorb(res, rp.get("engine", "trie"), rp["test"])
        return ctx.finish("model_checking", "replay of one recorded behaviour")

    thorough = not ctx.quick()
    guards = Guards()

    # Which model generates the expectations is decided by known_findings.json, never by the tree under test:
    # a deviation listed as `known` => the model of the code as it is (switch FALSE); fixed / unlisted => repaired.
    sw = {
        "EmptyTrieVerifies": known_status(ctx, "membership-proof:empty-trie-rejected:trie2") is None,
        "CheckValueDepth": known_status(ctx, "membership-proof:retyped-child:trie2") is None,
        "LeftEdgeChecked": known_status(ctx, "range-proof:left-edge-omission:trie2") is None,
        # RangeProof.tla (transcription of trie2's VerifyRangeProof): the boundary leaf left in place, proof-set
        # objects shared between aliased positions, nodes never compared with the key they are stored under
        "UnsetBoundaryLeaves": known_status(ctx, "range-proof:left-edge-omission:trie2") is None,
        "CopyOnResolve": known_status(ctx, "range-proof:left-edge-omission:trie2:aliased-siblings") is None,
        "RehashResolved": known_status(ctx, "range-proof-trie2:unsound-tampered:keep:single:c:=junk:alter-value") is None,
    }
    ctx.coverage["model_switches"] = {k: ("TRUE" if v else "FALSE") for k, v in sw.items()}

    def with_switches(name):
        with open(vlib.VERIF + "/spec/trie/" + name) as f:
            text = f.read()
        for k, v in sw.items():
            for old in ("TRUE", "FALSE"):
                text = text.replace("%s = %s" % (k, old), "%s = %s" % (k, "TRUE" if v else "FALSE"))
        return text
    simcfg = with_switches("Proof_sim.cfg")
    sweepcfg = with_switches("Proof_sweep.cfg")

    # ---- TLC on the specification: independent of the tree under test, so it runs in a thread of its own next to the
    # simulations / engine runs below (two JVMs at most); a failure lands in the guards and can never mask a divergence
    def tlc_part():
        try:
            # (i) the repaired design: completeness and soundness against the whole alphabet
            ctx.tlc_check("trie", "Proof.tla", "Proof_thorough.cfg" if thorough else "Proof_quick.cfg", timeout=3000,
                          label="Proof.tla/repaired")
            # (ii) the code as it is: sound against wire-level tampering, complete on non-empty tries
            ctx.tlc_check("trie", "Proof.tla", "Proof_faithful.cfg", timeout=3000, label="Proof.tla/faithful")
            # (ii') proof sets shared between the keys of one request: every key/value set over a value alphabet that is not
            # tied to the keys x every request of distinct keys in every order; the code as it is (Prove never reads the set)
            ctx.tlc_check("trie", "ProofSet.tla", "ProofSet_thorough.cfg" if thorough else "ProofSet_quick.cfg", timeout=3000,
                          label="ProofSet.tla/shared-sets")
            if thorough:
                ctx.tlc_check("trie", "ProofSet.tla", "ProofSet_deep.cfg", timeout=3000, label="ProofSet.tla/shared-sets-H4")
                # vacuity: tries with equal sub-tries below different edges are part of the state space (expected violation of
                # "there are none"); the two formulations of the accumulated set agree
                with open(vlib.VERIF + "/spec/trie/ProofSet_quick.cfg") as f:
                    qbase = f.read()
                r = ctx.tlc_check("trie", "ProofSet.tla", "twins.cfg", expect_violation=True, timeout=900, label="ProofSet.tla equal sub-tries exist",
                                  files={"twins.cfg": qbase.replace("INVARIANTS SharedSetComplete SharedSetIsUnion", "INVARIANTS NoTwins")})
                if r["violated"] is None:
                    raise vlib.Broken("ProofSet.tla: no key/value set with two equal sub-tries below different edges")
                ctx.tlc_check("trie", "ProofSet.tla", "acc.cfg", timeout=900, label="ProofSet.tla Accumulate = SharedSet",
                              files={"acc.cfg": qbase.replace("INVARIANTS SharedSetComplete SharedSetIsUnion", "INVARIANTS AccumulateIsSharedSet").replace("MaxV = 2", "MaxV = 1")})
            # ... and the designs that take the hash of a node for its position must be refuted (expected violations)
            for cfgname, mut in (("ProofSet_x_skip.cfg", "skip-known-child"), ("ProofSet_x_stop.cfg", "stop-at-known")) + (
                    (("ProofSet_x_key.cfg", "key-by-child"),) if thorough else ()):
                r = ctx.tlc_check("trie", "ProofSet.tla", cfgname, expect_violation=True, label="ProofSet.tla mutant '%s'" % mut, timeout=900)
                if r["violated"] is None:
                    raise vlib.Broken("ProofSet.tla: the mutant '%s' violates nothing" % mut)
                if thorough and mut != "key-by-child":
                    # ... while the single-key property cannot see them (a single call starts from the empty set)
                    with open(vlib.VERIF + "/spec/trie/" + cfgname) as f:
                        single = f.read().replace("INVARIANTS SharedSetComplete", "INVARIANTS SingleKeyComplete")
                    ctx.tlc_check("trie", "ProofSet.tla", "single.cfg", files={"single.cfg": single},
                                  label="ProofSet.tla mutant '%s' / single-key completeness holds" % mut, timeout=900)
            if thorough:
                # spec self-test: each switch alone must break a property
                with open(vlib.VERIF + "/spec/trie/Proof_quick.cfg") as f:
                    base = f.read()
                for name in ("EmptyTrieVerifies", "CheckValueDepth"):
                    r = ctx.tlc_check("trie", "Proof.tla", "sw.cfg", files={"sw.cfg": base.replace(name + " = TRUE", name + " = FALSE")},
                                      expect_violation=True, label="Proof.tla %s=FALSE" % name, timeout=600)
                    if r["violated"] is None:
                        raise vlib.Broken("switch %s does not matter in Proof.tla" % name)
            # (iii) range proofs: trie2's VerifyRangeProof transcribed with its cached-hash mechanism (RangeProof.tla) -
            # the verifier as it is against the contract with the known deviations left open, and the repaired design
            # against the full contract, every claim shape x both provenances of the proof nodes; tampered proof nodes
            ctx.tlc_check("trie", "RangeProof.tla", "Range_thorough.cfg" if thorough else "Range_quick.cfg", timeout=3000,
                          label="RangeProof.tla/as-it-is")
            ctx.tlc_check("trie", "RangeProof.tla", "Range_repaired_thorough.cfg" if thorough else "Range_repaired_quick.cfg", timeout=3000,
                          label="RangeProof.tla/repaired")
            ctx.tlc_check("trie", "RangeProof.tla", "Range_tamper_thorough.cfg" if thorough else "Range_tamper_quick.cfg", timeout=3000,
                          label="RangeProof.tla/repaired-tampered")
            # the mechanism can fail: a verifier that does not mark EVERY node it visits while cutting the range dirty
            # trusts a cached hash of a node whose subtree it has cut (expected violations)
            with open(vlib.VERIF + "/spec/trie/Range_quick.cfg") as f:
                rbase = f.read()
            full = 'DirtyOnUnset = {"above", "fork", "below"}'
            for drop in (("above", "fork", "below") if thorough else ("above",)):
                rest = ", ".join('"%s"' % x for x in ("above", "fork", "below") if x != drop)
                r = ctx.tlc_check("trie", "RangeProof.tla", "dirty.cfg", files={"dirty.cfg": rbase.replace(full, "DirtyOnUnset = {%s}" % rest)},
                                  expect_violation=True, label="RangeProof.tla unset does not dirty '%s'" % drop, timeout=900)
                if r["violated"] is None:
                    raise vlib.Broken("RangeProof.tla: not marking the nodes '%s' the fork dirty violates nothing" % drop)
            if thorough:
                ctx.tlc_check("trie", "RangeProof.tla", "Range_tamper_faithful.cfg", timeout=3000, label="RangeProof.tla/as-it-is-tampered(drop,rekey)")
                with open(vlib.VERIF + "/spec/trie/Range_tamper_quick.cfg") as f:
                    tbase = f.read()
                sbase = rbase.replace(" = FALSE", " = TRUE").replace("INVARIANTS RangeContract", "INVARIANTS RangeContractStrict")
                for name, cfgtext in (("RehashResolved", tbase), ("UnsetBoundaryLeaves", sbase), ("CopyOnResolve", sbase), ("EmptyTrieVerifies", sbase)):
                    r = ctx.tlc_check("trie", "RangeProof.tla", "sw.cfg", files={"sw.cfg": cfgtext.replace(name + " = TRUE", name + " = FALSE")},
                                      expect_violation=True, label="RangeProof.tla %s=FALSE" % name, timeout=900)
                    if r["violated"] is None:
                        raise vlib.Broken("switch %s does not matter in RangeProof.tla" % name)
        except vlib.Broken as e:
            guards.failed.append(str(e)[:1500])
        except Exception as e:   # noqa: a broken thread must surface as broken machinery, not vanish
            guards.failed.append("TLC part: %r" % (e,))

    tlc_thread = threading.Thread(target=tlc_part, name="tlc-spec")
    tlc_thread.start()

    nruns = 10 if thorough else 2
    per_run = 40 if thorough else 20
    behaviours = []
    for i in range(nruns):
        behaviours += safe_sim(ctx, guards, "trie", "ProofMBT.tla", "sim.cfg", depth=41 * per_run,
                               seed=ctx.seed * 1000 + i, timeout=900, files={"sim.cfg": simcfg})
    # range-proof sweeps (every claim shape over one range x every provenance of the proof nodes) and tampered range
    # proofs: simulation runs of their own (ProofMBT.tla SweepOnly)
    nsweep = 0
    for i in range(6 if thorough else 1):
        sb = safe_sim(ctx, guards, "trie", "ProofMBT.tla", "sweep.cfg", depth=27 * (40 if thorough else 22),
                      seed=ctx.seed * 1000 + 300 + i, timeout=900, files={"sweep.cfg": sweepcfg})
        nsweep += len(sb)
        behaviours += sb
    if behaviours:
        res = safe_engine(ctx, binary, "TestProofReplay", {"h": 4, "maxv": 3, "behaviours": behaviours}, "trie", guards)
        ctx.coverage["behaviours_range_sweeps"] = nsweep
        st = res.get("stats", {})
        guards.require(st.get("proof_sweep-verifications", 0) >= 500 or ctx.violations,
                       "range-proof sweeps executed only %s verifications" % st.get("proof_sweep-verifications"))
        guards.require(st.get("proof_sweep-claims-of-kept-boundary-leaves-only", 0) >= 3 or ctx.violations,
                       "range-proof sweeps claimed only %s ranges by their kept boundary leaves alone" % st.get("proof_sweep-claims-of-kept-boundary-leaves-only"))
        ntam = sum(v for k, v in st.items() if k.startswith("proof_rtamper-case-"))
        guards.require(ntam >= 30 or ctx.violations, "only %s tampered range proofs were verified" % ntam)
        ctx.coverage["behaviours_proof"] = len(behaviours)
        ctx.coverage["queries_replayed"] = res.get("steps", 0)
        guards.require(res.get("steps", 0) >= 100 or ctx.violations, "proof replay executed only %s queries" % res.get("steps"))

    # ---- proof sets shared between the keys of one request: TLC behaviours with grafted sub-tries (ProofMBT.tla Graft /
    # Multi steps) + directed families, every order of every request, legacy / trie2 (memory, database), height 251 and small
    shared = []
    sharedcfg = with_switches("Proof_shared.cfg")
    for i in range(4 if thorough else 1):
        shared += safe_sim(ctx, guards, "trie", "ProofMBT.tla", "shared.cfg", depth=25 * (40 if thorough else 20),
                           seed=ctx.seed * 1000 + 500 + i, timeout=900, files={"shared.cfg": sharedcfg})
    res = safe_engine(ctx, binary, "TestSharedProofSets", {"h": 4, "maxv": 3, "behaviours": shared, "directed": True}, "trie", guards)
    st = res.get("stats", {})
    ctx.coverage["behaviours_shared_sets"] = len(shared)
    guards.require(st.get("shared_cases", 0) >= 300 or ctx.violations, "only %s shared-proof-set cases were run" % st.get("shared_cases"))
    guards.require(st.get("shared_tlc-requests-on-tries-with-equal-subtries", 0) >= 10 or ctx.violations or not shared,
                   "only %s TLC-generated requests hit a trie with equal sub-tries below different edges" % st.get("shared_tlc-requests-on-tries-with-equal-subtries"))
    guards.require((st.get("shared_cases-height-251-pedersen", 0) >= 50 and st.get("shared_cases-height-251-poseidon", 0) >= 50) or ctx.violations,
                   "shared proof sets at height 251: %s Pedersen / %s Poseidon cases" % (st.get("shared_cases-height-251-pedersen"), st.get("shared_cases-height-251-poseidon")))

    # ---- RPC: starknet_getStorageProof on the wire, independent verifier (engine trierpc, FFI stubs)
    try:
        rpcbin = ctx.build_engine("trierpc", stubs=True)
    except vlib.Broken as e:
        rpcbin = None
        guards.failed.append(str(e)[:1500])
    if rpcbin:
        sbeh = []
        for i in range(3 if thorough else 1):
            sbeh += safe_sim(ctx, guards, "trie", "StateMBT.tla", "State_sim.cfg", depth=32 * (40 if thorough else 24),
                             seed=ctx.seed * 1000 + 700 + i, timeout=900)
        if sbeh:
            res = safe_engine(ctx, rpcbin, "TestStorageProofRPC", {"behaviours": sbeh}, "trierpc", guards,
                              env_extra={"CGO_LDFLAGS": "-L" + vlib.BUILD + "/lib"})
            # concurrency-only misbehaviour is not a verdict for C10 (its quantifier has no "schedules"): observations
            obs = res.get("stats", {}).get("observations", {}) or {}
            details = res.get("stats", {}).get("observation_details", {}) or {}
            for k in sorted(obs):
                print("OBSERVATION: property=C10 %s (%d occurrences) %s" % (k, obs[k], details.get(k, "")[:400]), flush=True)
            ctx.coverage["observations"] = obs
            ctx.coverage.pop("observation_details", None)
            ctx.coverage["rpc_chains"] = res.get("replayed", 0)
            ctx.coverage["rpc_proof_checks"] = res.get("steps", 0)
            guards.require(res.get("replayed", 0) >= 10 or ctx.violations, "RPC storage-proof engine served only %s requests" % res.get("replayed"))
        # shared proof sets through the real handlers: storage, classes and contracts tries with equal sub-tries at
        # different positions (TLC's Multi steps + directed record layouts), requests in every order
        res = safe_engine(ctx, rpcbin, "TestStorageProofSharedSets", {"behaviours": shared, "directed": True, "maxCases": 80 if thorough else 20},
                          "trierpc", guards, env_extra={"CGO_LDFLAGS": "-L" + vlib.BUILD + "/lib"})
        ctx.coverage["rpc_shared_set_requests"] = res.get("steps", 0)
        guards.require(res.get("steps", 0) >= 40 or ctx.violations, "only %s starknet_getStorageProof requests on state with equal sub-tries" % res.get("steps"))

    tlc_thread.join()

    ctx.assumptions += [
        "hashes are injective terms in Proof.tla (unforgeable up to collisions); core/crypto is trusted",
        "ProofSet.tla: renaming the values is a symmetry of the model (hash terms are uninterpreted), one of each pair of "
        "value-renamed key/value sets is checked; at heights other than 251 only the independent verifier applies (both real "
        "VerifyProof hard-code 251)",
        "range proofs: core/trie's verifier is specified by its contract only; core/trie2's is also transcribed (RangeProof.tla)",
        "a proof node altered in place with its cached nodeFlag.Hash kept is not a proof tampering (DESIGN 13.3); HONEST nodes "
        "that carry a cache (taken directly from Prove / GetRangeProof of a hashed or database-loaded trie) are part of the domain",
        "the RPC handlers are linked against FFI stubs (the VM is never called by starknet_getStorageProof)",
        "every tampered node is rebuilt from its content (no cached nodeFlag.Hash), as a proof received from outside; child retyping models a deserialiser that lets the sender choose the child type",
    ]
    return finish(
        ctx, guards, "model_checking",
        "exhaustive TLC over all key/value sets with <= 3 (thorough 4) keys at H=3 x all queried keys x both implementations x "
        "every single tampering (drop, child := junk / sibling, swap, edge path flip / shorten / lengthen, leaf replaced with "
        "re-hashed path, other key, retype; altered nodes rebuilt and stored under old key / new hash); binding: TLC-simulated behaviours "
        "(key/value sets over 16 model keys, ~35 membership queries and range claims each) replayed at height 251; "
        "non-trivial = every query runs the real Prove and VerifyProof / VerifyRangeProof on a trie with >= 1 binary node "
        "or the empty trie, absent keys at every divergence depth included; range claims (incl. the empty claim) with `first` "
        "diverging inside the root edge, internal edges and leaf edges, left and right of the edge path; range sweeps: for one "
        "(first, last) every subset of the in-range keys withheld, every value altered, a key added inside / below / beyond, the "
        "empty claim, each x {mem-hashed, mem-unhashed, db, wire} proof nodes (boundary leaves directly under a bottom-level "
        "binary node and at the end of an edge, absent boundaries, boundaries inside an edge), and single tamperings of a "
        "range-proof node (drop, alter under the old key / the new hash) in the single-element, empty and general cases; RPC: starknet_getStorageProof through the real "
        "jsonrpc.Server (v8/v9/v10 method tables, both state backends) on chains built from StateMBT.tla behaviours, every "
        "class / contract / storage slot (present and absent) verified on the wire format by refimpl.Verify against the "
        "header's state root; shared proof sets: TLC exhaustive over every key/value set (<= 4 keys, H=3, values {1,2} not tied to "
        "keys) x every request of 1..2 (thorough 3) distinct keys in every order x both implementations, three hash-for-position "
        "mutants refuted; binding: requests of 2..4 keys from TLC behaviours with grafted sub-tries and from directed families "
        "(one sub-trie at two or three prefixes x shapes x bystanders), one set filled as the RPC handlers fill it in EVERY order, "
        "legacy (Pedersen / Poseidon) and trie2 (memory, database) at height 251 and small heights, every key established by the "
        "real and the independent verifier and the set compared with the union of the single-key proofs; the same key/value sets "
        "as contract storage, classes and contracts of a chain, asked through the real starknet_getStorageProof in every order; "
        "non-trivial = the request has >= 2 keys on a non-empty trie (guard: >= 10 TLC requests on tries with equal sub-tries "
        "below different edges)")

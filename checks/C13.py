"""C13 — crash recovery of the consensus driver from its WAL (spec/consensus/Driver.tla).

TLC (exhaustive, every crash point between two effects, up to 2 crashes):
  * repaired design (LogOwnProposal = TRUE), proposer role: NoConflictSent, NoConflictProposal,
    FlushBeforeVisible, RecoveredState, ResumeHeight hold;
  * the code as it is (LogOwnProposal = FALSE), non-proposer role: the same properties hold;
  * the code as it is, proposer role: TLC itself finds DESIGN.md H6 (a second, different proposal for
    the same (height, round) after recovery) — expected, recorded in the evidence.
Binding: behaviours simulated by TLC from the FAITHFUL model (inputs, every effect, crashes at random
effect indices, recoveries) are replayed on the REAL driver.New(...) with the real tendermint state
machine and the real walstore on scratch directories; all environment objects are gates/recorders;
crash = park the driver inside the next effect, copy the WAL directory, new driver + new machine on
the copy.  Compared: order and content of every effect, the durable log loaded after each crash, the
machine state after every completed input and after recovery; monitors (i) (ii) (iv) on the real
observations.
"""
import concurrent.futures
import json
import os
import re

import vlib

CFG = {"nv": 4, "powers": [[1, 1, 1, 1], [2, 2, 2, 2]], "maxVal": 2, "nValid": 1, "maxRound": 1,
       "corr": [2], "byz": [1, 3, 4], "h0": 1, "propShift": 0}
SIMS = [("Driver_sim.cfg", 0), ("Driver_sim_np.cfg", 1), ("Driver_sim_r1.cfg", 3)]   # (cfg, PropShift)
# long-lived process: 255 heights decided before the behaviour starts (walstore cleanup inside it)
LONG = ("Driver_sim_long.cfg", dict(CFG, h0=256, propShift=3, powers=[[2, 2, 2, 2], [1, 1, 1, 1]]))
H6_KEY = "driver-replay:proposer-revalue"
ENGINE = "driver"
H6 = ("NoConflictProposal", "NoConflictSent", "RecoveredState")


class _Later:
    """Broken machinery in one section must not hide a divergence another section observed on the real code:
    the first Broken is remembered and raised only if the run ends without any VIOLATION (audit 5d)."""
    err = None

    def __enter__(self):
        return self

    def __exit__(self, t, e, tb):
        if t is not None and issubclass(t, vlib.Broken):
            if self.err is None:
                self.err = e
            vlib.log("deferred until the verdict: %s" % str(e).splitlines()[0])
            return True
        return False


def _retrying(fn, *a, **kw):
    """One retry when TLC ended without any verdict (JVM killed from outside, transient I/O): such a failure
    says nothing about the specification or the code."""
    try:
        return fn(*a, **kw)
    except vlib.Broken as e:
        if not any(t in str(e) for t in ("TLC failed on", "TLC simulate failed", "produced no behaviours")):
            raise
        vlib.log("TLC ended without a verdict, retrying once: %s" % str(e).splitlines()[0])
        return fn(*a, **kw)


def _trace_retry(ctx, *a, **kw):
    """tlc_trace, repeated once when TLC produced no verdict at all (e.g. the JVM was killed from outside)."""
    ok, res = ctx.tlc_trace(*a, **kw)
    if not ok and not res.get("violated"):
        vlib.log("trace validation produced no verdict, retrying once")
        ctx.tlc_runs.pop()
        ok, res = ctx.tlc_trace(*a, **kw)
    return ok, res


def _selftest(ctx, path):
    """Binding self-test: the same stream with two adjacent effects swapped must be rejected."""
    with open(path) as f:
        lines = f.read().splitlines()[:300]
    for i in range(len(lines) - 1):
        a, b = json.loads(lines[i]), json.loads(lines[i + 1])
        if a.get("e") == "flush" and b.get("e") == "bcast":        # broadcast BEFORE the flush
            lines[i], lines[i + 1] = lines[i + 1], lines[i]
            bad = os.path.join(ctx.scratch, "conc_selftest.ndjson")
            with open(bad, "w") as f:
                f.write("\n".join(lines[:i + 4]) + "\n")
            ok, res = ctx.tlc_trace("consensus", "MCDriverTrace.tla", "Driver_trace.cfg", bad, timeout=600)
            ctx.tlc_runs[-1]["label"] = "selftest(swapped flush/broadcast must be rejected)"
            if ok:
                raise vlib.Broken("binding self-test failed: TLC accepted a stream with a broadcast before its flush")
            ctx.coverage["conc_trace_selftest"] = "swapped flush/bcast at line %d rejected" % (i + 1)
            return
    raise vlib.Broken("binding self-test: no flush;bcast pair in the first 300 trace lines")


def run(ctx):
    binary = ctx.build_engine(ENGINE, stubs=True)
    if ctx.replay:
        with open(ctx.replay) as f:
            rp = json.load(f)
        res = ctx.run_engine(binary, rp["test"], rp["input"])
        ctx.absorb(res, ENGINE, rp["test"])
        return ctx.finish("model_checking", "replay of one recorded behaviour")

    thorough = not ctx.quick()
    later = _Later()
    only = os.environ.get("VERIF_C13_ONLY", "")     # development aid, never set by registered commands
    tier = "thorough" if thorough else "quick"
    # The model the behaviours are generated from follows known_findings.json, never the tree under test:
    # H6 listed `known` -> the faithful model (own proposal not logged); `fixed` / unlisted -> the repaired one.
    h6_known = any(k["status"] == "known" and vlib.key_matches(k["key"], H6_KEY) for k in ctx.known)

    def sim_files(cfg):
        if h6_known:
            return None
        with open(os.path.join(vlib.VERIF, "spec", "consensus", cfg)) as f:
            return {cfg: f.read().replace("LogOwnProposal = FALSE", "LogOwnProposal = TRUE")}

    with later:
      if not only or "tlc" in only:
        r = _retrying(ctx.tlc_check, "consensus", "MCDriver.tla", "Driver_fixed_p_quick.cfg", timeout=2400, coverage=thorough)
        if "coverage" in r:
            vlib.require_actions_covered(r, ignore=("Init",))
        _retrying(ctx.tlc_check, "consensus", "MCDriver.tla", "Driver_faithful_np_quick.cfg", timeout=2400)
        if thorough:
            for cfg in ("Driver_fixed_p_thorough.cfg", "Driver_faithful_np_thorough.cfg", "Driver_fixed_r1_thorough.cfg"):
                _retrying(ctx.tlc_check, "consensus", "MCDriver.tla", cfg, timeout=2400)
        r = _retrying(ctx.tlc_check, "consensus", "MCDriver.tla", "Driver_faithful_p.cfg", timeout=1200, expect_violation=True)
        if r["ok"] or r["violated"] not in H6:
            raise vlib.Broken("the faithful proposer model was expected to exhibit H6 (one of %s), TLC says: %s"
                              % (H6, r["violated"]))
        ctx.coverage["faithful_model_exhibits"] = "H6 via " + str(r["violated"])

    with later:
      if not only or "replay" in only:
        nruns = 6 if thorough else 1
        depth = 200 * (120 if thorough else 45)
        jobs = [(cfg, shift, i) for cfg, shift in SIMS for i in range(nruns)]
        jobs.append((LONG[0], "long", 0))

        def sim(job):
            cfg, shift, i = job
            return shift, _retrying(ctx.tlc_simulate, "consensus", "DriverMBT.tla", cfg, depth=depth,
                                           seed=ctx.seed * 1000 + i, timeout=2400, files=sim_files(cfg))
        by_shift = {shift: [] for _, shift in SIMS}
        by_shift["long"] = []
        par = max(1, min(6, int(os.environ.get("VERIF_TLC_WORKERS", "16")) // 2))
        with concurrent.futures.ThreadPoolExecutor(max_workers=par) as pool:
            for shift, bs in pool.map(sim, jobs):
                by_shift[shift] += bs
        total = 0
        for cfg, shift in SIMS:
            behaviours = by_shift[shift]
            payload = {"cfg": dict(CFG, propShift=shift), "me": 2, "behaviours": behaviours}
            res = ctx.run_engine(binary, "TestDriverReplay", payload, timeout=2400)
            ctx.absorb(res, ENGINE, "TestDriverReplay")
            total += len(behaviours)
            ctx.coverage["inputs_replayed_shift%d" % shift] = res.get("steps", 0)
        # long-lived process (each behaviour pays ~255 scripted heights on the real driver first)
        nlong = 40 if thorough else 6
        payload = {"cfg": LONG[1], "me": 2, "behaviours": by_shift["long"][:nlong]}
        res = ctx.run_engine(binary, "TestDriverReplay", payload, timeout=2400)
        ctx.absorb(res, ENGINE, "TestDriverReplay")
        total += len(payload["behaviours"])
        ctx.coverage["long_lived_behaviours"] = len(payload["behaviours"])
        ctx.coverage["behaviours_generated"] = total

    # ------------------------------------------------------------------ concurrency (code -> spec)
    with later:
      if not only or "conc" in only:
        payload = {"cfg": dict(CFG, propShift=1), "me": 2, "runs": 6 if thorough else 1, "lives": 3,
                   "perLife": 1500 if thorough else 700}
        res = ctx.run_engine(binary, "TestDriverConcurrent", payload, timeout=1500)
        ctx.absorb(res, ENGINE, "TestDriverConcurrent")
        for run in range(payload["runs"]):
            path = res.get("stats", {}).get("conc_trace_%d" % run)
            if res.get("divergences") or not path:
                continue
            if not os.path.exists(path) or os.path.getsize(path) == 0:
                raise vlib.Broken("concurrent engine wrote no trace for run %d" % run)
            ok, tres = _trace_retry(ctx, "consensus", "MCDriverTrace.tla", "Driver_trace.cfg", path, timeout=1500)
            if ok:
                ctx.traces_validated += 1
                ctx.coverage["conc_trace_events"] = ctx.coverage.get("conc_trace_events", 0) + \
                    int(res["stats"].get("conc_trace_lines_%d" % run, 0))
                if run == 0:
                    _selftest(ctx, path)
            elif tres.get("violated") in ("deadlock", "FlushBeforeVisible", "ResumeHeight", "WalSane"):
                ls = re.findall(r"/\\ l = (\d+)", tres["out"])
                l = int(ls[-1]) if ls else 0
                with open(path) as f:
                    lines = f.read().splitlines()
                ev = json.loads(lines[l - 1]) if 0 < l <= len(lines) else {}
                key = "driver-conc:%s:%s/%s" % (tres["violated"], ev.get("e"), (ev.get("a") or {}).get("a"))
                what = ("TLC rejects the effect stream of the real driver under concurrent inputs and real timers at "
                        "line %d (%s): %s" % (l, json.dumps(ev), "it is not what Driver.tla performs there"
                                              if tres["violated"] == "deadlock" else "invariant violated"))
                ctx.report(key, what, {"property": "C13", "engine": ENGINE, "test": "TestDriverConcurrent",
                                       "seed": ctx.seed, "input": dict(payload, onlyRun=run),
                                       "divergence": {"line": l, "event": ev, "context": lines[max(0, l - 6):l + 2]}})
            else:
                raise vlib.Broken("trace validation machinery failed:\n%s" % tres["out"][-3000:])

    # a `known` finding that did not show up is only worth a note
    if h6_known and (not only or "replay" in only) and not any(h["key"] == H6_KEY for h in ctx.known_hits):
        print("NOTE: property=C13 known finding %s did not reproduce in this run" % H6_KEY, flush=True)

    if not ctx.violations and not only:
        # the durable log C13 recovers from is the real walstore: what it keeps and what its prune cleanup may
        # remove (256 commits in one process life, heights spread over several logs) is decided by Wal.tla
        ctx.include("C14", accept=lambda k: k.startswith(("wal-recover", "wal-restart", "crash:")),
                    why="C13's recovery reads the real walstore: inputs durably recorded must come back after a crash (Wal.tla)")
    ctx.assumptions += [
        "a crash stops the process between two calls into its environment (WAL store, broadcasters, commit "
        "listener, timeout function); crashes INSIDE walstore.Flush and torn log tails are property C14's subject",
        "walstore.Flush makes the whole buffered batch durable (fsync honoured)",
        "the node restarts at (height of the last block whose commit callback completed) + 1, as consensus.Init does",
        "Application.Value() returns a new value on every call (the block builder does); Application.Valid is deterministic",
        "FFI stubs: consensus/driver links the vm package; the driver never calls it (a call would abort)",
        "no quorum of future-height precommits is delivered (TriggerSync / block fetcher are outside this property)",
    ]
    rc = ctx.finish(
        "model_checking",
        "TLC exhaustive on Driver.tla (4 validators, one round, <= 4-5 inputs, a crash before/after every effect, "
        "<= 2 crashes) for the repaired design in the proposer role and the code as it is in the non-proposer role; "
        "conformance: TLC-simulated behaviours of the faithful model (2 rounds, 2 heights, proposer and non-proposer "
        "schedules, <= 3 crashes each at random effect indices incl. during replay) replayed on the real driver + "
        "real state machine + real WAL store comparing every effect, the durable log after each crash and the "
        "machine state; a behaviour is non-trivial when it contains at least one broadcast (all do); crashes per "
        "effect kind are counted in crash_before_*")
    if later.err is not None and rc == 0:
        raise later.err
    return rc

"""C13 — crash recovery of the consensus driver from its WAL (spec/consensus/Driver.tla).

TLC (exhaustive, every crash point between two effects, up to 2 crashes):
  * repaired design (LogOwnProposal = TRUE), proposer role: NoConflictSent, NoConflictProposal,
    FlushBeforeVisible, RecoveredState, ResumeHeight hold;
  * the code as it is (LogOwnProposal = FALSE), non-proposer role: the same properties hold;
  * the code as it is, proposer role: TLC itself finds DESIGN.md H6 (a second, different proposal for
    the same (height, round) after recovery) — expected, recorded in the evidence.
Binding: behaviours simulated by TLC from the FAITHFUL model (inputs, every effect, crashes at random
effect indices, recoveries) are replayed on the REAL driver.New(...) with the real tendermint state
machine and the real walstore on scratch directories; all environment objects are gates/recorders;
crash = park the driver inside the next effect, copy the WAL directory, new driver + new machine on
the copy.  Compared: order and content of every effect, the durable log loaded after each crash, the
machine state after every completed input and after recovery; monitors (i) (ii) (iv) on the real
observations.
"""
import concurrent.futures
import json
import os

import vlib

CFG = {"nv": 4, "powers": [[1, 1, 1, 1], [2, 2, 2, 2]], "maxVal": 2, "nValid": 1, "maxRound": 1,
       "corr": [2], "byz": [1, 3, 4], "h0": 1, "propShift": 0}
SIMS = [("Driver_sim.cfg", 0), ("Driver_sim_np.cfg", 1), ("Driver_sim_r1.cfg", 3)]   # (cfg, PropShift)
ENGINE = "driver"
H6 = ("NoConflictProposal", "NoConflictSent", "RecoveredState")


def run(ctx):
    binary = ctx.build_engine(ENGINE, stubs=True)
    if ctx.replay:
        with open(ctx.replay) as f:
            rp = json.load(f)
        res = ctx.run_engine(binary, rp["test"], rp["input"])
        ctx.absorb(res, ENGINE, rp["test"])
        return ctx.finish("model_checking", "replay of one recorded behaviour")

    thorough = not ctx.quick()
    only = os.environ.get("VERIF_C13_ONLY", "")     # development aid, never set by registered commands
    tier = "thorough" if thorough else "quick"

    if not only or "tlc" in only:
        r = ctx.tlc_check("consensus", "MCDriver.tla", "Driver_fixed_p_%s.cfg" % tier, timeout=2400, coverage=thorough)
        if "coverage" in r:
            vlib.require_actions_covered(r, ignore=("Init",))
        ctx.tlc_check("consensus", "MCDriver.tla", "Driver_faithful_np_%s.cfg" % tier, timeout=2400)
        if thorough:
            ctx.tlc_check("consensus", "MCDriver.tla", "Driver_fixed_r1_thorough.cfg", timeout=2400)
        r = ctx.tlc_check("consensus", "MCDriver.tla", "Driver_faithful_p.cfg", timeout=1200, expect_violation=True)
        if r["ok"] or r["violated"] not in H6:
            raise vlib.Broken("the faithful proposer model was expected to exhibit H6 (one of %s), TLC says: %s"
                              % (H6, r["violated"]))
        ctx.coverage["faithful_model_exhibits"] = "H6 via " + str(r["violated"])

    if not only or "replay" in only:
        nruns = 6 if thorough else 1
        depth = 200 * (120 if thorough else 45)
        jobs = [(cfg, shift, i) for cfg, shift in SIMS for i in range(nruns)]

        def sim(job):
            cfg, shift, i = job
            return shift, ctx.tlc_simulate("consensus", "DriverMBT.tla", cfg, depth=depth,
                                           seed=ctx.seed * 1000 + i, timeout=2400)
        by_shift = {shift: [] for _, shift in SIMS}
        par = max(1, min(6, int(os.environ.get("VERIF_TLC_WORKERS", "16")) // 2))
        with concurrent.futures.ThreadPoolExecutor(max_workers=par) as pool:
            for shift, bs in pool.map(sim, jobs):
                by_shift[shift] += bs
        total = 0
        for cfg, shift in SIMS:
            behaviours = by_shift[shift]
            payload = {"cfg": dict(CFG, propShift=shift), "me": 2, "behaviours": behaviours}
            res = ctx.run_engine(binary, "TestDriverReplay", payload, timeout=2400)
            ctx.absorb(res, ENGINE, "TestDriverReplay")
            total += len(behaviours)
            ctx.coverage["inputs_replayed_shift%d" % shift] = res.get("steps", 0)
        ctx.coverage["behaviours_generated"] = total

    ctx.assumptions += [
        "a crash stops the process between two calls into its environment (WAL store, broadcasters, commit "
        "listener, timeout function); crashes INSIDE walstore.Flush and torn log tails are property C14's subject",
        "walstore.Flush makes the whole buffered batch durable (fsync honoured)",
        "the node restarts at (height of the last block whose commit callback completed) + 1, as consensus.Init does",
        "Application.Value() returns a new value on every call (the block builder does); Application.Valid is deterministic",
        "FFI stubs: consensus/driver links the vm package; the driver never calls it (a call would abort)",
        "no quorum of future-height precommits is delivered (TriggerSync / block fetcher are outside this property)",
    ]
    return ctx.finish(
        "model_checking",
        "TLC exhaustive on Driver.tla (4 validators, one round, <= 4-5 inputs, a crash before/after every effect, "
        "<= 2 crashes) for the repaired design in the proposer role and the code as it is in the non-proposer role; "
        "conformance: TLC-simulated behaviours of the faithful model (2 rounds, 2 heights, proposer and non-proposer "
        "schedules, <= 3 crashes each at random effect indices incl. during replay) replayed on the real driver + "
        "real state machine + real WAL store comparing every effect, the durable log after each crash and the "
        "machine state; a behaviour is non-trivial when it contains at least one broadcast (all do); crashes per "
        "effect kind are counted in crash_before_*")

"""Verdict hygiene shared by the trie-family checks (C01, C10).

- safe_engine: a hang / crash of an engine run must not turn an already recorded divergence into
  "broken": the engines flush their result file after every divergence, so a timed-out run's
  divergences are still absorbed; a Broken is re-raised only if no violation exists anywhere.
- Guards (vacuity / volume) are collected and evaluated AFTER every divergence was absorbed and only
  when there is no violation to report.
- Known findings that were not observed in this run are printed as NOTE lines.
"""
import glob
import json
import os

import vlib


class Guards:
    def __init__(self):
        self.failed = []

    def require(self, cond, msg):
        if not cond:
            self.failed.append(msg)


def safe_engine(ctx, binary, test, payload, engine, guards, timeout=3000, env_extra=None):
    before = set(glob.glob(os.path.join(ctx.scratch, "out.*.json")))
    try:
        res = ctx.run_engine(binary, test, payload, timeout=timeout, env_extra=env_extra)
    except vlib.Broken as e:
        # the engine hung or died: salvage what it flushed before
        res = None
        for f in sorted(set(glob.glob(os.path.join(ctx.scratch, "out.*.json"))) - before):
            try:
                with open(f) as fh:
                    res = json.load(fh)
            except Exception:
                res = None
        if res and res.get("divergences"):
            vlib.log("engine %s %s did not finish (%s); absorbing the divergences it recorded before" % (engine, test, str(e)[:120]))
            ctx.absorb(res, engine, test)
            return res
        if ctx.violations:
            vlib.log("engine %s %s did not finish (%s) after a recorded violation" % (engine, test, str(e)[:120]))
            return {"replayed": 0, "steps": 0, "stats": {}, "divergences": []}
        guards.failed.append("engine %s %s: %s" % (engine, test, str(e)[:400]))
        return {"replayed": 0, "steps": 0, "stats": {}, "divergences": []}
    ctx.absorb(res, engine, test)
    return res


def safe_sim(ctx, guards, *a, **kw):
    """tlc_simulate that cannot mask a recorded violation."""
    try:
        return ctx.tlc_simulate(*a, **kw)
    except vlib.Broken as e:
        guards.failed.append(str(e)[:800])
        return []


def known_status(ctx, key):
    """'known' if a listed known finding of this property matches key, else None (fixed/unlisted => repaired model)."""
    for k in ctx.known:
        if k.get("status") == "known" and vlib.key_matches(k["key"], key):
            return "known"
    return None


def finish(ctx, guards, level, rule):
    hit = set(h["key"] for h in ctx.known_hits)
    for k in ctx.known:
        if k.get("status") == "known" and k["key"] not in hit:
            print("NOTE: property=%s known finding %s was not observed in this run" % (ctx.prop, k["key"]), flush=True)
    rc = ctx.finish(level, rule)
    if rc == 0 and guards.failed:
        raise vlib.Broken("; ".join(guards.failed))
    for g in guards.failed:
        vlib.log("guard failed (not reported as broken because a violation is reported): " + g)
    return rc

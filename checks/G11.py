"""G11 (specification growth, not a listed property) — consensus proposal streaming, receiving side:
consensus/p2p/validator/{proposal_stream_demux.go, proposal_stream.go, state_machine.go, transition.go}
and the sending side consensus/p2p/proposer/proposer_dispatcher.go.  Spec family spec/proposal
(ProposalStream.tla, MCProposalStream.tla, ProposalStreamMBT.tla), engine harness/engines/proposal.
Run with ./check G11. Not registered in MANIFEST.json; evidence is written to evidence/G11.json.

What the check does:
  1. exhaustive TLC on ProposalStream.tla: the repaired design (FixNilState, FixBlock, FixReFin,
     SeqWindow) must satisfy every property (one stream against the whole script catalogue with
     duplicates over three heights; two streams: an honest one beside grammar violations, tricks,
     floods, another honest one; liveness under fairness); the code as it is must satisfy what the
     defects do not touch; every property has an expected-violation run (three defects, the
     unbounded buffer, two leaks, two limits of the repair, six mutants);
  2. directed scripts reproduce each defect on the REAL demux with the shortest history and measure
     what it costs (an honest stream and a commit afterwards): keys
     proposal-stream:demux-panic:nil-state-machine, proposal-stream:demux-blocked:<variant>,
     proposal-stream:proposal-delivered-twice:second-fin; the stated design limits are printed as
     OBSERVATION lines;
  3. TLC-simulated behaviours (three streams with scripts drawn from the honest, grammar, trick and
     flood sets; any delivery order, duplicates; commits; the driver reading) are stepped through the
     real NewProposalStreamDemux(...).Loop on a real pubsub topic inside testing/synctest bubbles:
     honest scripts are produced by the REAL proposal broadcaster / dispatcher (and compared part by
     part with the script), the others are crafted on the wire; re-execution is the real builder over
     a scripted executor (Finish = the real Blockchain.Simulate). Compared before every act: current
     height, demux ok / parked in enqueueMessage / dead, number of running loops, per stream:
     existence, started, state-machine state, next sequence number, buffered numbers, input channel
     length, registration height, header height; and the exact Proposals the driver has read.

The model in force follows the directed scripts: a defect that reproduces on this tree is REPORTED
(VIOLATION, or KNOWN-FINDING when listed in known_findings.json) and modelled as coded for the
replay; a defect that does not reproduce is modelled repaired — so a tree with the fix, a tree
without it and a tree that re-introduces it are each judged against the right design.
VERIF_G11_ONLY=tlc,probes,replay restricts a run; VERIF_G11_ASSUME_KNOWN=<keys> treats keys as listed
(development aids)."""
import copy
import json
import os
import re
from concurrent.futures import ThreadPoolExecutor

import vlib

FAM = "proposal"
MC = "MCProposalStream.tla"
K_NIL = "proposal-stream:demux-panic:nil-state-machine"
K_BLOCK = "proposal-stream:demux-blocked:"
K_REFIN = "proposal-stream:proposal-delivered-twice:second-fin"

# (cfg, what) — must hold
HOLD_QUICK = [
    ("PS_one_quick.cfg", "repaired: one stream, 13 scripts of every class, duplicates, three heights"),
    ("PS_q1.cfg", "repaired: an honest future-height stream beside a grammar violation"),
    ("PS_q2.cfg", "repaired: an honest stream beside a hijacked number 0 / floods"),
    ("PS_live_q.cfg", "repaired: liveness under fairness beside a flood and an early Fin"),
    ("PS_ascoded_q.cfg", "as coded: what holds in spite of the defects"),
]
HOLD_THOROUGH = [   # largest first
    ("PS_ascoded_flood.cfg", "as coded: two streams, floods, duplicates"), ("PS_trick1.cfg", "repaired: two streams, hijacks"),
    ("PS_one.cfg", "repaired: one stream, the whole catalogue, duplicates, three heights"),
    ("PS_trick2.cfg", "repaired: two streams, second Fin / equivocation"), ("PS_ascoded_trick.cfg", "as coded: two streams, hijacks"),
    ("PS_gram2.cfg", "repaired: two streams, grammar 2"), ("PS_hon.cfg", "repaired: two honest streams"),
    ("PS_out0.cfg", "repaired: unbuffered outputs channel"), ("PS_gram1.cfg", "repaired: two streams, grammar 1"),
    ("PS_trick3.cfg", "repaired: second Fin / equivocation beside a future-height stream"), ("PS_gram3.cfg", "repaired: two streams, grammar 3"),
    ("PS_flood.cfg", "repaired: two streams, floods"), ("PS_ascoded_one.cfg", "as coded: one stream, the whole catalogue"),
    ("PS_ascoded_out0.cfg", "as coded: unbuffered outputs channel"),
    ("PS_live1.cfg", "repaired: liveness under fairness beside grammar violations"), ("PS_live4.cfg", "repaired: liveness beside floods"),
    ("PS_live2.cfg", "repaired: liveness beside a hijacked number 0"), ("PS_live3.cfg", "repaired: liveness beside a second Fin"),
    ("PS_live5.cfg", "repaired: liveness beside floods of a past and a future height"),
]
# cfg -> (property that must fail, what it shows, in the quick tier)
EXPECT = [
    ("PS_x_nilstate.cfg", "DemuxNeverStops", "as coded: a second number 0 on a stream whose first one failed panics the demux", True),
    ("PS_x_block.cfg", "DemuxNeverStops", "as coded: a stream nobody reads blocks the demux for ever", True),
    ("PS_x_block_live.cfg", "temporal", "as coded: ... and the honest stream beside it is never delivered", True),
    ("PS_x_block_future.cfg", "DemuxNeverStops", "as coded: a future-height stream fills its input, its commit is never handled", True),
    ("PS_x_refin.cfg", "AtMostOneProposalPerStream", "as coded: a second stream Fin hands the Proposal out twice", True),
    ("PS_x_buffer.cfg", "BufferBounded", "as coded: the out-of-order buffer has no bound", True),
    ("PS_x_leak.cfg", "NoLeak", "design: a stream of a height already left is kept for ever", True),
    ("PS_x_leak_unstarted.cfg", "NoLeakStrict", "design: a stream that never gets its number 0 is kept for ever", True),
    ("PS_x_dropfull.cfg", "temporal", "limit of the repair: a full input drops parts of an honest future-height stream", False),
    ("PS_x_window.cfg", "temporal", "limit of the repair: a window below the stream length loses an honest stream", False),
    ("PS_x_nocommitcheck.cfg", "BadStreamNeverDelivers", "mutant: the commitment is not compared", True),
    ("PS_x_nofincheck.cfg", "BadStreamNeverDelivers", "mutant: the proposal fin is not compared", True),
    ("PS_x_noorder.cfg", "temporal", "mutant: parts are processed in arrival order", False),
    ("PS_x_restart.cfg", "AtMostOneProposalPerStream", "mutant: a second number 0 restarts the stream", True),
    ("PS_x_keeponcommit.cfg", "RunsAtOwnHeight", "mutant: a commit does not stop the streams of the old height", True),
    ("PS_x_startearly.cfg", "FutureWaits", "mutant: a stream of a future height runs at once", True),
]
# actions that cannot fire in a configuration by construction
COVER_IGNORE = {"PS_one_quick.cfg": ("Init", "Unblock", "DriverTakeFrom", "SendDone"), "PS_ascoded_q.cfg": ("Init", "DriverTakeFrom"),
                "PS_out0.cfg": ("Init", "Unblock", "SendDone", "DriverTake")}


def tlc_phase(ctx):
    q = ctx.quick()
    hold = HOLD_QUICK if q else HOLD_THOROUGH + HOLD_QUICK
    jobs = [(c, w, None) for c, w in hold] + [(c, "expected violation of %s (%s)" % (p, w), p) for c, p, w, inq in EXPECT if inq or not q]
    par = 2    # not more: every TLC may grow to its whole heap and the machine is shared
    workers = max(2, int(os.environ.get("VERIF_TLC_WORKERS", "16")) // par)

    def one(job):
        cfg, label, expect = job
        for attempt in (1, 2):
            try:
                return job, ctx.tlc_check(FAM, MC, cfg, workers=workers if expect is None else 2, timeout=3000,
                                          label=label + " [" + cfg + "]", expect_violation=expect is not None,
                                          coverage=(not q and cfg in COVER_IGNORE))
            except vlib.Broken as e:
                # a TLC that died without a result (killed by the kernel's OOM killer on the shared machine) is run once more
                if attempt == 2 or not str(e).startswith("TLC failed on"):
                    raise
                vlib.log("TLC on %s died without a result, once more: %s" % (cfg, str(e).splitlines()[-1][:200] if str(e) else ""))

    # the largest configuration has 14 M distinct states: a 5 GB heap is ample, and two JVMs that may each
    # grow to the default 12 GB get killed by the kernel on the shared machine
    heap = os.environ.get("VERIF_TLC_HEAP")
    if heap is None:
        os.environ["VERIF_TLC_HEAP"] = "5g"
    try:
        with ThreadPoolExecutor(max_workers=par) as ex:
            results = list(ex.map(one, jobs))
    finally:
        if heap is None:
            os.environ.pop("VERIF_TLC_HEAP", None)
    n = 0
    for (cfg, label, expect), r in results:
        if expect is None:
            if "coverage" in r:
                vlib.require_actions_covered(r, ignore=COVER_IGNORE[cfg])
            continue
        if r["ok"] or r["violated"] != expect:
            raise vlib.Broken("expected-violation run %s: expected %s, got ok=%s violated=%s — the model changed" % (cfg, expect, r["ok"], r["violated"]))
        n += 1
    ctx.coverage["expected_violations_confirmed"] = n


def cfg_with(base, **over):
    src = open(os.path.join(vlib.VERIF, "spec", FAM, base)).read()
    for k, v in over.items():
        src, n = re.subn(r"\b%s = \S+" % k, "%s = %s" % (k, v), src)
        if n != 1:
            raise vlib.Broken("cfg rewrite: %s not found once in %s" % (k, base))
    return src


def tla_bool(b):
    return "TRUE" if b else "FALSE"


def known(ctx, key):
    return any(k.get("status") == "known" and vlib.key_matches(k["key"], key) for k in ctx.known)


def probes(ctx, binary):
    """Directed scripts on the real demux. Returns the defect switches of the model in force."""
    res = ctx.run_engine(binary, "TestProposalProbes", {"probes": [], "input_cap": 4}, timeout=900)
    ctx.absorb(res, FAM, "TestProposalProbes")
    keys = {d["key"] for d in res.get("divergences") or []}
    obs = (res.get("stats") or {}).get("observations", {})
    for k, v in sorted(obs.items()):
        if k.startswith("limit:"):
            print("OBSERVATION: property=G11 (stated design limit, not a verdict) %s: %s" % (k[6:], v), flush=True)
    sw = dict(FixNilState=K_NIL not in keys, FixBlock=not any(k.startswith(K_BLOCK) for k in keys), FixReFin=K_REFIN not in keys)
    for key, name in ((K_NIL, "FixNilState"), (K_BLOCK + "unstarted-stream", "FixBlock"), (K_REFIN, "FixReFin")):
        if sw[name] and known(ctx, key):
            print("NOTE: property=G11 known finding [%s] did not reproduce on this tree" % key, flush=True)
    blocked = sorted(k[len(K_BLOCK):] for k in keys if k.startswith(K_BLOCK))
    if blocked and len(blocked) != 4:
        print("NOTE: property=G11 only %s of the four blocking variants reproduce on this tree" % blocked, flush=True)
    ctx.coverage["probe_observations"] = {k: str(v)[:300] for k, v in obs.items()}
    return sw


# (InputCap, OutCap, MaxDup, MaxExtra, MaxSteps): OutCap is 0 or larger than anything a behaviour produces
PLANS = [(6, 16, 3, 6, 45), (4, 0, 2, 4, 40), (12, 16, 3, 8, 50), (2, 0, 2, 4, 40), (3, 16, 3, 6, 45), (12, 0, 3, 6, 45)]


def replay(ctx, binary, sw):
    thorough = not ctx.quick()
    model = {k: tla_bool(v) for k, v in sw.items()}
    jobs = []
    for i, (icap, ocap, dup, extra, steps) in enumerate(PLANS):
        runs = (4 if i < 3 else 2) if thorough else (1 if i < 3 else 0)
        for j in range(runs):
            jobs.append((i, j, icap, ocap, dup, extra, steps))

    def one(job):
        i, j, icap, ocap, dup, extra, steps = job
        cfg = cfg_with("PS_sim.cfg", InputCap=icap, OutCap=ocap, MaxDup=dup, MaxExtra=extra, MaxSteps=steps, **model)
        behs = ctx.tlc_simulate(FAM, "ProposalStreamMBT.tla", "gen.cfg", depth=14000 if thorough else 4500,
                                seed=ctx.seed * 1000 + i * 50 + j, files={"gen.cfg": cfg}, timeout=900)
        payload = {"consts": {"InitHeight": 1, "MaxHeight": 3, "InputCap": icap, "OutCap": ocap, "Bad": [3]}, "behaviours": behs}
        return behs, payload, ctx.run_engine(binary, "TestProposalReplay", payload, timeout=2400)

    with ThreadPoolExecutor(max_workers=4 if thorough else 3) as ex:
        results = list(ex.map(one, jobs))
    nb, first = 0, None
    for behs, payload, res in results:
        nb += len(behs)
        ctx.absorb(res, FAM, "TestProposalReplay")
        if first is None and not res.get("divergences"):
            first = payload
    ctx.coverage["behaviours_replayed"] = nb
    ctx.coverage["model"] = " ".join("%s=%s" % kv for kv in sorted(model.items()))
    for k in ("proposals_delivered", "dispatched_by_real_proposer", "commit"):
        if not ctx.coverage.get(k):
            raise vlib.Broken("vacuity: the replay never counted %s" % k)
    return first


def selftest(ctx, binary, payload):
    """The binding must reject what is wrong: a behaviour with one falsified expectation diverges."""
    n = 0
    for kind in ("height", "next", "got", "sm"):
        done = False
        for b in payload["behaviours"]:
            bb = copy.deepcopy(b)
            steps = bb["steps"]
            for k in range(len(steps) - 1, 0, -1):
                pre = steps[k]["pre"]
                if kind == "height" and pre["cur"] > 1:
                    pre["cur"] -= 1
                elif kind == "next" and any(v["next"] >= 3 for v in pre["streams"]):
                    [v for v in pre["streams"] if v["next"] >= 3][0]["next"] -= 1
                elif kind == "got" and any(g for g in pre["got"]):
                    [g for g in pre["got"] if g][0].pop()
                elif kind == "sm" and any(v["sm"] == "RecvTxs" for v in pre["streams"]):
                    [v for v in pre["streams"] if v["sm"] == "RecvTxs"][0]["sm"] = "AwaitFin"
                else:
                    continue
                done = True
                break
            if done:
                r = ctx.run_engine(binary, "TestProposalReplay", dict(payload, behaviours=[bb]), timeout=600)
                if not r.get("divergences"):
                    raise vlib.Broken("selftest: the replay binding accepted a falsified expectation (%s)" % kind)
                n += 1
                break
    if n < 3:
        raise vlib.Broken("selftest: only %d falsifications could be applied" % n)
    ctx.coverage["selftest_falsified_expectations_rejected"] = n


def run(ctx):
    binary = ctx.build_engine(FAM, stubs=True)
    if ctx.replay:
        rp = json.load(open(ctx.replay))
        ctx.absorb(ctx.run_engine(binary, rp["test"], rp["input"]), FAM, rp["test"])
        return ctx.finish("model_checking", "replay of one recorded history")
    only = [p for p in os.environ.get("VERIF_G11_ONLY", "").split(",") if p] or ["tlc", "probes", "replay"]
    assume = [k for k in os.environ.get("VERIF_G11_ASSUME_KNOWN", "").split(",") if k]
    if assume:
        print("NOTE: property=G11 DEVELOPMENT RUN: treating %s as listed known findings (VERIF_G11_ASSUME_KNOWN)" % assume, flush=True)
        ctx.known += [{"property": "G11", "key": k, "status": "known", "what": "(assumed for development) " + k} for k in assume]
    pool = ThreadPoolExecutor(max_workers=1)
    tlc_job = pool.submit(tlc_phase, ctx) if "tlc" in only else None
    try:
        try:
            return body(ctx, binary, only, tlc_job)
        except vlib.Broken as e:
            if not ctx.violations:
                raise
            # a divergence was already observed on the real code; a later stage that cannot run on such
            # a tree (an engine that hangs or dies) must not turn the verdict into "broken"
            print("NOTE: property=G11 a later stage could not run (%s); verdict from the divergences already observed" % str(e).splitlines()[0][:300], flush=True)
            return ctx.finish("model_checking", "stopped after the first stages: divergences observed on the real code")
    finally:
        pool.shutdown(wait=True, cancel_futures=True)


def body(ctx, binary, only, tlc_job):
    sw = dict(FixNilState=False, FixBlock=False, FixReFin=False)
    if "probes" in only:
        sw = probes(ctx, binary)
    if "replay" in only:
        first = replay(ctx, binary, sw)
        if first is not None and (not ctx.quick() or os.environ.get("VERIF_G11_SELFTEST")):
            selftest(ctx, binary, first)
    if tlc_job is not None:
        tlc_job.result()
    ctx.assumptions += [
        "re-execution is deterministic per content: the VM is replaced by a scripted builder.Executor (receipts are a function of the "
        "transaction, one designated batch fails); Finish is the real Blockchain.Simulate, commitments and block hashes are the real ones",
        "libp2p-pubsub runs on one in-memory host: the demux, the proposal broadcaster and the dispatcher subscribe and publish for real, "
        "reordering and duplication are the model's delivery order (no sockets, no signature or peer scoring)",
        "commit notifications arrive for the demux's current height in order (p2p.OnCommit); a notification for another height is not modelled",
        "a commit while the demux goroutine is parked in a blocking send is not generated (the select between the message and the commit "
        "channel would be a scheduler's choice); the outputs channel is unbuffered or larger than anything a behaviour produces",
        "unexported state of the demux and its streams is read by reflection, goroutine states from the runtime's stack dump, at quiescence "
        "(synctest.Wait)",
    ]
    return ctx.finish(
        "model_checking",
        "exhaustive TLC on ProposalStream.tla (repaired design: all properties incl. liveness under fairness; as coded: what the defects leave "
        "intact; one expected-violation run per property and mechanism); directed scripts for each defect switch on the real demux; "
        "TLC-simulated behaviours (scripts drawn per stream from honest / grammar / trick / flood sets, in-order and random delivery with "
        "duplicates, commits, driver reads; internal steps have priority so every recorded act starts at rest) replayed on the real demux in "
        "synctest bubbles with full comparison of the projection and of the delivered Proposals before every act; non-trivial = honest "
        "scripts come from the real dispatcher, proposals are delivered, commits happen")

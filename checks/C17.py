"""C17 — the recorded L1 head is always a finalised, still-canonical L1 state commit
(spec/l1/L1.tla, spec/l1/L1Trace.tla).

TLC: exhaustive check of L1.tla (scripted well-behaved L1 node || l1.Client as written) for the
invariants StoredFinalisedCanonical / BufferSane / ChainSane and the action properties
SetHeadExact (every setL1Head leaves exactly the best merged, not removed event at or below the
reported finalised height), OnlySetHeadWrites, Monotone, RestartIsNoOp (Restart = a new client on
the same database); plus the same model WITHOUT the timing
assumption FinalityAfterNotices as an expected violation (documented observation).

Storage faults: the Put of the L1-head record may fail (MaxWriteFail). The property is read
conditionally - a client that is still running after a completed setL1Head has the best merged
finalised event recorded (RunningImpliesRecorded); a failed write may stop the client
(StopOnlyOnWriteFailure, then Restart re-scans), never leave it running on a stale record; what the
L1-head feed announced is what is recorded (AnnouncedIsRecorded). Three expected-violation models:
L1_x_swallow (tick path logs the error and goes on), L1_x_catchupwrite (Run treats the write error
at the end of catch-up like a failed log query: the code before its repair, finding
`l1:head-write-failed:running-with-stale-record:catchup`), L1_x_announce (feed before write).
The recorded runs use the shared fault-injecting store under the real Blockchain; the trace model
follows the status of that finding in known_findings.json ("known": the code as it was; fixed or
not listed: the repaired design).

The accessor: the property is about the head the node REPORTS (Blockchain.L1Head(), what rpc / metrics
use), so L1.tla has the accessor as an observable of its own: reads with a start and an end that may
overlap the client's SetL1Head, a restart building a new Blockchain on the record on disk
(ReportedIsRecorded, ReadsMonotone, AccessorIsRecord; L1_acc.cfg exhaustive). Expected violation:
L1_x_cache (an in-memory copy filled by readers check-then-act). Error kinds: a failing answer of the L1
node is a transport error, a timeout, eth.ErrNotFound or context.Canceled; every failing FinalisedHeight
answer inside setL1Head is retried and changes nothing (FailedFinIsRetried), the head moves only at an
answer that reported a finalised height and not above it (HeadWithinReported). Expected violations:
L1_x_notfound / L1_x_notfound2 (a not-found answer replaced by LatestHeight).

Binding: trace validation. The engine runs the REAL l1.Client against (mode 1) a gated scripted
L1StateProvider and (mode 2) the REAL GethL1StateProvider connected by websocket to an in-process
go-ethereum rpc.Server that serves the same scripted node (gates in the rpc handlers), and a real
Blockchain, records one event per spec action, and TLC decides whether
the concatenated runs are behaviours of L1.tla (silent Consume steps, pinned by the observed
channel length). A direct monitor evaluates the property on every run as well.
"""
import json
import os
import re
import vlib

FAMILY = "l1"
CLIENT_EVENTS = ("CallChainID", "CallLatest", "CallFilter", "CallFin", "CallWatch", "NewHead", "Read",
                 "Feed", "WriteFail", "Stopped", "ReadStart", "ReadEnd")
CATCHUP_WRITE_KEY = "l1:head-write-failed:running-with-stale-record:catchup"


def trace_cfg(ctx):
    """The trace model describes the code as it is: Run swallowing a failed head write at the end of catch-up is
    modelled only while that finding is listed as known; fixed / not listed means the repaired design."""
    known = any(k.get("status") == "known" and vlib.key_matches(k["key"], CATCHUP_WRITE_KEY) for k in ctx.known)
    return "L1Trace_faithful.cfg" if known else "L1Trace.cfg"


def split_runs(events):
    runs, cur = [], None
    for e in events:
        if e["ev"] == "Reset":
            cur = []
            runs.append(cur)
        if cur is None:
            raise vlib.Broken("trace does not start with a Reset event")
        cur.append(e)
    return runs


def validate(ctx, events, label):
    """TLC trace validation of a list of events. Returns (accepted_runs, rejected) where rejected is
    a list of (run_events, line_index_in_run, event)."""
    runs = split_runs(events)
    rejected = []
    accepted = 0
    todo = runs
    for _ in range(6):
        if not todo:
            break
        path = os.path.join(ctx.scratch, "trace.%s.ndjson" % label)
        with open(path, "w") as f:
            for r in todo:
                for e in r:
                    e.setdefault("w", 0)   # runs recorded before the write-fault dimension existed
                    e.setdefault("k", "" if e.get("x") == 1 or not e["ev"].startswith("Ret") else "transport")  # ... before error kinds
                    f.write(json.dumps(e) + "\n")
        ok, res = ctx.tlc_trace(FAMILY, "L1Trace.tla", trace_cfg(ctx), path, timeout=1800)
        if ok:
            accepted += len(todo)
            break
        m = re.search(r"TRACE-REJECTED-AT\D+(\d+)", res["out"])
        if res.get("violated") not in (None, "postcondition") and not m:
            raise vlib.Broken("TLC reports %s while validating recorded runs — a model-level problem, not a verdict:\n%s" % (
                res["violated"], "\n".join(res["out"].splitlines()[-30:])))
        if not m:
            raise vlib.Broken("TLC trace validation failed without a rejection point:\n" + "\n".join(res["out"].splitlines()[-30:]))
        line = int(m.group(1))  # 1-based index of the first line no behaviour of the spec matches
        n = 0
        for i, r in enumerate(todo):
            if line <= n + len(r):
                rejected.append((r, line - n - 1, r[line - n - 1]))
                accepted += i
                todo = todo[i + 1:]
                break
            n += len(r)
        else:
            raise vlib.Broken("rejection point %d beyond the trace" % line)
    return accepted, rejected


def report_rejections(ctx, rejected):
    for run, i, ev in rejected:
        if ev["ev"] not in CLIENT_EVENTS:
            raise vlib.Broken("recorded run rejected at a harness-generated event %s (line %d of the run): the scripted "
                              "node and the specification disagree — harness problem, not a verdict: %s" % (ev, i + 1, run[max(0, i - 8):i + 1]))
        key = "l1:trace-rejected:%s" % ev["ev"]
        what = ("no behaviour of L1.tla matches the recorded run of the real client at event %d %s (x=%s q=%s); preceding events: %s"
                % (i + 1, ev["ev"], ev.get("x"), ev.get("q"), [(e["ev"], e["x"], e["y"]) for e in run[max(0, i - 10):i]]))
        ctx.report(key, what, {"property": ctx.prop, "engine": "l1", "test": "trace", "seed": ctx.seed,
                               "input": {"trace": run}, "divergence": {"key": key, "what": what, "step": i + 1}})


def run(ctx):
    binary = ctx.build_engine("l1")
    if ctx.replay:
        with open(ctx.replay) as f:
            rp = json.load(f)
        if rp.get("test") == "trace":
            acc, rej = validate(ctx, rp["input"]["trace"], "replay")
            ctx.traces_validated += acc
            report_rejections(ctx, rej)
        else:
            inp = dict(rp["input"])
            inp["trace_out"] = "l1replay.ndjson"
            res = ctx.run_engine(binary, rp["test"], inp)
            ctx.absorb(res, "l1", rp["test"])
            with open(os.path.join(ctx.scratch, "l1replay.ndjson")) as f:
                events = [json.loads(x) for x in f if x.strip()]
            if events:
                acc, rej = validate(ctx, events, "replay")
                ctx.traces_validated += acc
                report_rejections(ctx, rej)
        return ctx.finish("model_checking", "replay of one recorded run")

    thorough = not ctx.quick()
    r = ctx.tlc_check(FAMILY, "L1.tla", "L1_quick.cfg", timeout=1500, coverage=thorough,
                      label="L1: 3 blocks, 3 events, 1 reorg, 1 failure, 1 write failure, 1 restart, chunk {1,2,10}")
    if thorough:
        vlib.require_actions_covered(r, ignore=("ReadStart", "ReadEnd"))   # the accessor dimension: L1_acc.cfg
        ctx.tlc_check(FAMILY, "L1.tla", "L1_thorough.cfg", timeout=3000,
                      label="L1: 4 blocks, 3 events, 1 reorg, 1 failure, 1 write failure, 1 restart, chunk {1,2,10}")
        ctx.tlc_check(FAMILY, "L1.tla", "L1_thorough2.cfg", timeout=3000,
                      label="L1: 3 blocks, 3 events, 2 reorgs, 2 failures, 1 write failure, no restart, chunk {1,2,10}")
        s_ = ctx.tlc_check(FAMILY, "L1.tla", "L1_x_stop.cfg", timeout=600, expect_violation=True,
                           label="L1 reachability: a failed write of the head stops the client (expected violation of NeverStopped)")
        if s_["violated"] != "NeverStopped":
            raise vlib.Broken("vacuity: the stop after a failed write is not reachable (%s)" % s_["violated"])
        ctx.tlc_runs[-1]["expected_violation"] = "NeverStopped (reachability)"
    # the accessor dimension: reads (start .. end) overlapping SetL1Head, restart with a record on disk
    a_ = ctx.tlc_check(FAMILY, "L1.tla", "L1_acc.cfg", timeout=1500, coverage=thorough,
                       label="L1 accessor: 3 reads overlapping the client, 3 blocks, 2 events, 1 write failure, 1 restart, chunk {2,10}")
    if thorough:
        vlib.require_actions_covered(a_, ignore=("AReorg", "ASubFail", "AHandleSubErr"))
        ctx.tlc_check(FAMILY, "L1.tla", "L1_acc2.cfg", timeout=3000,
                      label="L1 accessor: 2 reads overlapping the client, 3 blocks, 3 events, 1 reorg, 1 write failure, 1 restart, chunk {2,10}")
    o_ = ctx.tlc_check(FAMILY, "L1.tla", "L1_x_overlap.cfg", timeout=600, expect_violation=True,
                       label="L1 reachability: a read overlapping a SetL1Head (expected violation of NoOverlap)")
    if o_["violated"] != "NoOverlap":
        raise vlib.Broken("vacuity: no read overlaps a SetL1Head in the model (%s)" % o_["violated"])
    ctx.tlc_runs[-1]["expected_violation"] = "NoOverlap (reachability)"
    # the mechanisms that can fail, each as a model that MUST violate its property
    for cfg, prop, label in (
            ("L1_x_cache.cfg", "ReportedIsRecorded", "Blockchain.L1Head() served from an in-memory copy that readers fill check-then-act"),
            ("L1_x_notfound.cfg", "HeadWithinReported", "a not-found answer of FinalisedHeight inside setL1Head replaced by LatestHeight"),
            ("L1_x_notfound2.cfg", "StoredFinalisedCanonical", "the same: the record ends above the finalised height / on a removed commit"),
            ("L1_x_swallow.cfg", "RunningImpliesRecorded", "tick path swallows a failed write of the head"),
            ("L1_x_catchupwrite.cfg", "RunningImpliesRecorded", "Run treats a failed write at the end of catch-up as best effort (code before repair)"),
            ("L1_x_announce.cfg", "AnnouncedIsRecorded", "head announced on the feed before it is written")):
        x = ctx.tlc_check(FAMILY, "L1.tla", cfg, timeout=600, expect_violation=True,
                          label="L1 mutant model: %s (expected violation)" % label)
        if x["violated"] != prop:
            raise vlib.Broken("%s no longer violates %s (%s)" % (cfg, prop, x["violated"]))
        ctx.tlc_runs[-1]["expected_violation"] = prop
    h = ctx.tlc_check(FAMILY, "L1.tla", "L1_lag.cfg", timeout=600, expect_violation=True,
                      label="L1 without the timing assumption FinalityAfterNotices (expected violation)")
    if h["violated"] != "StoredFinalisedCanonical":
        raise vlib.Broken("L1_lag.cfg no longer exhibits the documented schedule (%s)" % h["violated"])
    ctx.tlc_runs[-1]["expected_violation"] = "StoredFinalisedCanonical"

    # ---- directed scenarios (both recorder modes): every error kind of FinalisedHeight while non-finalised commits are
    # buffered, then a reorg of the non-finalised block; restart with a head on disk and the first read of the accessor
    # held in its database Get across the client's SetL1Head; the client held in front of its Put while a read runs
    devents = []
    for geth in (False, True):
        tname = "l1directed%d.ndjson" % geth
        dres = ctx.run_engine(binary, "TestL1Directed", {"seed": ctx.seed, "geth": geth, "trace_out": tname}, timeout=900)
        dst = dres.get("stats", {})
        before = len(ctx.violations)
        ctx.absorb(dres, "l1", "TestL1Directed")
        for k, v in dst.items():  # keep the directed counters apart from the recorded runs'
            if isinstance(v, (int, float)):
                ctx.coverage[k] = ctx.coverage.get(k, 0) - v
                if k.startswith("scenario:"):
                    ctx.coverage.pop(k, None)
                ctx.coverage[("directed_geth_" if geth else "directed_") + k] = v
        if len(ctx.violations) == before:
            if dst.get("broken_runs"):
                raise vlib.Broken("directed scenarios hit a harness timeout (geth=%s): %s" % (geth, dres.get("samples")))
            kinds = ("transport", "notfound") if geth else ("transport", "timeout", "notfound", "cancel")
            missing = [k for k in kinds if dst.get("fin_errors_retried_" + k, 0) < 3 or not dst.get("scenario:finalised-height-fails:" + k)]
            if (missing or dst.get("overlapping_reads_across_a_write", 0) < 2 or not dst.get("overlapping_reads_after_restart_with_head")
                    or not dst.get("reads_before_a_held_put")):
                raise vlib.Broken("directed scenarios are vacuous (geth=%s, missing kinds %s): %s" % (geth, missing, dst))
        with open(os.path.join(ctx.scratch, tname)) as f:
            devents += [json.loads(x) for x in f if x.strip()]
    dacc, drej = validate(ctx, devents, "directed")
    ctx.traces_validated += dacc
    report_rejections(ctx, drej)
    ctx.coverage["directed_runs_accepted_by_tlc"] = dacc

    ntr = 3000 if thorough else 400
    res = ctx.run_engine(binary, "TestL1Record", {"traces": ntr, "seed": ctx.seed, "rounds": 30,
                                                 "trace_out": "l1trace.ndjson"}, timeout=2400)
    st = res.get("stats", {})
    # divergences first: a hang / timeout of the real code AFTER a recorded violation reports the violation
    ctx.absorb(res, "l1", "TestL1Record")
    if st.get("broken_runs") and not ctx.violations:
        raise vlib.Broken("%s recorded runs hit a harness timeout / quiescence failure: %s" % (st["broken_runs"], res.get("samples")))
    if not ctx.violations and (
            not st.get("setheads_checked") or not st.get("reorgs_with_notices") or not st.get("filter_chunks")
            or not st.get("restarts") or not st.get("feed_heads_seen")
            or not st.get("write_faults_fired") or not st.get("stops_after_write_failure") or not st.get("restarts_after_stop")
            or not st.get("overlapping_reads_across_a_write") or not st.get("overlapping_reads_after_restart_with_head")
            or not st.get("reads_before_a_held_put") or not st.get("accessor_reads")
            or not st.get("fin_errors_retried_notfound") or not st.get("fin_errors_retried_timeout")
            or not st.get("fin_errors_with_unfinalised_commits_buffered")):
        raise vlib.Broken("recorded runs are vacuous: %s" % st)
    with open(os.path.join(ctx.scratch, "l1trace.ndjson")) as f:
        events = [json.loads(x) for x in f if x.strip()]
    if not ctx.violations and len(events) < 20 * st.get("runs_recorded", 0):
        raise vlib.Broken("recorded trace too short: %d events" % len(events))
    acc, rej = validate(ctx, events, "main")
    ctx.traces_validated += acc
    report_rejections(ctx, rej)
    if not ctx.violations and st.get("undrained_runs"):
        raise vlib.Broken("%s recorded runs never reached the quiescent end (harness problem): %s" % (st["undrained_runs"], st))
    ctx.coverage["runs_recorded"] = st.get("runs_recorded", 0)
    ctx.coverage["runs_accepted_by_tlc"] = acc
    ctx.coverage["events_recorded"] = len(events)

    # ---- second recorder mode: the same scripted node served by an in-process go-ethereum rpc server
    # (websocket) to the REAL GethL1StateProvider (abigen filterer + forwardStateUpdates) -> real client
    ngeth = 1000 if thorough else 120
    gres = ctx.run_engine(binary, "TestL1Record", {"traces": ngeth, "seed": ctx.seed, "rounds": 30, "geth": True,
                                                   "trace_out": "l1geth.ndjson"}, timeout=2400)
    gst = gres.get("stats", {})
    before = len(ctx.violations)
    ctx.absorb(gres, "l1", "TestL1Record")
    if gst.get("broken_runs") and not ctx.violations:
        raise vlib.Broken("%s geth-mode runs hit a harness timeout / quiescence failure: %s" % (gst["broken_runs"], gres.get("samples")))
    for k, v in gst.items():  # absorb() summed them into the scripted-mode counters: keep them apart
        if isinstance(v, (int, float)):
            ctx.coverage[k] = ctx.coverage.get(k, 0) - v
            ctx.coverage["geth_" + k] = v
    if len(ctx.violations) == before and (not gst.get("setheads_checked") or not gst.get("pushes") or not gst.get("filter_chunks")
                                          or not gst.get("overlapping_reads_across_a_write") or not gst.get("fin_errors_retried_notfound")):
        raise vlib.Broken("geth-mode runs are vacuous: %s" % gst)
    with open(os.path.join(ctx.scratch, "l1geth.ndjson")) as f:
        gevents = [json.loads(x) for x in f if x.strip()]
    gacc, grej = validate(ctx, gevents, "geth")
    ctx.traces_validated += gacc
    report_rejections(ctx, grej)
    if not ctx.violations and gst.get("undrained_runs"):
        raise vlib.Broken("%s geth-mode runs never reached the quiescent end (harness problem): %s" % (gst["undrained_runs"], gst))
    ctx.coverage["geth_runs_accepted_by_tlc"] = gacc
    events = events + gevents

    if ctx.violations:
        # the real runs already diverge: report that; the self-test below needs conforming runs
        return ctx.finish("model_checking", "recorded runs of the real l1.Client validated by TLC and a direct monitor")

    # binding self-test: a corrupted run must be rejected
    runs = split_runs(events)
    probe = None
    for r_ in runs:
        idx = [i for i, e in enumerate(r_) if e["ev"] == "NewHead"]
        if idx:
            probe = [dict(e) for e in r_]
            probe[idx[-1]]["x"] += 1
            break
    if probe is None:
        raise vlib.Broken("no run announced a new head")
    acc2, rej2 = validate(ctx, probe, "selftest")
    if not rej2 or rej2[0][2]["ev"] != "NewHead":
        raise vlib.Broken("binding self-test: a run with a corrupted NewHead event was accepted")
    ctx.coverage["selftest"] = "corrupted NewHead rejected at event %d" % (rej2[0][1] + 1)
    # ... and so must a run whose client "went on" after a failed write: the Stopped event and the
    # restart that follows are cut out, the new client's calls then read as calls of the old one
    probe = None
    for r_ in runs:
        idx = [i for i, e in enumerate(r_) if e["ev"] == "Stopped"]
        if idx and len(r_) > idx[0] + 3 and r_[idx[0] + 2]["ev"] == "Restart":
            probe = [dict(e) for e in r_[:idx[0]]] + [dict(e) for e in r_[idx[0] + 3:]]
            break
    if probe is None:
        raise vlib.Broken("no conforming run stopped after a failed write of the head")
    acc3, rej3 = validate(ctx, probe, "selftest2")
    if not rej3 or not rej3[0][2]["ev"].startswith("Call"):
        raise vlib.Broken("binding self-test: a run whose client keeps calling after a failed head write was accepted (%s)" % (rej3[:1],))
    ctx.coverage["selftest_write_failure"] = "client running on after a failed write rejected at event %d (%s)" % (
        rej3[0][1] + 1, rej3[0][2]["ev"])

    # ... and a run whose overlapping read returns another head than the one its Get found
    probe = None
    for r_ in runs:
        idx = [i for i, e in enumerate(r_) if e["ev"] == "ReadEnd"]
        if idx:
            probe = [dict(e) for e in r_]
            probe[idx[0]]["x"] += 1
            break
    if probe is None:
        raise vlib.Broken("no conforming run contains a read of the accessor overlapping a SetL1Head")
    acc4, rej4 = validate(ctx, probe, "selftest3")
    if not rej4 or rej4[0][2]["ev"] != "ReadEnd":
        raise vlib.Broken("binding self-test: a run with a corrupted ReadEnd event was accepted (%s)" % (rej4[:1],))
    ctx.coverage["selftest_accessor"] = "corrupted ReadEnd rejected at event %d" % (rej4[0][1] + 1)

    # directed schedule outside the timing assumption: an observation, never a verdict
    lag = ctx.run_engine(binary, "TestL1LagScenario", {}, timeout=300)
    if lag.get("stats", {}).get("lag_reproduced"):
        print("OBSERVATION property=C17 outside the registered assumption FinalityAfterNotices the real client persists a removed "
              "commit (reorg + re-mine + finalise while the client is inside FinalisedHeight); see evidence", flush=True)
        ctx.coverage["observation_outside_assumption"] = (
            "reproduced on the real client: with a removal notice still queued in the update channel and the replaced height "
            "already reported finalised, setL1Head persists the removed commit")
    else:
        ctx.coverage["observation_outside_assumption"] = "not reproduced: %s" % lag.get("stats")

    ctx.assumptions += [
        "the L1 node is well-behaved: never un-finalises, pushes logs in chain order, delivers a removal notice for every "
        "reorged log it had delivered (a reorg dropping delivered logs needs a live subscription)",
        "FinalityAfterNotices: a height is reported finalised only after the removal notices of reorgs at or below it have been "
        "taken from the client's channel (Ethereum finality lags the head by ~13 min; a notice is consumed within microseconds)",
        "'delivered' is read as 'merged into the client's buffer': an update still queued in the channel when setL1Head runs "
        "is not yet counted (the select loop may serve the ticker first)",
        "storage faults: a Put of the L1-head record may fail (at most %d per run, injected by the shared fault-injecting "
        "store); the property is read conditionally: a client still running after a completed setL1Head has the best merged "
        "finalised event recorded; a failed write may stop the client (the node goes down with the service and is started "
        "again); reads of the record do not fail (the client never reads it)" % 2,
        "the head 'the node records and uses' is observed at the accessor Blockchain.L1Head() as well as in the database: "
        "a call that overlaps a SetL1Head may report the head before or after it (linearisable register), a call entered "
        "after SetL1Head has returned reports that head or a later one; a restart is a new Blockchain object on the same store",
        "a failing answer of the L1 node has a kind (transport error, context.DeadlineExceeded, eth.ErrNotFound = 'no finalised "
        "block', context.Canceled out of the provider while the client's context is live); behind the real GethL1StateProvider "
        "two kinds are produced: a JSON-RPC / connection error and the null answer to eth_getBlockByNumber('finalized'); "
        "a failing FinalisedHeight answer reports no finalised height: the model as coded retries it",
    ]
    return ctx.finish(
        "model_checking",
        "exhaustive TLC on L1.tla (incl. failed writes of the head record, client stop and restart, four kinds of failing "
        "answers, reads of the accessor overlapping SetL1Head); seeded scheduler scripts "
        "(mine / finalise / reorg / push / subscription failure / call failure of a random kind / failed Put of the head "
        "record at a setL1Head / restart = new Blockchain + new client on the same store, "
        "catch-up chunk size in {1,2,3,10}, three poll intervals) drive the real l1.Client through a gated provider "
        "and, for a smaller slice, through the real GethL1StateProvider over an in-process go-ethereum rpc server; in a share "
        "of the node processes the first call of Blockchain.L1Head() is a reader's, held by the store in its Get of the record "
        "while the client records another head, in others the client is held in front of its Put while a complete call runs; "
        "directed scenarios cover every error kind of FinalisedHeight with non-finalised commits buffered followed by a reorg of "
        "the non-finalised block, and the restart / overlap schedules, in both modes; "
        "every run is validated by TLC against L1.tla (trace validation with silent Consume; ReadStart / ReadEnd events) and by a "
        "direct monitor that compares accessor and database record at every step; "
        "non-trivial = the run contains at least one setL1Head whose database result was compared")

"""G05 placeholder"""
import json
import vlib


def run(ctx):
    binary = ctx.build_engine("headstate")
    if ctx.replay:
        with open(ctx.replay) as f:
            rp = json.load(f)
        res = ctx.run_engine(binary, rp["test"], rp["input"])
        ctx.absorb(res, "headstate", rp["test"])
        return ctx.finish("model_checking", "replay of one recorded behaviour")
    b = ctx.tlc_simulate("migration", "HeadStateMBT.tla", "HeadState_sim.cfg", depth=300, seed=ctx.seed, timeout=600)
    res = ctx.run_engine(binary, "TestHeadStateReplay", {"behaviours": b}, timeout=1200)
    ctx.absorb(res, "headstate", "TestHeadStateReplay")
    print(res.get("stats"), res.get("_wall_s"))
    return ctx.finish("model_checking", "TBD")

"""G05 (specification growth, not a listed property) — the HEAD-STATE migration
(migration/state/headstate) and the life of a migrated database under the trie2-based state, which
C18's note lists as not covered.  Run with ./check G05; evidence/G05.json.

Specification spec/migration/HeadState.tla: the abstract state (contracts: class hash, nonce, storage
map; declared classes), what the contracts trie commits to per contract, the new-layout contract
record (class hash, nonce, deployment height, PERSISTED storage root) and the three legacy per-field
entries, driven by one chain of state diffs from the C03 alphabet (declare, deploy, replace class,
nonce, storage write incl. zero writes, system contracts): blocks applied by the new state, the
records put back into the legacy layout (the database the upgraded binary finds), the migration as
batches of addresses in any grouping and order with crashes and restarts, the three range deletes,
the applied bit, then blocks on the migrated database.
TLC (exhaustive): (P1) after the migration every head read of class hash / nonce goes through a record
equal to the truth and the contracts trie still commits to the truth; (P2) whatever batches, order and
crashes, the migrated database is the same function of the old one (old record, storage root zero);
nothing is unreadable on the way; (P3) after EVERY block applied on the migrated database the
contracts trie commits to the truth, whatever kind of entry touches a migrated contract first, and a
persisted storage root is zero or accurate, never stale.  The switch LazyBackfill = FALSE (skip the
storage trie of a contract with no dirty slot and a zero persisted root - the seeded change this check
grew from) violates P3: deploy + storage write, migrate, class replacement only.

Binding (replay, spec -> code), engine harness/engines/headstate: TLC-simulated behaviours are
replayed on three real Blockchain nodes - a legacy-state node that also BUILDS every block (roots by
its Simulate), the node under test on the new state, a new-state node that is never migrated.  The
records of the node under test are rewritten into the legacy layout, the real headstate.Migrator runs
under the real runner with the registry of node/migration.go (--new-state), uninterrupted and with a
crash after EVERY durable mutation plus the crash sequence TLC drew (byte-identical database), the node
object is rebuilt, and the post-upgrade blocks go through SanityCheckNewHeight + Store (root
verification on) on the migrated and on the never-migrated node.  After every step: the block's
GlobalStateRoot = refimpl.GlobalRoot(truth) (independent reference, protocol versions on both sides of
0.14.0), the hashes of the storage tries and the combination of contracts / classes trie roots
against the reference, every head and every historical read (class hash, nonce, every slot, classes)
against the truth, and the persisted records field by field incl. the storage root (zero or accurate
exactly as specified).

What the binding does NOT do: upgrade a database whose TRIES were written by the legacy state. At the
pinned commit no migration moves the legacy tries into the buckets the new state reads (the
head-state migration consolidates contract records only), so such a database reads empty after the
upgrade; TestLegacyUpgradeProbe records that observation in the evidence (coverage.legacy_upgrade_probe)
without turning it into a verdict.
"""
import json
import vlib


def run(ctx):
    binary = ctx.build_engine("headstate")
    if ctx.replay:
        with open(ctx.replay) as f:
            rp = json.load(f)
        res = ctx.run_engine(binary, rp["test"], rp["input"])
        ctx.absorb(res, "headstate", rp["test"])
        return ctx.finish("model_checking", "replay of one recorded behaviour")

    thorough = not ctx.quick()
    ctx.tlc_check("migration", "MCHeadState.tla", "HeadState_quick.cfg", timeout=900)
    r = ctx.tlc_check("migration", "MCHeadState.tla", "HeadState_nobackfill.cfg", timeout=900, expect_violation=True)
    if r["violated"] != "RootIsCommitment":
        raise vlib.Broken("LazyBackfill = FALSE should violate RootIsCommitment, TLC says %s" % r["violated"])
    if thorough:
        r = ctx.tlc_check("migration", "MCHeadState.tla", "HeadState_thorough.cfg", timeout=3000, coverage=True)
        vlib.require_actions_covered(r)

    nruns = 12 if thorough else 3
    depth = 2500 if thorough else 700
    behaviours = []
    for i in range(nruns):
        behaviours += ctx.tlc_simulate("migration", "HeadStateMBT.tla", "HeadState_sim.cfg", depth=depth,
                                       seed=ctx.seed * 1000 + i, timeout=900)
    res = ctx.run_engine(binary, "TestHeadStateReplay", {"behaviours": behaviours}, timeout=2400)
    obs = (res.get("stats") or {}).pop("observations", None) or []
    for o in obs:
        print("OBSERVATION: property=G05 %s" % o, flush=True)
    ctx.coverage["observations"] = len(obs)
    ctx.absorb(res, "headstate", "TestHeadStateReplay")
    ctx.coverage["behaviours"] = len(behaviours)
    ctx.coverage["steps_replayed"] = res.get("steps", 0)
    try:
        probe = ctx.run_engine(binary, "TestLegacyUpgradeProbe", {}, timeout=600)
        ctx.coverage["legacy_upgrade_probe"] = probe.get("stats", {}).get("legacy_upgrade_probe", "(none)")
    except vlib.Broken as e:
        # the probe is an observation; it must never turn a recorded violation into BROKEN
        if not ctx.violations:
            raise
        ctx.coverage["legacy_upgrade_probe"] = "not run: " + str(e)[:200]
    ctx.assumptions += [
        "the tries of the upgraded database are in the layout the new state reads (no migration of the legacy "
        "tries exists at the pinned commit; see coverage.legacy_upgrade_probe)",
        "system contracts never receive zero writes (they hold block hashes)",
        "a crash is: the k-th durable mutation is applied and no later operation reaches the store",
        "the legacy backend's root is trusted only because it equals the independent reference on every block",
    ]
    return ctx.finish(
        "model_checking",
        "exhaustive TLC on HeadState.tla (2 user + 1 system contract, 1 slot, 2 classes, 2 blocks before and 2 "
        "after the upgrade with <= 2 entries, any batching / order / <= 2 crashes of the migration); the "
        "no-backfill design must violate RootIsCommitment. Binding cases: TLC -simulate behaviours (3 user + 2 "
        "system contracts, 3 slots, 3 classes, 2..4 blocks before and 5 after the upgrade, post-upgrade diffs of "
        "1-2 entries half of the time so that the FIRST touch of a migrated contract is a single kind of entry) "
        "replayed on real nodes; per behaviour the migration is crashed after every durable mutation; "
        "non-trivial = at least one contract owning storage is migrated and touched afterwards")

module verifharness

go 1.26.0

require (
	github.com/Masterminds/semver/v3 v3.5.0
	github.com/NethermindEth/juno v0.0.0
	github.com/bits-and-blooms/bloom/v3 v3.7.1
	github.com/cockroachdb/pebble v1.1.5
	github.com/cockroachdb/pebble/v2 v2.1.6
	github.com/libp2p/go-libp2p v0.48.0
	github.com/starknet-io/starknet-p2p-specs v0.0.0-00010101000000-000000000000
	go.uber.org/zap v1.28.0
)

require (
	github.com/DataDog/zstd v1.5.7 // indirect
	github.com/KimMachineGun/automemlimit v0.7.5 // indirect
	github.com/RaduBerinde/axisds v0.1.0 // indirect
	github.com/RaduBerinde/btreemap v0.0.0-20260105202824-d3184786f603 // indirect
	github.com/VictoriaMetrics/fastcache v1.13.3 // indirect
	github.com/beorn7/perks v1.0.1 // indirect
	github.com/bits-and-blooms/bitset v1.24.6 // indirect
	github.com/cespare/xxhash/v2 v2.3.0 // indirect
	github.com/cockroachdb/crlib v0.0.0-20251122031428-fe658a2dbda1 // indirect
	github.com/cockroachdb/errors v1.12.0 // indirect
	github.com/cockroachdb/fifo v0.0.0-20240816210425-c5d0cb0b6fc0 // indirect
	github.com/cockroachdb/logtags v0.0.0-20241215232642-bb51bb14a506 // indirect
	github.com/cockroachdb/redact v1.1.6 // indirect
	github.com/cockroachdb/swiss v0.0.0-20251224182025-b0f6560f979b // indirect
	github.com/cockroachdb/tokenbucket v0.0.0-20250429170803-42689b6311bb // indirect
	github.com/coder/websocket v1.8.15 // indirect
	github.com/consensys/gnark-crypto v0.20.1 // indirect
	github.com/crate-crypto/go-eth-kzg v1.5.0 // indirect
	github.com/davecgh/go-spew v1.1.1 // indirect
	github.com/deckarep/golang-set/v2 v2.8.0 // indirect
	github.com/decred/dcrd/dcrec/secp256k1/v4 v4.4.1 // indirect
	github.com/ethereum/go-ethereum v1.17.5 // indirect
	github.com/fjl/jsonw v0.1.0 // indirect
	github.com/fsnotify/fsnotify v1.9.0 // indirect
	github.com/fxamacker/cbor/v2 v2.9.2 // indirect
	github.com/gabriel-vasile/mimetype v1.4.13 // indirect
	github.com/getsentry/sentry-go v0.42.0 // indirect
	github.com/go-logr/logr v1.4.3 // indirect
	github.com/go-logr/stdr v1.2.2 // indirect
	github.com/go-playground/locales v0.14.1 // indirect
	github.com/go-playground/universal-translator v0.18.1 // indirect
	github.com/go-playground/validator/v10 v10.30.3 // indirect
	github.com/gogo/protobuf v1.3.2 // indirect
	github.com/golang/snappy v1.0.1-0.20260716114414-9ae09f520e93 // indirect
	github.com/google/uuid v1.6.0 // indirect
	github.com/gorilla/websocket v1.5.3 // indirect
	github.com/hashicorp/golang-lru/v2 v2.0.7 // indirect
	github.com/holiman/uint256 v1.3.2 // indirect
	github.com/ipfs/go-cid v0.6.2 // indirect
	github.com/klauspost/compress v1.19.1 // indirect
	github.com/klauspost/cpuid/v2 v2.3.0 // indirect
	github.com/klauspost/reedsolomon v1.14.1 // indirect
	github.com/kr/pretty v0.3.1 // indirect
	github.com/kr/text v0.2.0 // indirect
	github.com/leodido/go-urn v1.4.0 // indirect
	github.com/libp2p/go-buffer-pool v0.1.0 // indirect
	github.com/minio/minlz v1.0.1 // indirect
	github.com/mr-tron/base58 v1.3.0 // indirect
	github.com/multiformats/go-base32 v0.1.0 // indirect
	github.com/multiformats/go-base36 v0.2.0 // indirect
	github.com/multiformats/go-multiaddr v0.16.1 // indirect
	github.com/multiformats/go-multibase v0.3.0 // indirect
	github.com/multiformats/go-multicodec v0.10.0 // indirect
	github.com/multiformats/go-multihash v0.2.3 // indirect
	github.com/multiformats/go-multistream v0.6.1 // indirect
	github.com/multiformats/go-varint v0.1.0 // indirect
	github.com/munnerz/goautoneg v0.0.0-20191010083416-a7dc8b61c822 // indirect
	github.com/pbnjay/memory v0.0.0-20210728143218-7b4eea64cf58 // indirect
	github.com/pkg/errors v0.9.1 // indirect
	github.com/pmezard/go-difflib v1.0.1-0.20181226105442-5d4384ee4fb2 // indirect
	github.com/prometheus/client_golang v1.24.1 // indirect
	github.com/prometheus/client_model v0.6.2 // indirect
	github.com/prometheus/common v0.70.1 // indirect
	github.com/prometheus/procfs v0.21.1 // indirect
	github.com/rogpeppe/go-internal v1.14.1 // indirect
	github.com/shirou/gopsutil v3.21.11+incompatible // indirect
	github.com/sourcegraph/conc v0.3.1-0.20240121214520-5f936abd7ae8 // indirect
	github.com/spaolacci/murmur3 v1.1.0 // indirect
	github.com/spf13/pflag v1.0.10 // indirect
	github.com/stretchr/testify v1.11.1 // indirect
	github.com/tklauser/go-sysconf v0.3.16 // indirect
	github.com/tklauser/numcpus v0.11.0 // indirect
	github.com/x448/float16 v0.8.4 // indirect
	go.opentelemetry.io/auto/sdk v1.2.1 // indirect
	go.opentelemetry.io/otel v1.44.0 // indirect
	go.opentelemetry.io/otel/metric v1.44.0 // indirect
	go.opentelemetry.io/otel/trace v1.44.0 // indirect
	go.uber.org/multierr v1.11.0 // indirect
	golang.org/x/crypto v0.54.0 // indirect
	golang.org/x/exp v0.0.0-20260603202125-055de637280b // indirect
	golang.org/x/sync v0.22.0 // indirect
	golang.org/x/sys v0.47.0 // indirect
	golang.org/x/text v0.40.0 // indirect
	google.golang.org/protobuf v1.36.11 // indirect
	gopkg.in/yaml.v3 v3.0.1 // indirect
	lukechampine.com/blake3 v1.4.1 // indirect
)

replace github.com/NethermindEth/juno => /repo

replace github.com/starknet-io/starknet-p2p-specs => /repo/starknet-p2p-specs

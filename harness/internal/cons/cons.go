//go:build verif

// Package cons is shared by the "tendermint" (C12) and "driver" (C13) engines: the concretisation
// of the abstract ids of spec/consensus/Tendermint.tla (validators 1..NV, value ids, nil = 0) into
// the starknet consensus types, the mock Validators / Application the real state machine is
// constructed with, and the projection of the real machine's outputs and state into the uniform
// records the specification uses.
package cons

import (
	"fmt"
	"reflect"
	"regexp"
	"runtime/debug"
	"strings"
	"time"

	"github.com/NethermindEth/juno/consensus/starknet"
	"github.com/NethermindEth/juno/consensus/tendermint"
	"github.com/NethermindEth/juno/consensus/types"
	"github.com/NethermindEth/juno/consensus/types/actions"
	"github.com/NethermindEth/juno/consensus/types/wal"
	"github.com/NethermindEth/juno/consensus/votecounter"
	"github.com/NethermindEth/juno/core/felt"
	"github.com/NethermindEth/juno/utils/log"
)

// Cfg mirrors the constants of MCTendermint / MCDriver.
type Cfg struct {
	NV        int    `json:"nv"`
	// Powers[i][v-1] = voting power of validator v at height H0+i (cyclic: MCTendermint!MCPowerOf);
	// the stakes, and with them the total / f / quorum, change from one height to the next.
	Powers    [][]uint `json:"powers"`
	MaxVal    int    `json:"maxVal"`
	NValid    int    `json:"nValid"`
	MaxRound  int    `json:"maxRound"`
	Corr      []int  `json:"corr"`
	Byz       []int  `json:"byz"`
	H0        uint   `json:"h0"`
	PropShift int    `json:"propShift"`
}

// In is an input of the process machine (uniform shape, see MCTendermint!InStart/InMsg/InTimeout).
type In struct {
	T  string `json:"t"` // start | msg | timeout
	K  string `json:"k"` // proposal | prevote | precommit
	H  int    `json:"h"`
	R  int    `json:"r"`
	S  int    `json:"s"`
	V  int    `json:"v"` // value id (0 = nil) or, for timeouts, the step
	VR int    `json:"vr"`
}

// Act is one output action (uniform shape, see Tendermint!Act).
type Act struct {
	A  string `json:"a"`
	H  int    `json:"h"`
	R  int    `json:"r"`
	S  int    `json:"s"`
	V  int    `json:"v"`
	VR int    `json:"vr"`
}

func (a Act) String() string {
	return fmt.Sprintf("%s(h%d r%d s%d v%d vr%d)", a.A, a.H, a.R, a.S, a.V, a.VR)
}

// Post is Tendermint!ProjState.
type Post struct {
	H       int  `json:"h"`
	Round   int  `json:"round"`
	Step    int  `json:"step"`
	Lv      int  `json:"lv"`
	Lr      int  `json:"lr"`
	Vv      int  `json:"vv"`
	Vr      int  `json:"vr"`
	Tpv     bool `json:"tpv"`
	Tpc     bool `json:"tpc"`
	Flag    bool `json:"flag"`
	Started bool `json:"started"`
	Lts     int  `json:"lts"`
	Lq      int  `json:"lq"`
	// thresholds the vote counter holds for its current height
	Tot int `json:"tot"`
	F   int `json:"f"`
	Q   int `json:"q"`
}

type (
	Value   = starknet.Value
	Hash    = starknet.Hash
	Address = starknet.Address
	SM      = tendermint.StateMachine[Value, Hash, Address]
	Action  = actions.Action[Value, Hash, Address]
)

func Addr(i int) Address   { return felt.FromUint64[Address](uint64(i)) }
func Val(v int) *Value     { return felt.NewFromUint64[Value](uint64(v)) }
func AddrID(a Address) int { f := felt.Felt(a); return int(f.Uint64()) }
func ValID(v *Value) int {
	if v == nil {
		return 0
	}
	f := felt.Felt(*v)
	return int(f.Uint64())
}

func HashPtr(id int) *Hash {
	if id == 0 {
		return nil
	}
	return felt.NewFromUint64[Hash](uint64(id))
}

func HashID(h *Hash) int {
	if h == nil {
		return 0
	}
	f := felt.Felt(*h)
	return int(f.Uint64())
}

// Validators implements votecounter.Validators with the model's powers and proposer schedule
// (MCProposerOf(h, r) = ((h + r + PropShift) % NV) + 1).
type Validators struct{ C *Cfg }

func (v Validators) TotalVotingPower(h types.Height) types.VotingPower {
	return types.VotingPower(v.C.Total(int(h)))
}

func (v Validators) ValidatorVotingPower(h types.Height, a *Address) types.VotingPower {
	return types.VotingPower(v.C.PowerAt(int(h), AddrID(*a)))
}

func (v Validators) Proposer(h types.Height, r types.Round) Address {
	return Addr(v.C.ProposerOf(int(h), int(r)))
}

// PowerAt is MCPowerOf(h, v).
func (c *Cfg) PowerAt(h, v int) uint {
	if v < 1 || v > c.NV {
		return 0
	}
	n := len(c.Powers)
	return c.Powers[((h-int(c.H0))%n+n)%n][v-1]
}

// Total, Q, F: Tendermint!TotalPower(h), Q(h), F(h).
func (c *Cfg) Total(h int) uint {
	var t uint
	for v := 1; v <= c.NV; v++ {
		t += c.PowerAt(h, v)
	}
	return t
}

func (c *Cfg) Q(h int) uint {
	d := 2 * c.Total(h)
	q := d / 3
	if d%3 > 0 {
		q++
	}
	return q
}

func (c *Cfg) F(h int) uint { return (c.Total(h) - 1) / 3 }

func (c *Cfg) ProposerOf(h, r int) int { return ((h+r+c.PropShift)%c.NV+c.NV)%c.NV + 1 }

var _ votecounter.Validators[Address] = Validators{}

// App is the mock Application. ValueFn(k) is the k-th value Application.Value() returns; Calls
// points to the call counter so that it can outlive the machine (environment state).
type App struct {
	C       *Cfg
	ValueFn func(k int) int
	Calls   *int
}

func (a *App) Value() Value {
	v := a.ValueFn(*a.Calls)
	*a.Calls++
	return *Val(v)
}

// Valid is MCIsValid: ids 1..NValid are valid, NValid+1..MaxVal are not, ids >= 10 (values
// produced by the driver model's application) are valid.
func (a *App) Valid(v Value) bool {
	id := ValID(&v)
	return (id >= 1 && id <= a.C.NValid) || id >= 10
}

// Machine is one REAL tendermint state machine plus the environment bits the model keeps with it.
type Machine struct {
	C     *Cfg
	Me    int
	SM    SM
	Calls int
}

// NewMachine constructs a real state machine for validator `me` at height h.
// valueFn nil = MCAppValue: ((me + k) % NValid) + 1.
func NewMachine(c *Cfg, me int, h uint, valueFn func(k int) int, calls int) *Machine {
	m := &Machine{C: c, Me: me, Calls: calls}
	if valueFn == nil {
		valueFn = func(k int) int { return (me+k)%c.NValid + 1 }
	}
	app := &App{C: c, ValueFn: valueFn, Calls: &m.Calls}
	m.SM = tendermint.New[Value, Hash, Address](log.NewNopZapLogger(), Addr(me), app, Validators{c}, types.Height(h))
	return m
}

func header(in In) types.MessageHeader[Address] {
	return types.MessageHeader[Address]{Height: types.Height(in.H), Round: types.Round(in.R), Sender: Addr(in.S)}
}

func MkProposal(in In) *starknet.Proposal {
	return &starknet.Proposal{MessageHeader: header(in), ValidRound: types.Round(in.VR), Value: Val(in.V)}
}

func MkPrevote(in In) *starknet.Prevote {
	return &starknet.Prevote{MessageHeader: header(in), ID: HashPtr(in.V)}
}

func MkPrecommit(in In) *starknet.Precommit {
	return &starknet.Precommit{MessageHeader: header(in), ID: HashPtr(in.V)}
}

func MkTimeout(in In) types.Timeout {
	return types.Timeout{Step: types.Step(in.V), Height: types.Height(in.H), Round: types.Round(in.R)}
}

// Apply feeds one input to the real machine and returns the real actions.
func (m *Machine) Apply(in In) []Action {
	acts, _ := m.ApplyKeep(in)
	return acts
}

// ApplyKeep also returns the message object that was handed to the machine (nil for start/timeout), so
// that the caller can check later that the machine did not modify it (InOf).
func (m *Machine) ApplyKeep(in In) ([]Action, any) {
	switch in.T {
	case "start":
		return m.SM.ProcessStart(0), nil
	case "timeout":
		return m.SM.ProcessTimeout(MkTimeout(in)), nil
	case "msg":
		switch in.K {
		case "proposal":
			p := MkProposal(in)
			return m.SM.ProcessProposal(p), p
		case "prevote":
			p := MkPrevote(in)
			return m.SM.ProcessPrevote(p), p
		case "precommit":
			p := MkPrecommit(in)
			return m.SM.ProcessPrecommit(p), p
		}
	}
	panic(fmt.Sprintf("cons: bad input %+v", in))
}

// InOf projects a message object back into the model's input record.
func InOf(msg any) In {
	switch p := msg.(type) {
	case *starknet.Proposal:
		return In{T: "msg", K: "proposal", H: int(p.Height), R: int(p.Round), S: AddrID(p.Sender), V: ValID(p.Value), VR: int(p.ValidRound)}
	case *starknet.Prevote:
		return In{T: "msg", K: "prevote", H: int(p.Height), R: int(p.Round), S: AddrID(p.Sender), V: HashID(p.ID), VR: -1}
	case *starknet.Precommit:
		return In{T: "msg", K: "precommit", H: int(p.Height), R: int(p.Round), S: AddrID(p.Sender), V: HashID(p.ID), VR: -1}
	}
	return In{}
}

// Guarded runs one call into the real code under recover and a watchdog: a panic or a hang of the
// real code is reported to the caller (who turns it into a keyed divergence) instead of killing or
// blocking the engine. (A hung call keeps its goroutine; the engine finishes without it.)
func Guarded[T any](d time.Duration, f func() T) (res T, panicMsg string, hung bool) {
	type r struct {
		v T
		p string
	}
	ch := make(chan r, 1)
	go func() {
		defer func() {
			if x := recover(); x != nil {
				ch <- r{p: fmt.Sprintf("%v\n%s", x, debug.Stack())}
			}
		}()
		ch <- r{v: f()}
	}()
	select {
	case x := <-ch:
		return x.v, x.p, false
	case <-time.After(d):
		return res, "", true
	}
}

var (
	junoFrame = regexp.MustCompile(`github.com/NethermindEth/juno/[^\n]*`)
	generics  = regexp.MustCompile(`\[[^\]]*\]`)
)

// CrashSite names the first juno function on a recovered panic's stack
// (e.g. consensus/tendermint.(*stateMachine).doSkipRound).
func CrashSite(msg string) string {
	m := junoFrame.FindString(msg)
	if m == "" {
		return "unknown"
	}
	if i := strings.LastIndex(m, "("); i > 0 {
		m = m[:i]
	}
	m = generics.ReplaceAllString(m, "")
	return strings.TrimPrefix(m, "github.com/NethermindEth/juno/")
}

// WalAct projects a WAL entry (as it would be encoded NOW) into the model's wal_* action.
func WalAct(e wal.Entry[Value, Hash, Address]) Act {
	switch e := e.(type) {
	case *wal.Start:
		return Act{A: "wal_start", H: int(*e), VR: -1}
	case *wal.Proposal[Value, Hash, Address]:
		return Act{A: "wal_proposal", H: int(e.Height), R: int(e.Round), S: AddrID(e.Sender), V: ValID(e.Value), VR: int(e.ValidRound)}
	case *wal.Prevote[Hash, Address]:
		return Act{A: "wal_prevote", H: int(e.Height), R: int(e.Round), S: AddrID(e.Sender), V: HashID(e.ID), VR: -1}
	case *wal.Precommit[Hash, Address]:
		return Act{A: "wal_precommit", H: int(e.Height), R: int(e.Round), S: AddrID(e.Sender), V: HashID(e.ID), VR: -1}
	case *wal.Timeout:
		return Act{A: "wal_timeout", H: int(e.Height), R: int(e.Round), V: int(e.Step), VR: -1}
	}
	return Act{A: fmt.Sprintf("wal_unknown:%T", e)}
}

// ToAct projects a real action into the model's uniform record.
func ToAct(a Action) Act {
	switch a := a.(type) {
	case *actions.WriteWAL[Value, Hash, Address]:
		return WalAct(a.Entry)
	case *actions.BroadcastProposal[Value, Hash, Address]:
		return Act{A: "proposal", H: int(a.Height), R: int(a.Round), S: AddrID(a.Sender), V: ValID(a.Value), VR: int(a.ValidRound)}
	case *actions.BroadcastPrevote[Hash, Address]:
		return Act{A: "prevote", H: int(a.Height), R: int(a.Round), S: AddrID(a.Sender), V: HashID(a.ID), VR: -1}
	case *actions.BroadcastPrecommit[Hash, Address]:
		return Act{A: "precommit", H: int(a.Height), R: int(a.Round), S: AddrID(a.Sender), V: HashID(a.ID), VR: -1}
	case *actions.ScheduleTimeout:
		return Act{A: "timeout", H: int(a.Height), R: int(a.Round), V: int(a.Step), VR: -1}
	case *actions.Commit[Value, Hash, Address]:
		return Act{A: "commit", H: int(a.Height), R: int(a.Round), S: AddrID(a.Sender), V: ValID(a.Value), VR: int(a.ValidRound)}
	case *actions.TriggerSync:
		return Act{A: "sync", H: int(a.Start), R: int(a.End), VR: -1}
	}
	return Act{A: fmt.Sprintf("unknown:%T", a)}
}

func ToActs(as []Action) []Act {
	out := make([]Act, 0, len(as))
	for _, a := range as {
		out = append(out, ToAct(a))
	}
	return out
}

// State reads the unexported process state through the verif-tagged accessor.
func (m *Machine) State() Post {
	s, ok := tendermint.VerifExportState(m.SM)
	if !ok {
		panic("cons: not a tendermint.stateMachine")
	}
	tot, f, q := m.thresholds()
	return Post{
		Tot: tot, F: f, Q: q,
		H: int(s.Height), Round: int(s.Round), Step: int(s.Step),
		Lv: ValID(s.LockedValue), Lr: int(s.LockedRound), Vv: ValID(s.ValidValue), Vr: int(s.ValidRound),
		Tpv: s.TimeoutPrevoteScheduled, Tpc: s.TimeoutPrecommitScheduled, Flag: s.LockedValueAndOrValidValueSet,
		Started: s.IsHeightStarted, Lts: int(s.LastTriggerSync), Lq: int(s.LastQuorum),
	}
}

// thresholds reads the vote counter's private threshold fields (read-only, by reflection: the
// counter has no accessor for them and the public queries only reveal them indirectly).
func (m *Machine) thresholds() (tot, f, q int) {
	vc := reflect.ValueOf(tendermint.VerifVoteCounter(m.SM)).Elem()
	get := func(name string) int {
		fv := vc.FieldByName(name)
		if !fv.IsValid() {
			panic("cons: votecounter.VoteCounter has no field " + name)
		}
		return int(fv.Uint())
	}
	if h := get("currentHeight"); h != int(m.SM.Height()) {
		return -h, -1, -1 // the counter and the machine disagree about the height
	}
	return get("totalVotingPower"), get("faultyVotingPower"), get("quorumVotingPower")
}

func b2i(b bool) int {
	if b {
		return 1
	}
	return 0
}

// VcDigest is Tendermint!VcDigest computed through the vote counter's public query methods.
func (m *Machine) VcDigest() [][]int {
	vc := tendermint.VerifVoteCounter(m.SM)
	out := make([][]int, 0, m.C.MaxRound+1)
	for r := 0; r <= m.C.MaxRound; r++ {
		round := types.Round(r)
		row := []int{0, -2}
		if p := vc.GetProposal(round); p != nil {
			row = []int{ValID(p.Value), int(p.ValidRound)}
		}
		row = append(row,
			b2i(vc.HasQuorumForAny(round, votecounter.Prevote)),
			b2i(vc.HasQuorumForAny(round, votecounter.Precommit)),
			b2i(vc.HasNonFaultyFutureMessage(round)))
		for id := 0; id <= m.C.MaxVal; id++ {
			row = append(row, b2i(vc.HasQuorumForVote(round, votecounter.Prevote, HashPtr(id))))
		}
		for id := 0; id <= m.C.MaxVal; id++ {
			row = append(row, b2i(vc.HasQuorumForVote(round, votecounter.Precommit, HashPtr(id))))
		}
		out = append(out, row)
	}
	return out
}

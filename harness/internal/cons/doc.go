// Package cons: see cons.go (built only with the `verif` tag, which the engines always set).
package cons

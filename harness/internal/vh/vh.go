// Package vh is the shared protocol between the python check driver (tools/vlib.py) and the Go
// engines: a JSON input file ($VH_IN), a JSON result file ($VH_OUT), a seed ($VH_SEED).
package vh

import (
	"encoding/json"
	"fmt"
	"os"
	"strconv"
	"sync"
)

// Step is one action of a TLC-generated behaviour: action name, arguments, expected projection.
type Step struct {
	A    string          `json:"a"`
	Args json.RawMessage `json:"args,omitempty"`
	Post json.RawMessage `json:"post,omitempty"`
}

// Divergence is a difference between the specification and the real code, observed on the code.
type Divergence struct {
	Key      string `json:"key"`  // specific signature (matched against known_findings.json)
	What     string `json:"what"` // human-readable
	Input    any    `json:"input,omitempty"`
	Step     int    `json:"step"`
	Expected any    `json:"expected,omitempty"`
	Observed any    `json:"observed,omitempty"`
}

// Result is what an engine writes to $VH_OUT.
type Result struct {
	mu          sync.Mutex
	Replayed    int            `json:"replayed"`
	Steps       int            `json:"steps"`
	Divergences []Divergence   `json:"divergences"`
	Samples     []any          `json:"samples"`
	Stats       map[string]any `json:"stats"`
}

func NewResult() *Result { return &Result{Stats: map[string]any{}} }

func (r *Result) Diverge(d Divergence) {
	r.mu.Lock()
	defer r.mu.Unlock()
	// keep the first divergence per key plus a few more; the first is what gets replayed
	n := 0
	for _, x := range r.Divergences {
		if x.Key == d.Key {
			n++
		}
	}
	if n < 3 {
		r.Divergences = append(r.Divergences, d)
	}
}

func (r *Result) Count(key string, n int) {
	r.mu.Lock()
	defer r.mu.Unlock()
	cur, _ := r.Stats[key].(int)
	r.Stats[key] = cur + n
}

func (r *Result) Sample(s any) {
	r.mu.Lock()
	defer r.mu.Unlock()
	if len(r.Samples) < 3 {
		r.Samples = append(r.Samples, s)
	}
}

func (r *Result) Done(replayed, steps int) {
	r.mu.Lock()
	defer r.mu.Unlock()
	r.Replayed += replayed
	r.Steps += steps
}

func (r *Result) Write() error {
	r.mu.Lock()
	defer r.mu.Unlock()
	if r.Divergences == nil {
		r.Divergences = []Divergence{}
	}
	b, err := json.Marshal(r)
	if err != nil {
		return err
	}
	p := os.Getenv("VH_OUT")
	if p == "" {
		fmt.Println(string(b))
		return nil
	}
	return os.WriteFile(p, b, 0o644)
}

// Input loads $VH_IN into v.
func Input(v any) error {
	p := os.Getenv("VH_IN")
	if p == "" {
		return fmt.Errorf("VH_IN not set")
	}
	b, err := os.ReadFile(p)
	if err != nil {
		return err
	}
	return json.Unmarshal(b, v)
}

func Seed() int64 {
	s, err := strconv.ParseInt(os.Getenv("VH_SEED"), 10, 64)
	if err != nil {
		return 1
	}
	return s
}

func Thorough() bool { return os.Getenv("VH_TIER") == "thorough" }

func Scratch() string {
	if s := os.Getenv("VH_SCRATCH"); s != "" {
		return s
	}
	return os.TempDir()
}

// Enabled reports whether this engine test was invoked by the driver (VH_IN set); engine tests
// skip otherwise so that a plain `go test ./...` in the harness is a no-op.
func Enabled() bool { return os.Getenv("VH_IN") != "" }

// J is a shorthand for building JSON-ish values.
type J = map[string]any

// MustJSON decodes raw into v, panicking on malformed driver input (that is a machinery bug).
func MustJSON(raw json.RawMessage, v any) {
	if len(raw) == 0 {
		return
	}
	if err := json.Unmarshal(raw, v); err != nil {
		panic(fmt.Sprintf("vh: bad JSON %s: %v", string(raw), err))
	}
}

package refcrypto

import (
	"math/big"
	"testing"
	"time"
)

func TestSelf(t *testing.T) {
	t0 := time.Now()
	if err := SelfTest(); err != nil {
		t.Fatal(err)
	}
	t.Logf("self test %v (big %d fast %d)", time.Since(t0), NPedersenBig, NPedersenFast)
}

func BenchmarkPedersenBig(b *testing.B) {
	x := new(big.Int).Sub(P, big.NewInt(1))
	for i := 0; i < b.N; i++ {
		PedersenBig(x, x)
	}
}

func BenchmarkPoseidonBig(b *testing.B) {
	x := new(big.Int).Sub(P, big.NewInt(1))
	for i := 0; i < b.N; i++ {
		PoseidonBig(x, x)
	}
}

func BenchmarkPedersenFast(b *testing.B) {
	x := FeltOf(new(big.Int).Sub(P, big.NewInt(1)))
	for i := 0; i < b.N; i++ {
		y := FeltOf(big.NewInt(int64(i)))
		PedersenFast(&x, &y)
	}
}

func BenchmarkPoseidonFast(b *testing.B) {
	x := FeltOf(new(big.Int).Sub(P, big.NewInt(1)))
	for i := 0; i < b.N; i++ {
		y := FeltOf(big.NewInt(int64(i)))
		Poseidon(&x, &y)
	}
}

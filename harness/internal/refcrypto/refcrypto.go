// Package refcrypto holds INDEPENDENT references for the two hash primitives every Starknet commitment
// is built from, written from the protocol documentation (docs.starknet.io, "Cryptography"), so that the
// reference commitments of harness/internal/refimpl do not have to trust core/crypto - the code under test:
//
//   - Pedersen: h(a, b) = [ P0 + a_low*P1 + a_high*P2 + b_low*P3 + b_high*P4 ]_x  on the Stark curve
//     y^2 = x^3 + x + beta over F_p, p = 2^251 + 17*2^192 + 1, where x_low is the low 248 bits of x and
//     x_high its 4 highest bits (bits 248..251).  PedersenBig is the textbook evaluation: affine points,
//     double-and-add, math/big; no tables, no windows, no masks.  The five constant points are DATA (the
//     published pedersen_params; checked to lie on the curve when the package is loaded).
//     PedersenFast is gnark-crypto's stark-curve pedersen-hash (a third-party implementation: nibble
//     tables over Jacobian points) behind a cache; SelfTest cross-validates it against PedersenBig on
//     boundary operands and against the published known answers before it is used as an oracle.
//   - Poseidon: the Hades permutation with state width 3, x^3 S-box, 8 full and 83 partial rounds, MDS
//     [[3,1,1],[1,-1,1],[1,1,-2]], over math/big.  The round constants are DERIVED, not copied:
//     ark[i][j] = sha256("Hades" || decimal(3*i+j)) mod p (cairo-lang poseidon_utils.generate_round_constant).
//     hash(x, y) = hades(x, y, 2)[0]; hash_many absorbs pairs and pads with 1 (sponge, rate 2).
//
// Nothing in here imports core/crypto. core/felt is used only as the container type at the API surface.
package refcrypto

import (
	"crypto/sha256"
	"fmt"
	"math/big"
	"strconv"
	"sync"

	"github.com/NethermindEth/juno/core/felt"
	"github.com/consensys/gnark-crypto/ecc/stark-curve/fp"
	pedersenhash "github.com/consensys/gnark-crypto/ecc/stark-curve/pedersen-hash"
)

func mustBig(s string, base int) *big.Int {
	b, ok := new(big.Int).SetString(s, base)
	if !ok {
		panic("refcrypto: bad constant " + s)
	}
	return b
}

var (
	// P is the Stark field prime 2^251 + 17*2^192 + 1.
	P = func() *big.Int {
		p := new(big.Int).Lsh(big.NewInt(1), 251)
		p.Add(p, new(big.Int).Lsh(big.NewInt(17), 192))
		return p.Add(p, big.NewInt(1))
	}()
	curveAlpha = big.NewInt(1)
	curveBeta  = mustBig("6f21413efbe40de150e596d72f7a8c5609ad26c15c915c1f4cdfcb99cee9e89", 16)
)

// ---------------------------------------------------------------------------- textbook elliptic curve

type point struct{ x, y *big.Int } // nil pointer = the point at infinity

func mod(x *big.Int) *big.Int { return x.Mod(x, P) }

func onCurve(p *point) bool {
	l := new(big.Int).Mul(p.y, p.y)
	r := new(big.Int).Mul(p.x, p.x)
	r.Mul(r, p.x).Add(r, new(big.Int).Mul(curveAlpha, p.x)).Add(r, curveBeta)
	return mod(l).Cmp(mod(r)) == 0
}

func ecAdd(a, b *point) *point {
	if a == nil {
		return b
	}
	if b == nil {
		return a
	}
	var lambda *big.Int
	if a.x.Cmp(b.x) == 0 {
		if new(big.Int).Add(a.y, b.y).Mod(new(big.Int).Add(a.y, b.y), P).Sign() == 0 {
			return nil // a = -b
		}
		// doubling: lambda = (3x^2 + alpha) / (2y)
		num := new(big.Int).Mul(a.x, a.x)
		num.Mul(num, big.NewInt(3)).Add(num, curveAlpha)
		den := new(big.Int).Lsh(a.y, 1)
		lambda = num.Mul(num, den.ModInverse(mod(den), P))
	} else {
		num := new(big.Int).Sub(b.y, a.y)
		den := new(big.Int).Sub(b.x, a.x)
		lambda = num.Mul(num, den.ModInverse(mod(den), P))
	}
	mod(lambda)
	x := new(big.Int).Mul(lambda, lambda)
	x.Sub(x, a.x).Sub(x, b.x)
	mod(x)
	y := new(big.Int).Sub(a.x, x)
	y.Mul(y, lambda).Sub(y, a.y)
	mod(y)
	return &point{x, y}
}

// ecMul is plain double-and-add, most significant bit first.
func ecMul(k *big.Int, p *point) *point {
	var acc *point
	for i := k.BitLen() - 1; i >= 0; i-- {
		acc = ecAdd(acc, acc)
		if k.Bit(i) == 1 {
			acc = ecAdd(acc, p)
		}
	}
	return acc
}

// the published constant points (shift point P0 and P1..P4), decimal
var pedersenPoints = [5]*point{
	{mustBig("2089986280348253421170679821480865132823066470938446095505822317253594081284", 10),
		mustBig("1713931329540660377023406109199410414810705867260802078187082345529207694986", 10)},
	{mustBig("996781205833008774514500082376783249102396023663454813447423147977397232763", 10),
		mustBig("1668503676786377725805489344771023921079126552019160156920634619255970485781", 10)},
	{mustBig("2251563274489750535117886426533222435294046428347329203627021249169616184184", 10),
		mustBig("1798716007562728905295480679789526322175868328062420237419143593021674992973", 10)},
	{mustBig("2138414695194151160943305727036575959195309218611738193261179310511854807447", 10),
		mustBig("113410276730064486255102093846540133784865286929052426931474106396135072156", 10)},
	{mustBig("2379962749567351885752724891227938183011949129833673362440656643086021394946", 10),
		mustBig("776496453633298175483985398648758586525933812536653089401905292063708816422", 10)},
}

func init() {
	for i, p := range pedersenPoints {
		if !onCurve(p) {
			panic("refcrypto: Pedersen constant point " + strconv.Itoa(i) + " is not on the Stark curve")
		}
	}
}

var low248 = new(big.Int).Sub(new(big.Int).Lsh(big.NewInt(1), 248), big.NewInt(1))

// PedersenBig evaluates the definition. a and b must be in [0, P).
func PedersenBig(a, b *big.Int) *big.Int {
	if a.Sign() < 0 || b.Sign() < 0 || a.Cmp(P) >= 0 || b.Cmp(P) >= 0 {
		panic("refcrypto: Pedersen operand outside the field")
	}
	acc := pedersenPoints[0]
	acc = ecAdd(acc, ecMul(new(big.Int).And(a, low248), pedersenPoints[1]))
	acc = ecAdd(acc, ecMul(new(big.Int).Rsh(a, 248), pedersenPoints[2]))
	acc = ecAdd(acc, ecMul(new(big.Int).And(b, low248), pedersenPoints[3]))
	acc = ecAdd(acc, ecMul(new(big.Int).Rsh(b, 248), pedersenPoints[4]))
	if acc == nil {
		panic("refcrypto: Pedersen sum is the point at infinity")
	}
	return new(big.Int).Set(acc.x)
}

// PedersenArrayBig is the protocol's array hash h(...h(h(0, e1), e2)..., n).
func PedersenArrayBig(pedersen func(a, b *big.Int) *big.Int, elems []*big.Int) *big.Int {
	d := new(big.Int)
	for _, e := range elems {
		d = pedersen(d, e)
	}
	return pedersen(d, big.NewInt(int64(len(elems))))
}

// ---------------------------------------------------------------------------- Poseidon (Hades) over math/big

const (
	hadesFull    = 8
	hadesPartial = 83
	hadesWidth   = 3
)

var (
	hadesOnce sync.Once
	hadesArk  [hadesFull + hadesPartial][hadesWidth]*big.Int
)

func hadesInit() {
	for i := 0; i < hadesFull+hadesPartial; i++ {
		for j := 0; j < hadesWidth; j++ {
			h := sha256.Sum256([]byte("Hades" + strconv.Itoa(hadesWidth*i+j)))
			hadesArk[i][j] = mod(new(big.Int).SetBytes(h[:]))
		}
	}
}

func cube(x *big.Int) *big.Int {
	s := new(big.Int).Mul(x, x)
	mod(s)
	return mod(s.Mul(s, x))
}

// HadesBig applies the permutation to a 3-element state (values in [0, P)).
func HadesBig(s [3]*big.Int) [3]*big.Int {
	hadesOnce.Do(hadesInit)
	st := [3]*big.Int{new(big.Int).Set(s[0]), new(big.Int).Set(s[1]), new(big.Int).Set(s[2])}
	round := func(i int, full bool) {
		for j := range st {
			st[j] = mod(new(big.Int).Add(st[j], hadesArk[i][j]))
		}
		if full {
			st[0], st[1] = cube(st[0]), cube(st[1])
		}
		st[2] = cube(st[2])
		// MDS [[3,1,1],[1,-1,1],[1,1,-2]]
		a, b, c := st[0], st[1], st[2]
		n0 := new(big.Int).Mul(a, big.NewInt(3))
		n0.Add(n0, b).Add(n0, c)
		n1 := new(big.Int).Sub(a, b)
		n1.Add(n1, c)
		n2 := new(big.Int).Add(a, b)
		n2.Sub(n2, new(big.Int).Lsh(c, 1))
		st[0], st[1], st[2] = mod(n0), mod(n1), mod(n2)
	}
	i := 0
	for ; i < hadesFull/2; i++ {
		round(i, true)
	}
	for ; i < hadesFull/2+hadesPartial; i++ {
		round(i, false)
	}
	for ; i < hadesFull+hadesPartial; i++ {
		round(i, true)
	}
	return st
}

// PoseidonBig is poseidon_hash(x, y) = hades(x, y, 2)[0].
func PoseidonBig(x, y *big.Int) *big.Int {
	return HadesBig([3]*big.Int{x, y, big.NewInt(2)})[0]
}

// PoseidonManyBig is poseidon_hash_many: a sponge of rate 2 over elems || 1 || 0* .
func PoseidonManyBig(elems []*big.Int) *big.Int {
	padded := append(append([]*big.Int{}, elems...), big.NewInt(1))
	if len(padded)%2 == 1 {
		padded = append(padded, new(big.Int))
	}
	st := [3]*big.Int{new(big.Int), new(big.Int), new(big.Int)}
	for i := 0; i < len(padded); i += 2 {
		st[0] = mod(new(big.Int).Add(st[0], padded[i]))
		st[1] = mod(new(big.Int).Add(st[1], padded[i+1]))
		st = HadesBig(st)
	}
	return st[0]
}

// ---------------------------------------------------------------------------- felt-typed, cached front ends

func BigOf(f *felt.Felt) *big.Int { var b big.Int; return f.BigInt(&b) }

func FeltOf(b *big.Int) felt.Felt {
	var f felt.Felt
	f.SetBigInt(b)
	return f
}

type pair struct{ a, b felt.Felt }

var (
	mu       sync.Mutex
	pedCache = map[pair]felt.Felt{}
	posCache = map[pair]felt.Felt{}
	// Counters (reference hashes actually evaluated, not served from the cache)
	NPedersenFast, NPedersenBig, NPoseidon int
)

const cacheLimit = 1 << 20

// PedersenFast is gnark-crypto's implementation behind a cache (see SelfTest).
func PedersenFast(a, b *felt.Felt) felt.Felt {
	k := pair{*a, *b}
	mu.Lock()
	if v, ok := pedCache[k]; ok {
		mu.Unlock()
		return v
	}
	mu.Unlock()
	r := felt.Felt(pedersenhash.Pedersen(a.Impl(), b.Impl()))
	mu.Lock()
	if len(pedCache) >= cacheLimit {
		pedCache = map[pair]felt.Felt{}
	}
	pedCache[k] = r
	NPedersenFast++
	mu.Unlock()
	return r
}

// PedersenSlow is the textbook evaluation, felt-typed.
func PedersenSlow(a, b *felt.Felt) felt.Felt {
	mu.Lock()
	NPedersenBig++
	mu.Unlock()
	return FeltOf(PedersenBig(BigOf(a), BigOf(b)))
}

// hadesFp is the same permutation over gnark-crypto's field elements (fast path; same derived constants;
// cross-validated against HadesBig by SelfTest).
var (
	hadesFpOnce sync.Once
	hadesFpArk  [hadesFull + hadesPartial][hadesWidth]fp.Element
)

func hadesFp(st *[3]fp.Element) {
	hadesOnce.Do(hadesInit)
	hadesFpOnce.Do(func() {
		for i := range hadesArk {
			for j := range hadesArk[i] {
				hadesFpArk[i][j].SetBigInt(hadesArk[i][j])
			}
		}
	})
	var sq, a, b, c fp.Element
	for i := 0; i < hadesFull+hadesPartial; i++ {
		full := i < hadesFull/2 || i >= hadesFull/2+hadesPartial
		for j := range st {
			st[j].Add(&st[j], &hadesFpArk[i][j])
		}
		if full {
			sq.Square(&st[0])
			st[0].Mul(&st[0], &sq)
			sq.Square(&st[1])
			st[1].Mul(&st[1], &sq)
		}
		sq.Square(&st[2])
		st[2].Mul(&st[2], &sq)
		a, b, c = st[0], st[1], st[2]
		// row 0: 3a + b + c ; row 1: a - b + c ; row 2: a + b - 2c
		st[0].Add(&a, &a).Add(&st[0], &a).Add(&st[0], &b).Add(&st[0], &c)
		st[1].Sub(&a, &b).Add(&st[1], &c)
		st[2].Add(&a, &b).Sub(&st[2], &c).Sub(&st[2], &c)
	}
}

// PoseidonSlow is the math/big evaluation, felt-typed.
func PoseidonSlow(a, b *felt.Felt) felt.Felt { return FeltOf(PoseidonBig(BigOf(a), BigOf(b))) }

// Poseidon is the fast Hades evaluation behind a cache.
func Poseidon(a, b *felt.Felt) felt.Felt {
	k := pair{*a, *b}
	mu.Lock()
	if v, ok := posCache[k]; ok {
		mu.Unlock()
		return v
	}
	mu.Unlock()
	st := [3]fp.Element{*a.Impl(), *b.Impl(), {}}
	st[2].SetUint64(2)
	hadesFp(&st)
	r := felt.Felt(st[0])
	mu.Lock()
	if len(posCache) >= cacheLimit {
		posCache = map[pair]felt.Felt{}
	}
	posCache[k] = r
	NPoseidon++
	mu.Unlock()
	return r
}

// PoseidonMany is poseidon_hash_many (sponge of rate 2 over elems || 1 || 0*), fast path.
func PoseidonMany(elems ...*felt.Felt) felt.Felt {
	var one fp.Element
	one.SetOne()
	padded := make([]fp.Element, 0, len(elems)+2)
	for _, e := range elems {
		padded = append(padded, *e.Impl())
	}
	padded = append(padded, one)
	if len(padded)%2 == 1 {
		padded = append(padded, fp.Element{})
	}
	var st [3]fp.Element
	for i := 0; i < len(padded); i += 2 {
		st[0].Add(&st[0], &padded[i])
		st[1].Add(&st[1], &padded[i+1])
		hadesFp(&st)
	}
	mu.Lock()
	NPoseidon += len(padded) / 2
	mu.Unlock()
	return felt.Felt(st[0])
}

// PoseidonManySlow is the math/big evaluation of poseidon_hash_many, felt-typed.
func PoseidonManySlow(elems ...*felt.Felt) felt.Felt {
	bs := make([]*big.Int, len(elems))
	for i, e := range elems {
		bs[i] = BigOf(e)
	}
	return FeltOf(PoseidonManyBig(bs))
}

// PedersenArray is the protocol's array hash on top of PedersenFast.
func PedersenArray(elems ...*felt.Felt) felt.Felt {
	var d felt.Felt
	for _, e := range elems {
		d = PedersenFast(&d, e)
	}
	n := felt.FromUint64[felt.Felt](uint64(len(elems)))
	return PedersenFast(&d, &n)
}

// ---------------------------------------------------------------------------- self test (harness, never a verdict)

// Boundary operands: one representative per magnitude class and the exact edges between them.
func BoundaryOperands() []*big.Int {
	pow := func(n uint) *big.Int { return new(big.Int).Lsh(big.NewInt(1), n) }
	sub1 := func(b *big.Int) *big.Int { return new(big.Int).Sub(b, big.NewInt(1)) }
	return []*big.Int{
		new(big.Int), big.NewInt(1), big.NewInt(2), big.NewInt(255), big.NewInt(256),
		sub1(pow(248)), pow(248), new(big.Int).Add(pow(248), big.NewInt(1)),
		sub1(pow(249)), pow(249), sub1(pow(250)), pow(250), sub1(pow(251)), pow(251),
		new(big.Int).Add(pow(251), big.NewInt(1)), new(big.Int).Add(pow(251), pow(192)), new(big.Int).Add(pow(251), pow(196)),
		new(big.Int).Sub(P, big.NewInt(2)), sub1(P),
	}
}

var (
	selfOnce sync.Once
	selfErr  error
)

// SelfTest validates the references against the published known answers and against each other
// (textbook vs gnark on boundary operands in both positions). An error here is broken machinery.
func SelfTest() error {
	selfOnce.Do(func() { selfErr = selfTest() })
	return selfErr
}

func selfTest() error {
	hex := func(s string) *big.Int { return mustBig(s, 16) }
	// Pedersen known answers (starkware crypto-cpp / cairo-lang test vectors; h(0,0) is the shift point's x... of the empty array)
	kats := [][3]*big.Int{
		{hex("03d937c035c878245caf64531a5756109c53068da139362728feb561405371cb"), hex("0208a0a10250e382e1e4bbe2880906c2791bf6275695e02fbbc6aeff9cd8b31a"),
			hex("030e480bed5fe53fa909cc0f8c4d99b8f9f2c016be4c41e13a4848797979c662")},
		{hex("58f580910a6ca59b28927c08fe6c43e2e303ca384badc365795fc645d479d45"), hex("78734f65a067be9bdb39de18434d71e79f7b6466a4b66bbd979ab9e7515fe0b"),
			hex("68cc0b76cddd1dd4ed2301ada9b7c872b23875d5ff837b3a87993e0d9996b87")},
		{new(big.Int), new(big.Int), hex("49ee3eba8c1600700ee1b87eb599f16716b0b1022947733551fde4050ca6804")},
	}
	for i, k := range kats {
		if got := PedersenBig(k[0], k[1]); got.Cmp(k[2]) != 0 {
			return fmt.Errorf("refcrypto: textbook Pedersen fails known answer %d: %s", i, got.Text(16))
		}
	}
	ops := BoundaryOperands()
	for i, a := range ops {
		for j, b := range ops {
			// every boundary operand in both positions against a fixed partner, plus the diagonal
			if !(i == j || j == 3 || i == 3) {
				continue
			}
			fa, fb := FeltOf(a), FeltOf(b)
			fast := PedersenFast(&fa, &fb)
			if slow := PedersenBig(a, b); slow.Cmp(BigOf(&fast)) != 0 {
				return fmt.Errorf("refcrypto: gnark Pedersen(%s, %s) = %s differs from the textbook evaluation %s", a.Text(16), b.Text(16), fast.String(), slow.Text(16))
			}
		}
	}
	// Poseidon known answers: hades(0,0,0) (starkware-industries/poseidon test vector), hash(1,2), hash_many
	h := HadesBig([3]*big.Int{new(big.Int), new(big.Int), new(big.Int)})
	want := [3]string{
		"3446325744004048536138401612021367625846492093718951375866996507163446763827",
		"1590252087433376791875644726012779423683501236913937337746052470473806035332",
		"867921192302518434283879514999422690776342565400001269945778456016268852423",
	}
	for i := range h {
		if h[i].String() != want[i] {
			return fmt.Errorf("refcrypto: Hades permutation fails the known answer (element %d: %s)", i, h[i].String())
		}
	}
	if got := PoseidonBig(big.NewInt(1), big.NewInt(2)); got.Cmp(hex("5d44a3decb2b2e0cc71071f7b802f45dd792d064f0fc7316c46514f70f9891a")) != 0 {
		return fmt.Errorf("refcrypto: Poseidon(1,2) fails the known answer: %s", got.Text(16))
	}
	many := []struct {
		in   []*big.Int
		want string
	}{
		{nil, "2272be0f580fd156823304800919530eaa97430e972d7213ee13f4fbf7a5dbc"},
		{[]*big.Int{new(big.Int), big.NewInt(1), big.NewInt(2)}, "7a01142da8aecae3782ba66fc3285fd02fcd2c55aa868fe50fd95c089068d16"},
		{[]*big.Int{new(big.Int), big.NewInt(1), big.NewInt(2), big.NewInt(3)}, "7b8f30ac298ea12d170c0873f1fa631a18c00756c6e7d1fd273b9a239d0d413"},
	}
	for i, m := range many {
		if got := PoseidonManyBig(m.in); got.Cmp(hex(m.want)) != 0 {
			return fmt.Errorf("refcrypto: poseidon_hash_many fails known answer %d: %s", i, got.Text(16))
		}
	}
	// the fast Hades path against the math/big one on boundary operands
	for i, a := range ops {
		b := ops[(i*7+3)%len(ops)]
		fa, fb := FeltOf(a), FeltOf(b)
		fast := Poseidon(&fa, &fb)
		if slow := PoseidonBig(a, b); slow.Cmp(BigOf(&fast)) != 0 {
			return fmt.Errorf("refcrypto: fast Poseidon(%s, %s) differs from the math/big evaluation", a.Text(16), b.Text(16))
		}
		c := ops[(i*5+1)%len(ops)]
		fc := FeltOf(c)
		for n := 0; n <= 3; n++ {
			es := []*felt.Felt{&fa, &fb, &fc}[:n]
			fm, sm := PoseidonMany(es...), PoseidonManySlow(es...)
			if !fm.Equal(&sm) {
				return fmt.Errorf("refcrypto: fast poseidon_hash_many differs from the math/big evaluation (n=%d)", n)
			}
		}
	}
	return nil
}

// Package faultkv wraps a db.KeyValueStore and numbers every durable mutation (a direct
// Put/Delete/DeleteRange on the store, a Batch.Write, the commit of an Update/Write helper).
// At mutation k it can (a) fail it without applying, (b) crash after it: apply it and make every
// later operation on the store fail, so that error-handling code cannot touch the disk any more —
// the surviving image is exactly "the first k mutations" —, or (c) cancel a context right after.
// It also produces a canonical dump of the store for "observationally identical" comparisons.
// Atomicity of one Batch.Write is the assumption (C15 examines the backends themselves).
package faultkv

import (
	"bytes"
	"context"
	"errors"
	"fmt"
	"sort"
	"sync"

	"github.com/NethermindEth/juno/db"
)

var (
	ErrInjected = errors.New("faultkv: injected write failure")
	ErrCrashed  = errors.New("faultkv: process crashed (store unreachable)")
)

type Mode int

const (
	Off Mode = iota
	FailAt
	CrashAfter
	CancelAfter
)

type Store struct {
	db.KeyValueStore
	mu      sync.Mutex
	n       int // durable mutations so far
	mode    Mode
	at      int
	dead    bool
	fired   bool
	cancel  context.CancelFunc
	Trace   []string // one line per durable mutation: kind and size
	OnWrite func(n int, kind string)
}

func Wrap(inner db.KeyValueStore) *Store { return &Store{KeyValueStore: inner} }

// Arm sets the fault for the k-th durable mutation from now (1-based) and resets the counter.
func (s *Store) Arm(mode Mode, k int, cancel context.CancelFunc) {
	s.mu.Lock()
	defer s.mu.Unlock()
	s.mode, s.at, s.n, s.fired, s.cancel = mode, k, 0, false, cancel
	s.Trace = nil
}

func (s *Store) Disarm() { s.Arm(Off, 0, nil) }

// Count returns the number of durable mutations since the last Arm.
func (s *Store) Count() int { s.mu.Lock(); defer s.mu.Unlock(); return s.n }
func (s *Store) Fired() bool { s.mu.Lock(); defer s.mu.Unlock(); return s.fired }
func (s *Store) Dead() bool  { s.mu.Lock(); defer s.mu.Unlock(); return s.dead }

// Inner returns the surviving store (use after a crash to build new objects on it).
func (s *Store) Inner() db.KeyValueStore { return s.KeyValueStore }

// mutate runs one durable mutation under the fault plan.
func (s *Store) mutate(kind string, apply func() error) error {
	s.mu.Lock()
	if s.dead {
		s.mu.Unlock()
		return ErrCrashed
	}
	s.n++
	n := s.n
	s.Trace = append(s.Trace, kind)
	hit := s.mode != Off && n == s.at
	mode := s.mode
	if hit {
		s.fired = true
	}
	if hit && mode == FailAt {
		s.mu.Unlock()
		return ErrInjected
	}
	if hit && mode == CrashAfter {
		s.dead = true // set before releasing: concurrent writers must not slip through
	}
	cb := s.OnWrite
	s.mu.Unlock()
	err := apply()
	if cb != nil {
		cb(n, kind)
	}
	if hit && mode == CancelAfter && s.cancel != nil {
		s.cancel()
	}
	return err
}

func (s *Store) alive() error {
	s.mu.Lock()
	defer s.mu.Unlock()
	if s.dead {
		return ErrCrashed
	}
	return nil
}

func (s *Store) Put(k, v []byte) error {
	return s.mutate("put", func() error { return s.KeyValueStore.Put(k, v) })
}

func (s *Store) Delete(k []byte) error {
	return s.mutate("delete", func() error { return s.KeyValueStore.Delete(k) })
}

func (s *Store) DeleteRange(a, b []byte) error {
	return s.mutate("deleterange", func() error { return s.KeyValueStore.DeleteRange(a, b) })
}

func (s *Store) Has(k []byte) (bool, error) {
	if err := s.alive(); err != nil {
		return false, err
	}
	return s.KeyValueStore.Has(k)
}

func (s *Store) Get(k []byte, cb func([]byte) error) error {
	if err := s.alive(); err != nil {
		return err
	}
	return s.KeyValueStore.Get(k, cb)
}

func (s *Store) NewIterator(p []byte, ub bool) (db.Iterator, error) {
	if err := s.alive(); err != nil {
		return nil, err
	}
	return s.KeyValueStore.NewIterator(p, ub)
}

type batch struct {
	db.IndexedBatch
	s *Store
}

func (b *batch) Write() error {
	return b.s.mutate(fmt.Sprintf("batch(%d)", b.IndexedBatch.Size()), func() error { return b.IndexedBatch.Write() })
}

func (b *batch) Get(k []byte, cb func([]byte) error) error {
	if err := b.s.alive(); err != nil {
		return err
	}
	return b.IndexedBatch.Get(k, cb)
}

func (b *batch) Has(k []byte) (bool, error) {
	if err := b.s.alive(); err != nil {
		return false, err
	}
	return b.IndexedBatch.Has(k)
}

func (b *batch) NewIterator(p []byte, ub bool) (db.Iterator, error) {
	if err := b.s.alive(); err != nil {
		return nil, err
	}
	return b.IndexedBatch.NewIterator(p, ub)
}

func (s *Store) NewBatch() db.Batch                   { return &batch{s.KeyValueStore.NewIndexedBatch(), s} }
func (s *Store) NewBatchWithSize(n int) db.Batch      { return &batch{s.KeyValueStore.NewIndexedBatchWithSize(n), s} }
func (s *Store) NewIndexedBatch() db.IndexedBatch     { return &batch{s.KeyValueStore.NewIndexedBatch(), s} }
func (s *Store) NewIndexedBatchWithSize(n int) db.IndexedBatch {
	return &batch{s.KeyValueStore.NewIndexedBatchWithSize(n), s}
}

func (s *Store) Update(fn func(db.IndexedBatch) error) error {
	if err := s.alive(); err != nil {
		return err
	}
	b := s.NewIndexedBatch()
	if err := fn(b); err != nil {
		_ = b.Close()
		return err
	}
	return b.Write()
}

func (s *Store) Write(fn func(db.Batch) error) error {
	if err := s.alive(); err != nil {
		return err
	}
	b := s.NewBatch()
	if err := fn(b); err != nil {
		_ = b.Close()
		return err
	}
	return b.Write()
}

func (s *Store) NewSnapshot() db.Snapshot { return s.KeyValueStore.NewSnapshot() }

func (s *Store) WithListener(l db.EventListener) db.KeyValueStore { return s }

// ------------------------------------------------------------------ dumps

type KV struct {
	K, V []byte
}

// Dump returns every key/value pair of store in key order.
func Dump(store db.KeyValueReader) ([]KV, error) {
	it, err := store.NewIterator(nil, false)
	if err != nil {
		return nil, err
	}
	defer it.Close()
	var out []KV
	for ok := it.First(); ok; ok = it.Next() {
		v, err := it.Value()
		if err != nil {
			return nil, err
		}
		out = append(out, KV{K: bytes.Clone(it.Key()), V: v})
	}
	sort.Slice(out, func(i, j int) bool { return bytes.Compare(out[i].K, out[j].K) < 0 })
	return out, nil
}

// Diff lists the differences between two dumps, grouped by bucket (first key byte), skipping
// buckets in ignore. Each entry: "bucket <name|n>: only-in-a|only-in-b|differs key=<hex>".
func Diff(a, b []KV, ignore map[byte]bool, limit int) []string {
	var out []string
	i, j := 0, 0
	add := func(kind string, k []byte) {
		if len(k) > 0 && ignore[k[0]] {
			return
		}
		if len(out) < limit {
			name := "?"
			if len(k) > 0 {
				name = db.Bucket(k[0]).String()
			}
			out = append(out, fmt.Sprintf("bucket %s: %s key=%x", name, kind, k))
		}
	}
	for i < len(a) || j < len(b) {
		switch {
		case j >= len(b) || (i < len(a) && bytes.Compare(a[i].K, b[j].K) < 0):
			add("only-in-a", a[i].K)
			i++
		case i >= len(a) || bytes.Compare(a[i].K, b[j].K) > 0:
			add("only-in-b", b[j].K)
			j++
		default:
			if !bytes.Equal(a[i].V, b[j].V) {
				add("differs", a[i].K)
			}
			i++
			j++
		}
	}
	return out
}

// Package chainkit builds valid juno chains without a feeder gateway, for the engines of the
// Chain family (C02–C09, C16, C18, C06, C08, C20). A block is described by a BlockSpec (state
// diff, classes, transactions + receipts, protocol version); Build completes it through the real
// Blockchain.Simulate (which computes roots, commitments and the hash on a discarded batch) and
// StoreBuilt feeds it through the path the sync pipeline uses (SanityCheckNewHeight + Store).
package chainkit

import (
	"fmt"
	"math/big"
	"math/rand"

	"github.com/NethermindEth/juno/blockchain"
	"github.com/NethermindEth/juno/blockchain/networks"
	"github.com/NethermindEth/juno/core"
	"github.com/NethermindEth/juno/core/felt"
	"github.com/NethermindEth/juno/db"
	"github.com/NethermindEth/juno/db/memory"
	_ "github.com/NethermindEth/juno/encoder/registry"
)

var Network = &networks.Sepolia

type Node struct {
	Store    db.KeyValueStore
	BC       *blockchain.Blockchain
	NewState bool
	Opts     []blockchain.Option
}

// NewNode creates a Blockchain over store (memory.New() when nil).
func NewNode(store db.KeyValueStore, newState bool, opts ...blockchain.Option) *Node {
	if store == nil {
		store = memory.New()
	}
	all := append([]blockchain.Option{blockchain.WithNewState(newState)}, opts...)
	return &Node{Store: store, BC: blockchain.New(store, Network, all...), NewState: newState, Opts: opts}
}

// Restart builds a fresh Blockchain object over the same store (an ungraceful restart unless the
// caller invoked BC.WriteRunningEventFilter() first).
func (n *Node) Restart() *Node { return NewNode(n.Store, n.NewState, n.Opts...) }

// BlockSpec is what the caller chooses; everything else is derived.
type BlockSpec struct {
	Version   string // protocol version, default "0.14.0"
	Timestamp uint64
	Diff      *core.StateDiff
	Classes   map[felt.Felt]core.ClassDefinition
	Txs       []core.Transaction
	Receipts  []*core.TransactionReceipt
	Sequencer *felt.Felt
	L1DAMode  core.L1DAMode
	// Header, when set, may adjust the header fields Build chooses itself (gas prices ...) before the
	// block is completed (roots, commitments, hash). Optional; nil keeps the defaults.
	Header func(h *core.Header)
}

type Built struct {
	Block       *core.Block
	Update      *core.StateUpdate
	Classes     map[felt.Felt]core.ClassDefinition
	Commitments *core.BlockCommitments
}

func EmptyDiff() *core.StateDiff {
	return &core.StateDiff{
		StorageDiffs:      map[felt.Felt]map[felt.Felt]*felt.Felt{},
		Nonces:            map[felt.Felt]*felt.Felt{},
		DeployedContracts: map[felt.Felt]*felt.Felt{},
		DeclaredV0Classes: []*felt.Felt{},
		DeclaredV1Classes: map[felt.Felt]*felt.Felt{},
		ReplacedClasses:   map[felt.Felt]*felt.Felt{},
		MigratedClasses:   map[felt.SierraClassHash]felt.CasmClassHash{},
	}
}

func F(v uint64) *felt.Felt { return new(felt.Felt).SetUint64(v) }

func gasPrice(a, b uint64) *core.GasPrice {
	return &core.GasPrice{PriceInWei: F(a), PriceInFri: F(b)}
}

// Build completes spec into the successor of the node's current head (or block 0 on an empty
// chain) using the node's own Simulate; nothing is stored.
func (n *Node) Build(spec BlockSpec) (*Built, error) {
	var (
		parent = &felt.Zero
		number uint64
	)
	if head, err := n.BC.HeadsHeader(); err == nil {
		parent = head.Hash
		number = head.Number + 1
	}
	return n.BuildAt(spec, number, parent)
}

func (n *Node) BuildAt(spec BlockSpec, number uint64, parent *felt.Felt) (*Built, error) {
	if spec.Version == "" {
		spec.Version = "0.14.0"
	}
	if spec.Diff == nil {
		spec.Diff = EmptyDiff()
	}
	if spec.Sequencer == nil {
		spec.Sequencer = F(0x5e9)
	}
	if spec.Txs == nil {
		spec.Txs = []core.Transaction{}
	}
	if spec.Receipts == nil {
		spec.Receipts = []*core.TransactionReceipt{}
	}
	if len(spec.Txs) != len(spec.Receipts) {
		return nil, fmt.Errorf("chainkit: %d txs vs %d receipts", len(spec.Txs), len(spec.Receipts))
	}
	var events uint64
	for _, r := range spec.Receipts {
		events += uint64(len(r.Events))
	}
	block := &core.Block{
		Header: &core.Header{
			ParentHash:       parent,
			Number:           number,
			SequencerAddress: spec.Sequencer,
			Timestamp:        spec.Timestamp,
			ProtocolVersion:  spec.Version,
			EventsBloom:      core.EventsBloom(spec.Receipts),
			TransactionCount: uint64(len(spec.Txs)),
			EventCount:       events,
			L1GasPriceETH:    F(10 + number),
			L1GasPriceSTRK:   F(20 + number),
			L1DAMode:         spec.L1DAMode,
			L1DataGasPrice:   gasPrice(30+number, 40+number),
			L2GasPrice:       gasPrice(50+number, 60+number),
		},
		Transactions: spec.Txs,
		Receipts:     spec.Receipts,
	}
	if spec.Header != nil {
		spec.Header(block.Header)
	}
	oldRoot := &felt.Zero
	if number > 0 {
		if ph, err := n.BC.BlockHeaderByNumber(number - 1); err == nil {
			oldRoot = ph.GlobalStateRoot
		}
	}
	su := &core.StateUpdate{StateDiff: spec.Diff, OldRoot: oldRoot}
	if spec.Classes == nil {
		spec.Classes = map[felt.Felt]core.ClassDefinition{}
	}
	res, err := n.BC.Simulate(block, su, spec.Classes, nil)
	if err != nil {
		return nil, fmt.Errorf("chainkit: simulate block %d: %w", number, err)
	}
	return &Built{Block: block, Update: su, Classes: spec.Classes, Commitments: res.BlockCommitments}, nil
}

// StoreBuilt takes the path of the sync pipeline: verify, then store.
func (n *Node) StoreBuilt(b *Built) error {
	commitments, err := n.BC.SanityCheckNewHeight(b.Block, b.Update, b.Classes)
	if err != nil {
		return fmt.Errorf("sanity check: %w", err)
	}
	return n.BC.Store(b.Block, commitments, b.Update, b.Classes)
}

// Append = Build + StoreBuilt.
func (n *Node) Append(spec BlockSpec) (*Built, error) {
	b, err := n.Build(spec)
	if err != nil {
		return nil, err
	}
	if err := n.StoreBuilt(b); err != nil {
		return nil, err
	}
	return b, nil
}

// ------------------------------------------------------------------ seeded values

type Gen struct{ R *rand.Rand }

func NewGen(seed int64) *Gen { return &Gen{R: rand.New(rand.NewSource(seed))} }

func (g *Gen) Felt() *felt.Felt {
	var b [32]byte
	g.R.Read(b[:])
	b[0] &= 0x03 // < 2^250
	return new(felt.Felt).SetBytes(b[:])
}

func (g *Gen) Felts(n int) []felt.Felt {
	out := make([]felt.Felt, n)
	for i := range out {
		out[i] = *g.Felt()
	}
	return out
}

func (g *Gen) bounds() map[core.Resource]core.ResourceBounds {
	return map[core.Resource]core.ResourceBounds{
		core.ResourceL1Gas:     {MaxAmount: uint64(g.R.Intn(1000)), MaxPricePerUnit: F(uint64(g.R.Intn(1000)))},
		core.ResourceL2Gas:     {MaxAmount: uint64(g.R.Intn(1000)), MaxPricePerUnit: F(uint64(g.R.Intn(1000)))},
		core.ResourceL1DataGas: {MaxAmount: uint64(g.R.Intn(1000)), MaxPricePerUnit: F(uint64(g.R.Intn(1000)))},
	}
}

func ver(v uint64) *core.TransactionVersion { return new(core.TransactionVersion).SetUint64(v) }

// Tx returns a transaction of the given kind with a correct hash for Network.
// kinds: invoke0 invoke1 invoke3 declare1 declare2 declare3 deployaccount1 deployaccount3 l1handler deploy
func (g *Gen) Tx(kind string) core.Transaction {
	var tx core.Transaction
	switch kind {
	case "invoke0":
		tx = &core.InvokeTransaction{Version: ver(0), ContractAddress: g.Felt(), EntryPointSelector: g.Felt(),
			CallData: g.Felts(g.R.Intn(3)), TransactionSignature: g.Felts(2), MaxFee: g.Felt()}
	case "invoke1":
		tx = &core.InvokeTransaction{Version: ver(1), SenderAddress: g.Felt(), Nonce: g.Felt(),
			CallData: g.Felts(g.R.Intn(3)), TransactionSignature: g.Felts(2), MaxFee: g.Felt()}
	case "invoke3":
		tx = &core.InvokeTransaction{Version: ver(3), SenderAddress: g.Felt(), Nonce: g.Felt(),
			CallData: g.Felts(g.R.Intn(3)), TransactionSignature: g.Felts(2), ResourceBounds: g.bounds(),
			Tip: uint64(g.R.Intn(9)), PaymasterData: g.Felts(g.R.Intn(2)), AccountDeploymentData: g.Felts(g.R.Intn(2)),
			NonceDAMode: core.DataAvailabilityMode(g.R.Intn(2)), FeeDAMode: core.DataAvailabilityMode(g.R.Intn(2))}
	case "declare1":
		tx = &core.DeclareTransaction{Version: ver(1), ClassHash: g.Felt(), SenderAddress: g.Felt(), MaxFee: g.Felt(),
			TransactionSignature: g.Felts(2), Nonce: g.Felt()}
	case "declare2":
		tx = &core.DeclareTransaction{Version: ver(2), ClassHash: g.Felt(), SenderAddress: g.Felt(), MaxFee: g.Felt(),
			TransactionSignature: g.Felts(2), Nonce: g.Felt(), CompiledClassHash: g.Felt()}
	case "declare3":
		tx = &core.DeclareTransaction{Version: ver(3), ClassHash: g.Felt(), SenderAddress: g.Felt(),
			TransactionSignature: g.Felts(2), Nonce: g.Felt(), CompiledClassHash: g.Felt(), ResourceBounds: g.bounds(),
			Tip: uint64(g.R.Intn(9)), PaymasterData: g.Felts(g.R.Intn(2)), AccountDeploymentData: g.Felts(g.R.Intn(2)),
			NonceDAMode: core.DataAvailabilityMode(g.R.Intn(2)), FeeDAMode: core.DataAvailabilityMode(g.R.Intn(2))}
	case "deployaccount1":
		tx = &core.DeployAccountTransaction{DeployTransaction: core.DeployTransaction{Version: ver(1), ContractAddressSalt: g.Felt(),
			ContractAddress: g.Felt(), ClassHash: g.Felt(), ConstructorCallData: g.Felts(g.R.Intn(3))},
			MaxFee: g.Felt(), TransactionSignature: g.Felts(2), Nonce: g.Felt()}
	case "deployaccount3":
		tx = &core.DeployAccountTransaction{DeployTransaction: core.DeployTransaction{Version: ver(3), ContractAddressSalt: g.Felt(),
			ContractAddress: g.Felt(), ClassHash: g.Felt(), ConstructorCallData: g.Felts(g.R.Intn(3))},
			TransactionSignature: g.Felts(2), Nonce: g.Felt(), ResourceBounds: g.bounds(), Tip: uint64(g.R.Intn(9)),
			PaymasterData: g.Felts(g.R.Intn(2)), NonceDAMode: core.DataAvailabilityMode(g.R.Intn(2)),
			FeeDAMode: core.DataAvailabilityMode(g.R.Intn(2))}
	case "l1handler":
		tx = &core.L1HandlerTransaction{Version: ver(0), ContractAddress: g.Felt(), EntryPointSelector: g.Felt(),
			Nonce: g.Felt(), CallData: g.Felts(1 + g.R.Intn(3))}
	case "deploy":
		// core.TransactionHash does not compute legacy DEPLOY hashes (it returns the field as is), so
		// give the transaction a hash of its own; a nil/zero hash would not be storable.
		tx = &core.DeployTransaction{Version: ver(0), ContractAddressSalt: g.Felt(), ContractAddress: g.Felt(),
			ClassHash: g.Felt(), ConstructorCallData: g.Felts(g.R.Intn(3)), TransactionHash: g.Felt()}
	default:
		panic("chainkit: unknown tx kind " + kind)
	}
	h, err := core.TransactionHash(tx, Network)
	if err != nil {
		panic(fmt.Sprintf("chainkit: hash %s: %v", kind, err))
	}
	SetTxHash(tx, &h)
	return tx
}

var TxKinds = []string{"invoke0", "invoke1", "invoke3", "declare1", "declare2", "declare3",
	"deployaccount1", "deployaccount3", "l1handler", "deploy"}

func SetTxHash(tx core.Transaction, h *felt.Felt) {
	switch t := tx.(type) {
	case *core.InvokeTransaction:
		t.TransactionHash = h
	case *core.DeclareTransaction:
		t.TransactionHash = h
	case *core.DeployAccountTransaction:
		t.TransactionHash = h
	case *core.L1HandlerTransaction:
		t.TransactionHash = h
	case *core.DeployTransaction:
		t.TransactionHash = h
	}
}

// Receipt builds a receipt for tx with the given events.
func (g *Gen) Receipt(tx core.Transaction, events []*core.Event) *core.TransactionReceipt {
	r := &core.TransactionReceipt{
		Fee:             g.Felt(),
		FeeUnit:         core.FeeUnit(g.R.Intn(2)),
		Events:          events,
		TransactionHash: tx.Hash(),
		ExecutionResources: &core.ExecutionResources{
			Steps: uint64(g.R.Intn(5000)), MemoryHoles: uint64(g.R.Intn(50)),
			BuiltinInstanceCounter: core.BuiltinInstanceCounter{Pedersen: uint64(g.R.Intn(9)), RangeCheck: uint64(g.R.Intn(9))},
			DataAvailability:       &core.DataAvailability{L1Gas: uint64(g.R.Intn(99)), L1DataGas: uint64(g.R.Intn(99))},
			TotalGasConsumed:       &core.GasConsumed{L1Gas: uint64(g.R.Intn(99)), L1DataGas: uint64(g.R.Intn(99)), L2Gas: uint64(g.R.Intn(99))},
		},
		L2ToL1Message: []*core.L2ToL1Message{},
	}
	if events == nil {
		r.Events = []*core.Event{}
	}
	if g.R.Intn(4) == 0 {
		r.Reverted = true
		r.RevertReason = fmt.Sprintf("reverted-%d", g.R.Intn(1000))
	}
	for i := g.R.Intn(3); i > 0; i-- {
		m := &core.L2ToL1Message{From: g.Felt(), Payload: g.Felts(g.R.Intn(3))}
		g.R.Read(m.To[:])
		r.L2ToL1Message = append(r.L2ToL1Message, m)
	}
	if l1, ok := tx.(*core.L1HandlerTransaction); ok {
		m := &core.L1ToL2Message{Nonce: l1.Nonce, Payload: l1.CallData[1:], Selector: l1.EntryPointSelector, To: l1.ContractAddress}
		fb := l1.CallData[0].Bytes()
		copy(m.From[:], fb[12:])
		r.L1ToL2Message = m
	}
	return r
}

// Cairo0Class returns a (hash, class) pair; juno does not verify Cairo-0 class hashes.
func (g *Gen) Cairo0Class() (felt.Felt, core.ClassDefinition) {
	h := g.Felt()
	return *h, &core.DeprecatedCairoClass{
		Abi:          []byte(`[]`),
		Externals:    []core.DeprecatedEntryPoint{{Selector: g.Felt(), Offset: g.Felt()}},
		L1Handlers:   []core.DeprecatedEntryPoint{},
		Constructors: []core.DeprecatedEntryPoint{},
		Program:      "cHJvZ3JhbQ==",
	}
}

// SierraClass returns a small Sierra class with its real hash and its compiled class hashes.
func (g *Gen) SierraClass() (hash felt.Felt, casmV1, casmV2 felt.Felt, class *core.SierraClass) {
	class = &core.SierraClass{
		Abi:             "[]",
		AbiHash:         g.Felt(),
		Program:         []felt.Felt{*F(1), *F(6), *F(0), *g.Felt()},
		ProgramHash:     g.Felt(),
		SemanticVersion: "0.1.0",
		EntryPoints: core.SierraEntryPointsByType{
			Constructor: []core.SierraEntryPoint{},
			External:    []core.SierraEntryPoint{{Index: 0, Selector: g.Felt()}},
			L1Handler:   []core.SierraEntryPoint{},
		},
		Compiled: &core.CasmClass{
			Bytecode:        []felt.Felt{*g.Felt(), *g.Felt()},
			PythonicHints:   []byte(`[]`),
			CompilerVersion: "2.1.0",
			Hints:           []byte(`[]`),
			Prime:           prime(),
			External:        []core.CasmEntryPoint{},
			L1Handler:       []core.CasmEntryPoint{},
			Constructor:     []core.CasmEntryPoint{},
		},
	}
	h, err := class.Hash()
	if err != nil {
		panic(err)
	}
	return h, class.Compiled.Hash(core.HashVersionV1), class.Compiled.Hash(core.HashVersionV2), class
}

func prime() *big.Int {
	p, _ := new(big.Int).SetString("800000000000011000000000000000000000000000000000000000000000001", 16)
	return p
}

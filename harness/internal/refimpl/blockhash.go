// Independent reference of the Starknet transaction-hash, receipt-hash, commitment and block-hash
// definitions (formats 0.13.2 and 0.13.4+), written from the protocol documentation
// (docs.starknet.io "Transactions reference" / "Block structure", SNIP-8 for the v3 preimage), NOT from
// core/transaction.go, core/receipt.go, core/block.go or core/state_update.go - the code under test of
// property C02. The core structs are used as plain data carriers (field reads only); no method or
// function of package core is called. Hash primitives are the switchable ones of this package
// (UseIndependent: nothing of juno is trusted).
//
// The definitions, as used here:
//
//	pedersen_array(e1..en) = h(...h(h(0, e1), e2)..., en), n)          ("compute_hash_on_elements")
//	poseidon_many          = the Poseidon sponge (rate 2, padding 1 0*)
//	starknet_keccak(s)     = keccak256(s) mod 2^250
//
//	resource bound element = resource_name (ASCII, 60 bits) << 192 | max_amount (64 bits) << 128 | max_price_per_unit (128 bits)
//	                         names: "L1_GAS", "L2_GAS", "L1_DATA"
//	fee fields hash        = poseidon_many(tip, L1_GAS element, L2_GAS element [, L1_DATA element])
//	                         the third element belongs to the preimage exactly when the transaction carries an
//	                         l1_data_gas bound (every transaction created under 0.13.4+; never before) - WHATEVER its
//	                         value: an element of an all-zero bound is still non-zero (it carries the name);
//	                         L1_GAS and L2_GAS elements are always part of the preimage
//	da modes               = nonce_data_availability_mode << 32 | fee_data_availability_mode
//	v3 common              = prefix, version, address, fee fields hash, poseidon_many(paymaster_data), chain_id, nonce, da modes
//	INVOKE v3              = poseidon_many(common, poseidon_many(account_deployment_data), poseidon_many(calldata)
//	                         [, poseidon_many(proof_facts)  - 0.14.1, only when there are proof facts])
//	DECLARE v3             = poseidon_many(common, poseidon_many(account_deployment_data), class_hash, compiled_class_hash)
//	DEPLOY_ACCOUNT v3      = poseidon_many(common, poseidon_many(constructor_calldata), class_hash, contract_address_salt)
//	deprecated (v0/v1/v2)  = pedersen_array(prefix, version, address, entry_point_selector | 0, pedersen_array(...), max_fee, chain_id [, nonce [, compiled_class_hash]])
//
//	transaction leaf       = poseidon_many(tx_hash, *signature); under 0.13.2/0.13.3 an empty signature is hashed as [0]
//	event leaf             = poseidon_many(from_address, tx_hash, |keys|, *keys, |data|, *data)
//	receipt leaf           = poseidon_many(tx_hash, actual_fee, messages hash, revert reason hash, 0, l1_gas, l1_data_gas)
//	                         (the l2_gas slot: see the arbitration in spec/chain/MCBlockVerify.tla)
//	  messages hash        = poseidon_many(n, (from_address, to_address, |payload|, *payload)*)
//	  revert reason hash   = starknet_keccak(reason) for a reverted transaction, 0 otherwise
//	commitment             = root of the height-64 Patricia trie (Poseidon) over index -> leaf; no leaves: 0
//	state diff commitment  = poseidon_many("STARKNET_STATE_DIFF0", #updated, (address, class_hash)* sorted  [deployed + replaced],
//	                         #declared, (class_hash, compiled_class_hash)* sorted  [declared + migrated], #deprecated, class_hash* sorted,
//	                         1, 0, #contracts, (address, #entries, (key, value)* sorted)* sorted, #nonces, (address, nonce)* sorted)
//	state diff length      = number of entries of all sections
//	concat counts          = tx_count (64) | event_count (64) | state_diff_length (64) | l1_da_mode (1: BLOB) | 0 (63)
//	block hash 0.13.2      = poseidon_many("STARKNET_BLOCK_HASH0", number, state_root, sequencer, timestamp, concat counts,
//	                         state diff commitment, tx commitment, event commitment, receipt commitment,
//	                         l1_gas_price wei, fri, l1_data_gas_price wei, fri, protocol_version (ASCII), 0, parent_hash)
//	block hash 0.13.4+     = poseidon_many("STARKNET_BLOCK_HASH1", ... receipt commitment,
//	                         poseidon_many("STARKNET_GAS_PRICES0", l1 wei, l1 fri, l1_data wei, l1_data fri, l2 wei, l2 fri),
//	                         protocol_version, 0, parent_hash)
package refimpl

import (
	"errors"
	"fmt"
	"math/big"
	"sort"
	"strconv"
	"strings"

	"github.com/NethermindEth/juno/core"
	"github.com/NethermindEth/juno/core/felt"
	"golang.org/x/crypto/sha3"
)

func u64(v uint64) *felt.Felt { f := feltOfBig(new(big.Int).SetUint64(v)); return &f }

func pedersenArray(elems ...*felt.Felt) felt.Felt {
	var d felt.Felt
	for _, e := range elems {
		d = Pedersen(&d, e)
	}
	return Pedersen(&d, u64(uint64(len(elems))))
}

func ptrs(fs []felt.Felt) []*felt.Felt {
	out := make([]*felt.Felt, len(fs))
	for i := range fs {
		out[i] = &fs[i]
	}
	return out
}

func poseidonMany(elems ...*felt.Felt) felt.Felt { return cur.poseidonMany(elems...) }

// PoseidonMany is poseidon_hash_many under the current primitives.
func PoseidonMany(elems ...*felt.Felt) felt.Felt { return poseidonMany(elems...) }

// StarknetKeccak is keccak256 truncated to 250 bits.
func StarknetKeccak(b []byte) felt.Felt {
	h := sha3.NewLegacyKeccak256()
	h.Write(b)
	x := new(big.Int).SetBytes(h.Sum(nil))
	mask := new(big.Int).Lsh(big.NewInt(1), 250)
	mask.Sub(mask, big.NewInt(1))
	return feltOfBig(x.And(x, mask))
}

// ShortString is the felt of an ASCII string (at most 31 characters).
func ShortString(s string) felt.Felt { return shortString(s) }

// ResourceNames are the protocol's names of the three resources, by the numeric value juno gives them.
var ResourceNames = map[core.Resource]string{core.ResourceL1Gas: "L1_GAS", core.ResourceL2Gas: "L2_GAS", core.ResourceL1DataGas: "L1_DATA"}

// ResourceBoundElem packs one resource bound. The price is a 128-bit quantity; a nil price reads as 0.
func ResourceBoundElem(name string, maxAmount uint64, maxPrice *felt.Felt) (felt.Felt, error) {
	x := new(big.Int).SetBytes([]byte(name))
	x.Lsh(x, 64)
	x.Or(x, new(big.Int).SetUint64(maxAmount))
	x.Lsh(x, 128)
	if maxPrice != nil {
		var p big.Int
		maxPrice.BigInt(&p)
		if p.BitLen() > 128 {
			return felt.Felt{}, fmt.Errorf("max_price_per_unit %s exceeds 128 bits", maxPrice)
		}
		x.Or(x, &p)
	}
	return feltOfBig(x), nil
}

// ErrNoHashRule: the protocol (as juno is allowed to implement it) defines no recomputable hash for the transaction
// (legacy DEPLOY, DECLARE v0, an L1 handler without nonce).
var ErrNoHashRule = errors.New("no recomputable hash")

func versionOf(v *core.TransactionVersion) (*felt.Felt, uint64, error) {
	if v == nil {
		return nil, 0, errors.New("no version")
	}
	f := (*felt.Felt)(v)
	var b big.Int
	f.BigInt(&b)
	q := new(big.Int).Lsh(big.NewInt(1), 128)
	if b.Cmp(q) >= 0 { // query bit: same rules, the version felt is hashed as it is
		b.Sub(&b, q)
	}
	if !b.IsUint64() {
		return nil, 0, fmt.Errorf("version %s", f)
	}
	return f, b.Uint64(), nil
}

func feeFieldsHash(tip uint64, rb map[core.Resource]core.ResourceBounds) (felt.Felt, error) {
	elems := []*felt.Felt{u64(tip)}
	for _, r := range []core.Resource{core.ResourceL1Gas, core.ResourceL2Gas, core.ResourceL1DataGas} {
		b, ok := rb[r]
		if !ok {
			if r == core.ResourceL1DataGas {
				continue // a transaction created before 0.13.4
			}
			return felt.Felt{}, fmt.Errorf("v3 transaction without %s bound", ResourceNames[r])
		}
		e, err := ResourceBoundElem(ResourceNames[r], b.MaxAmount, b.MaxPricePerUnit)
		if err != nil {
			return felt.Felt{}, err
		}
		elems = append(elems, &e)
	}
	return poseidonMany(elems...), nil
}

func daModes(nonceMode, feeMode core.DataAvailabilityMode) *felt.Felt {
	return u64(uint64(nonceMode)<<32 | uint64(feeMode))
}

// TxHash recomputes a transaction hash from the transaction's fields for the chain `chainID`.
func TxHash(tx core.Transaction, chainID *felt.Felt) (felt.Felt, error) {
	zero := &felt.Felt{}
	v3 := func(prefix string, ver, addr *felt.Felt, tip uint64, rb map[core.Resource]core.ResourceBounds, paymaster []felt.Felt,
		nonce *felt.Felt, nonceDA, feeDA core.DataAvailabilityMode, rest ...*felt.Felt) (felt.Felt, error) {
		fee, err := feeFieldsHash(tip, rb)
		if err != nil {
			return felt.Felt{}, err
		}
		p := shortString(prefix)
		pm := poseidonMany(ptrs(paymaster)...)
		elems := append([]*felt.Felt{&p, ver, addr, &fee, &pm, chainID, nonce, daModes(nonceDA, feeDA)}, rest...)
		for i, e := range elems {
			if e == nil {
				return felt.Felt{}, fmt.Errorf("%s v3: element %d of the preimage is missing", prefix, i)
			}
		}
		return poseidonMany(elems...), nil
	}
	legacy := func(prefix string, elems ...*felt.Felt) (felt.Felt, error) {
		p := shortString(prefix)
		all := append([]*felt.Felt{&p}, elems...)
		for i, e := range all {
			if e == nil {
				return felt.Felt{}, fmt.Errorf("%s: element %d of the preimage is missing", prefix, i)
			}
		}
		return pedersenArray(all...), nil
	}
	switch t := tx.(type) {
	case *core.InvokeTransaction:
		ver, n, err := versionOf(t.Version)
		if err != nil {
			return felt.Felt{}, err
		}
		switch n {
		case 0:
			cd := pedersenArray(ptrs(t.CallData)...)
			return legacy("invoke", ver, t.ContractAddress, t.EntryPointSelector, &cd, t.MaxFee, chainID)
		case 1:
			cd := pedersenArray(ptrs(t.CallData)...)
			return legacy("invoke", ver, t.SenderAddress, zero, &cd, t.MaxFee, chainID, t.Nonce)
		case 3:
			acc := poseidonMany(ptrs(t.AccountDeploymentData)...)
			cd := poseidonMany(ptrs(t.CallData)...)
			rest := []*felt.Felt{&acc, &cd}
			if len(t.ProofFacts) > 0 {
				pf := poseidonMany(ptrs(t.ProofFacts)...)
				rest = append(rest, &pf)
			}
			return v3("invoke", ver, t.SenderAddress, t.Tip, t.ResourceBounds, t.PaymasterData, t.Nonce, t.NonceDAMode, t.FeeDAMode, rest...)
		}
		return felt.Felt{}, fmt.Errorf("invoke version %d", n)
	case *core.DeclareTransaction:
		ver, n, err := versionOf(t.Version)
		if err != nil {
			return felt.Felt{}, err
		}
		switch n {
		case 0:
			return felt.Felt{}, ErrNoHashRule
		case 1:
			ch := pedersenArray(t.ClassHash)
			return legacy("declare", ver, t.SenderAddress, zero, &ch, t.MaxFee, chainID, t.Nonce)
		case 2:
			ch := pedersenArray(t.ClassHash)
			return legacy("declare", ver, t.SenderAddress, zero, &ch, t.MaxFee, chainID, t.Nonce, t.CompiledClassHash)
		case 3:
			acc := poseidonMany(ptrs(t.AccountDeploymentData)...)
			return v3("declare", ver, t.SenderAddress, t.Tip, t.ResourceBounds, t.PaymasterData, t.Nonce, t.NonceDAMode, t.FeeDAMode,
				&acc, t.ClassHash, t.CompiledClassHash)
		}
		return felt.Felt{}, fmt.Errorf("declare version %d", n)
	case *core.DeployAccountTransaction:
		ver, n, err := versionOf(t.Version)
		if err != nil {
			return felt.Felt{}, err
		}
		switch n {
		case 1:
			cd := pedersenArray(append([]*felt.Felt{t.ClassHash, t.ContractAddressSalt}, ptrs(t.ConstructorCallData)...)...)
			return legacy("deploy_account", ver, t.ContractAddress, zero, &cd, t.MaxFee, chainID, t.Nonce)
		case 3:
			cd := poseidonMany(ptrs(t.ConstructorCallData)...)
			return v3("deploy_account", ver, t.ContractAddress, t.Tip, t.ResourceBounds, t.PaymasterData, t.Nonce, t.NonceDAMode, t.FeeDAMode,
				&cd, t.ClassHash, t.ContractAddressSalt)
		}
		return felt.Felt{}, fmt.Errorf("deploy_account version %d", n)
	case *core.L1HandlerTransaction:
		ver, n, err := versionOf(t.Version)
		if err != nil {
			return felt.Felt{}, err
		}
		if n != 0 {
			return felt.Felt{}, fmt.Errorf("l1_handler version %d", n)
		}
		if t.Nonce == nil {
			return felt.Felt{}, ErrNoHashRule
		}
		cd := pedersenArray(ptrs(t.CallData)...)
		return legacy("l1_handler", ver, t.ContractAddress, t.EntryPointSelector, &cd, zero, chainID, t.Nonce)
	case *core.DeployTransaction:
		return felt.Felt{}, ErrNoHashRule
	}
	return felt.Felt{}, fmt.Errorf("unknown transaction type %T", tx)
}

// versionAtLeast compares dotted protocol versions numerically ("0.13.4" <= "0.14.0").
func versionAtLeast(v, min string) (bool, error) {
	parse := func(s string) ([]int, error) {
		var out []int
		for _, p := range strings.Split(s, ".") {
			n, err := strconv.Atoi(p)
			if err != nil {
				return nil, fmt.Errorf("protocol version %q", s)
			}
			out = append(out, n)
		}
		for len(out) < 3 {
			out = append(out, 0)
		}
		return out, nil
	}
	a, err := parse(v)
	if err != nil {
		return false, err
	}
	b, _ := parse(min)
	for i := 0; i < 3; i++ {
		if a[i] != b[i] {
			return a[i] > b[i], nil
		}
	}
	return true, nil
}

// TxLeaf is the leaf of the transaction commitment.
func TxLeaf(hash *felt.Felt, signature []felt.Felt, since0134 bool) felt.Felt {
	elems := append([]*felt.Felt{hash}, ptrs(signature)...)
	if len(signature) == 0 && !since0134 {
		elems = append(elems, &felt.Felt{})
	}
	return poseidonMany(elems...)
}

// EventLeaf is the leaf of the event commitment.
func EventLeaf(e *core.Event, txHash *felt.Felt) felt.Felt {
	elems := []*felt.Felt{e.From, txHash, u64(uint64(len(e.Keys)))}
	elems = append(elems, ptrs(e.Keys)...)
	elems = append(elems, u64(uint64(len(e.Data))))
	elems = append(elems, ptrs(e.Data)...)
	return poseidonMany(elems...)
}

// MessagesHash is the hash of the L2->L1 messages of a receipt.
func MessagesHash(msgs []*core.L2ToL1Message) felt.Felt {
	elems := []*felt.Felt{u64(uint64(len(msgs)))}
	for _, m := range msgs {
		to := feltOfBig(new(big.Int).SetBytes(m.To[:]))
		elems = append(elems, m.From, &to, u64(uint64(len(m.Payload))))
		elems = append(elems, ptrs(m.Payload)...)
	}
	return poseidonMany(elems...)
}

// ReceiptLeaf is the leaf of the receipt commitment.
func ReceiptLeaf(r *core.TransactionReceipt) felt.Felt {
	reason := felt.Felt{}
	if r.Reverted {
		reason = StarknetKeccak([]byte(r.RevertReason))
	}
	var l1, l1data uint64
	if r.ExecutionResources != nil && r.ExecutionResources.TotalGasConsumed != nil {
		l1, l1data = r.ExecutionResources.TotalGasConsumed.L1Gas, r.ExecutionResources.TotalGasConsumed.L1DataGas
	}
	mh := MessagesHash(r.L2ToL1Message)
	return poseidonMany(r.TransactionHash, r.Fee, &mh, &reason, &felt.Felt{}, u64(l1), u64(l1data))
}

// ListCommitment is the root of the height-64 Poseidon Patricia trie over index -> leaf.
func ListCommitment(leaves []felt.Felt) felt.Felt {
	kv := KV{}
	for i, l := range leaves {
		kv[strconv.Itoa(i)] = l
	}
	return Root(kv, 64, Poseidon)
}

func sortedFelts[V any](m map[felt.Felt]V) []felt.Felt {
	ks := make([]felt.Felt, 0, len(m))
	for k := range m {
		ks = append(ks, k)
	}
	sort.Slice(ks, func(i, j int) bool { return ks[i].Cmp(&ks[j]) < 0 })
	return ks
}

// StateDiffCommitment returns the commitment and the length of a state diff.
func StateDiffCommitment(d *core.StateDiff) (felt.Felt, uint64) {
	tag := shortString("STARKNET_STATE_DIFF0")
	elems := []*felt.Felt{&tag}
	var length uint64
	pairs := func(m map[felt.Felt]*felt.Felt) {
		for _, k := range sortedFelts(m) {
			k := k
			elems = append(elems, &k, m[k])
		}
	}
	// updated contracts: deployed and replaced, one list
	upd := map[felt.Felt]*felt.Felt{}
	for k, v := range d.DeployedContracts {
		upd[k] = v
	}
	for k, v := range d.ReplacedClasses {
		upd[k] = v
	}
	n := uint64(len(d.DeployedContracts) + len(d.ReplacedClasses))
	length += n
	elems = append(elems, u64(n))
	pairs(upd)
	// declared classes: declared and migrated, one list
	decl := map[felt.Felt]*felt.Felt{}
	for k, v := range d.DeclaredV1Classes {
		decl[k] = v
	}
	for k, v := range d.MigratedClasses {
		v := felt.Felt(v)
		decl[felt.Felt(k)] = &v
	}
	n = uint64(len(d.DeclaredV1Classes) + len(d.MigratedClasses))
	length += n
	elems = append(elems, u64(n))
	pairs(decl)
	// deprecated declared classes
	old := make([]felt.Felt, 0, len(d.DeclaredV0Classes))
	for _, h := range d.DeclaredV0Classes {
		old = append(old, *h)
	}
	sort.Slice(old, func(i, j int) bool { return old[i].Cmp(&old[j]) < 0 })
	length += uint64(len(old))
	elems = append(elems, u64(uint64(len(old))))
	elems = append(elems, ptrs(old)...)
	elems = append(elems, u64(1), u64(0))
	// storage
	elems = append(elems, u64(uint64(len(d.StorageDiffs))))
	for _, a := range sortedFelts(d.StorageDiffs) {
		a := a
		elems = append(elems, &a, u64(uint64(len(d.StorageDiffs[a]))))
		pairs(d.StorageDiffs[a])
		length += uint64(len(d.StorageDiffs[a]))
	}
	// nonces
	elems = append(elems, u64(uint64(len(d.Nonces))))
	pairs(d.Nonces)
	length += uint64(len(d.Nonces))
	return poseidonMany(elems...), length
}

// ConcatCounts packs the three counts and the L1 DA mode.
func ConcatCounts(txCount, eventCount, sdLength uint64, blob bool) felt.Felt {
	x := new(big.Int).SetUint64(txCount)
	x.Lsh(x, 64).Or(x, new(big.Int).SetUint64(eventCount))
	x.Lsh(x, 64).Or(x, new(big.Int).SetUint64(sdLength))
	x.Lsh(x, 1)
	if blob {
		x.Or(x, big.NewInt(1))
	}
	x.Lsh(x, 63)
	return feltOfBig(x)
}

// BlockHashParts is the reference's view of a block: the hash and everything it was computed from.
type BlockHashParts struct {
	Hash, TxCommitment, EventCommitment, ReceiptCommitment, StateDiffCommitment, ConcatCounts felt.Felt
	StateDiffLength                                                                             uint64
}

// Differs names the first component in which the code's commitments differ from the reference's ("" = none).
func (p *BlockHashParts) Differs(c *core.BlockCommitments) string {
	switch {
	case c == nil:
		return "no-commitments"
	case c.TransactionCommitment == nil || !c.TransactionCommitment.Equal(&p.TxCommitment):
		return "transaction-commitment"
	case c.EventCommitment == nil || !c.EventCommitment.Equal(&p.EventCommitment):
		return "event-commitment"
	case c.ReceiptCommitment == nil || !c.ReceiptCommitment.Equal(&p.ReceiptCommitment):
		return "receipt-commitment"
	case c.StateDiffCommitment == nil || !c.StateDiffCommitment.Equal(&p.StateDiffCommitment):
		return "state-diff-commitment"
	case c.StateDiffLength != p.StateDiffLength:
		return "state-diff-length"
	}
	return ""
}

// BlockHash computes the hash of a block of format 0.13.2 or later from its header fields (number, parent hash,
// state root, sequencer, timestamp, counts, prices, L1 DA mode, protocol version), its transactions' hashes and
// signatures, its receipts and the state diff.
func BlockHash(b *core.Block, d *core.StateDiff) (*BlockHashParts, error) {
	since0132, err := versionAtLeast(b.ProtocolVersion, "0.13.2")
	if err != nil {
		return nil, err
	}
	if !since0132 {
		return nil, fmt.Errorf("refimpl.BlockHash: format %s is older than 0.13.2", b.ProtocolVersion)
	}
	since0134, _ := versionAtLeast(b.ProtocolVersion, "0.13.4")
	if len(b.Transactions) != len(b.Receipts) {
		return nil, fmt.Errorf("%d transactions, %d receipts", len(b.Transactions), len(b.Receipts))
	}
	p := &BlockHashParts{}
	var txl, evl, rcl []felt.Felt
	for i, tx := range b.Transactions {
		if tx.Hash() == nil {
			return nil, fmt.Errorf("transaction %d has no hash", i)
		}
		txl = append(txl, TxLeaf(tx.Hash(), tx.Signature(), since0134))
		r := b.Receipts[i]
		for _, e := range r.Events {
			evl = append(evl, EventLeaf(e, r.TransactionHash))
		}
		rcl = append(rcl, ReceiptLeaf(r))
	}
	p.TxCommitment, p.EventCommitment, p.ReceiptCommitment = ListCommitment(txl), ListCommitment(evl), ListCommitment(rcl)
	p.StateDiffCommitment, p.StateDiffLength = StateDiffCommitment(d)
	p.ConcatCounts = ConcatCounts(b.TransactionCount, b.EventCount, p.StateDiffLength, b.L1DAMode == core.Blob)
	ver := feltOfBig(new(big.Int).SetBytes([]byte(b.ProtocolVersion)))
	price := func(gp *core.GasPrice, fri bool) (*felt.Felt, error) {
		if gp == nil {
			return nil, errors.New("missing gas price")
		}
		f := gp.PriceInWei
		if fri {
			f = gp.PriceInFri
		}
		if f == nil {
			return nil, errors.New("missing gas price")
		}
		return f, nil
	}
	l1 := &core.GasPrice{PriceInWei: b.L1GasPriceETH, PriceInFri: b.L1GasPriceSTRK}
	var prices []*felt.Felt
	for i, gp := range []*core.GasPrice{l1, b.L1DataGasPrice, b.L2GasPrice} {
		if i == 2 && !since0134 {
			break // the L2 gas price exists from 0.13.4 on
		}
		for _, fri := range []bool{false, true} {
			f, err := price(gp, fri)
			if err != nil {
				return nil, err
			}
			prices = append(prices, f)
		}
	}
	for _, f := range []*felt.Felt{b.GlobalStateRoot, b.SequencerAddress, b.ParentHash} {
		if f == nil {
			return nil, errors.New("missing header field")
		}
	}
	head := []*felt.Felt{u64(b.Number), b.GlobalStateRoot, b.SequencerAddress, u64(b.Timestamp), &p.ConcatCounts,
		&p.StateDiffCommitment, &p.TxCommitment, &p.EventCommitment, &p.ReceiptCommitment}
	tail := []*felt.Felt{&ver, {}, b.ParentHash}
	var elems []*felt.Felt
	if since0134 {
		tag, ptag := shortString("STARKNET_BLOCK_HASH1"), shortString("STARKNET_GAS_PRICES0")
		ph := poseidonMany(append([]*felt.Felt{&ptag}, prices...)...)
		elems = append(append([]*felt.Felt{&tag}, head...), &ph)
	} else {
		tag := shortString("STARKNET_BLOCK_HASH0")
		elems = append(append([]*felt.Felt{&tag}, head...), prices...)
	}
	p.Hash = poseidonMany(append(elems, tail...)...)
	return p, nil
}


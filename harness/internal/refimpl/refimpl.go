// Package refimpl is an INDEPENDENT reference of the Starknet commitment definitions, written from
// the protocol documentation (docs.starknet.io, "Starknet state" / "Merkle-Patricia trie"):
//
//   - a trie of height h maps h-bit keys to felts; value 0 means "absent"; the empty trie commits to 0;
//   - a node is a triple (length, path, bottom); hash(node) = H(bottom, path) + length for length > 0
//     (an "edge": `length` bits `path` lead to the only non-empty subtree `bottom`), and
//     hash(node) = H(left, right) for a "binary" node (both subtrees non-empty); a leaf commits to its value;
//   - contract leaf = pedersen(pedersen(pedersen(class_hash, storage_root), nonce), 0);
//   - class leaf = poseidon("CONTRACT_CLASS_LEAF_V0", compiled_class_hash);
//   - state commitment = poseidon("STARKNET_STATE_V0", contracts_root, classes_root); before Starknet
//     0.14.0 a state without declared Sierra classes (classes_root = 0) commits to contracts_root alone;
//     the state with both roots zero commits to 0.
//
// Only the hash primitives (core/crypto) and the field type (core/felt) are taken from juno; nothing
// in here uses core/trie, core/trie2, BitArray/Path or core/state.
//
// The hash primitives are switchable: by default they are juno's core/crypto (fast; what the engines of
// other families use), and UseIndependent() replaces them, for the calling engine, by the references of
// harness/internal/refcrypto (gnark-crypto's Pedersen cross-validated against a textbook math/big
// evaluation, Hades/Poseidon from derived round constants) so that nothing of the code under test is
// trusted (C01). WithJuno evaluates a function under juno's primitives to LOCALISE a divergence: a root
// that differs from the independent reference but equals the reference built on core/crypto is a defect
// of the primitive, not of the trie.
package refimpl

import (
	"errors"
	"fmt"
	"math/big"
	"sort"

	"github.com/NethermindEth/juno/core/crypto"
	"github.com/NethermindEth/juno/core/felt"

	"verifharness/internal/refcrypto"
)

type HashFn func(a, b *felt.Felt) felt.Felt

// prims is the set of hash primitives the reference is evaluated with.
type prims struct {
	pedersen, poseidon HashFn
	poseidonMany       func(elems ...*felt.Felt) felt.Felt
}

var (
	junoPrims = prims{
		pedersen:     func(a, b *felt.Felt) felt.Felt { return crypto.Pedersen(a, b) },
		poseidon:     func(a, b *felt.Felt) felt.Felt { return crypto.Poseidon(a, b) },
		poseidonMany: func(elems ...*felt.Felt) felt.Felt { return crypto.PoseidonElems(elems...) },
	}
	independentPrims = prims{pedersen: refcrypto.PedersenFast, poseidon: refcrypto.Poseidon, poseidonMany: refcrypto.PoseidonMany}
	cur              = junoPrims
)

// UseIndependent switches the reference to the independent primitives (after their self test) and
// returns the function that restores the previous setting. Not safe for concurrent use with the
// reference functions (engines are sequential).
func UseIndependent() (restore func(), err error) {
	if err := refcrypto.SelfTest(); err != nil {
		return func() {}, err
	}
	prev, prevInd := cur, independent
	cur, independent = independentPrims, true
	return func() { cur, independent = prev, prevInd }, nil
}

// Independent reports whether the independent primitives are in use.
func Independent() bool { return independent }

var independent bool

// WithJuno evaluates f with juno's core/crypto primitives, whatever the current setting.
func WithJuno(f func()) {
	prev, prevInd := cur, independent
	cur, independent = junoPrims, false
	defer func() { cur, independent = prev, prevInd }()
	f()
}

func Pedersen(a, b *felt.Felt) felt.Felt { return cur.pedersen(a, b) }
func Poseidon(a, b *felt.Felt) felt.Felt { return cur.poseidon(a, b) }

// KV is a key/value set; keys are non-negative integers < 2^height.
type KV map[string]felt.Felt // key: decimal string of the integer key (map keys must be comparable)

func Key(k *big.Int) string { return k.String() }

type entry struct {
	k *big.Int
	v felt.Felt
}

func sorted(kv KV) []entry {
	es := make([]entry, 0, len(kv))
	for ks, v := range kv {
		if v.IsZero() {
			continue // zero = absent
		}
		k, ok := new(big.Int).SetString(ks, 10)
		if !ok {
			panic("refimpl: bad key " + ks)
		}
		es = append(es, entry{k, v})
	}
	sort.Slice(es, func(i, j int) bool { return es[i].k.Cmp(es[j].k) < 0 })
	return es
}

func feltOfBig(b *big.Int) felt.Felt {
	var f felt.Felt
	f.SetBigInt(b)
	return f
}

// bitsValue returns the integer formed by bits [from, to) of key (bit 0 = most significant of `height`).
func bitsValue(k *big.Int, height, from, to uint) *big.Int {
	x := new(big.Int).Rsh(k, height-to)
	mask := new(big.Int).Lsh(big.NewInt(1), to-from)
	mask.Sub(mask, big.NewInt(1))
	return x.And(x, mask)
}

// ProtoNode is a node of the protocol's sparse trie (binary XOR edge).
type ProtoNode struct {
	Kind   string    // "binary" | "edge"
	Hash   felt.Felt // commitment of this node
	Left   felt.Felt // binary
	Right  felt.Felt // binary
	Child  felt.Felt // edge: bottom
	Path   *big.Int  // edge: path bits as an integer
	Length uint      // edge: number of path bits
	Depth  uint      // number of key bits consumed before this node
}

// commit returns the commitment of the subtree that holds es (sorted, all sharing their first `depth`
// bits) as seen by a parent at `depth`; visit (optional) is called for every protocol node, top-down.
func commit(es []entry, height, depth uint, h HashFn, visit func(ProtoNode)) felt.Felt {
	if len(es) == 0 {
		return felt.Zero
	}
	if depth == height {
		return es[0].v
	}
	// how far do all keys agree beyond depth?
	first, last := es[0].k, es[len(es)-1].k
	agree := depth
	for agree < height && first.Bit(int(height-1-agree)) == last.Bit(int(height-1-agree)) {
		agree++
	}
	if agree > depth { // edge node of length agree-depth
		n := ProtoNode{Kind: "edge", Length: agree - depth, Path: bitsValue(first, height, depth, agree), Depth: depth}
		// hash needs the bottom first; visit order is fixed up by the caller collecting into a slice
		var sub []ProtoNode
		n.Child = commit(es, height, agree, h, collect(&sub, visit))
		pf := feltOfBig(n.Path)
		hh := h(&n.Child, &pf)
		lf := feltOfBig(new(big.Int).SetUint64(uint64(n.Length)))
		n.Hash.Add(&hh, &lf)
		if visit != nil {
			visit(n)
			for _, s := range sub {
				visit(s)
			}
		}
		return n.Hash
	}
	// binary node: split on bit `depth`
	split := sort.Search(len(es), func(i int) bool { return es[i].k.Bit(int(height-1-depth)) == 1 })
	n := ProtoNode{Kind: "binary", Depth: depth}
	var subL, subR []ProtoNode
	n.Left = commit(es[:split], height, depth+1, h, collect(&subL, visit))
	n.Right = commit(es[split:], height, depth+1, h, collect(&subR, visit))
	n.Hash = h(&n.Left, &n.Right)
	if visit != nil {
		visit(n)
		for _, s := range subL {
			visit(s)
		}
		for _, s := range subR {
			visit(s)
		}
	}
	return n.Hash
}

func collect(dst *[]ProtoNode, visit func(ProtoNode)) func(ProtoNode) {
	if visit == nil {
		return nil
	}
	return func(n ProtoNode) { *dst = append(*dst, n) }
}

// Root is the commitment of the trie of the given height holding kv.
func Root(kv KV, height uint, h HashFn) felt.Felt {
	return commit(sorted(kv), height, 0, h, nil)
}

// Nodes returns every protocol node of the trie, parents before children.
func Nodes(kv KV, height uint, h HashFn) []ProtoNode {
	var out []ProtoNode
	commit(sorted(kv), height, 0, h, func(n ProtoNode) { out = append(out, n) })
	return out
}

// ProofPath returns the protocol nodes met when walking from the root towards key, in order, until the
// key's leaf is reached or the walk leaves the key's path (proof of absence). This is what a membership
// proof must contain.
func ProofPath(kv KV, height uint, h HashFn, key *big.Int) []ProtoNode {
	byHash := map[felt.Felt]ProtoNode{}
	for _, n := range Nodes(kv, height, h) {
		byHash[n.Hash] = n
	}
	var out []ProtoNode
	cur := Root(kv, height, h)
	depth := uint(0)
	for depth < height {
		n, ok := byHash[cur]
		if !ok {
			break
		}
		out = append(out, n)
		if n.Kind == "binary" {
			if key.Bit(int(height-1-depth)) == 1 {
				cur = n.Right
			} else {
				cur = n.Left
			}
			depth++
			continue
		}
		if bitsValue(key, height, depth, depth+n.Length).Cmp(n.Path) != 0 {
			break
		}
		cur = n.Child
		depth += n.Length
	}
	return out
}

var ErrInvalidProof = errors.New("refimpl: invalid proof")

// Verify is an independent membership / non-membership verifier: given a trusted root and a set of
// claimed nodes, it returns the value bound to key (zero = proven absent) or an error. Every node
// is re-hashed; nothing is taken on trust.
func Verify(root felt.Felt, key *big.Int, height uint, nodes []ProtoNode, h HashFn) (felt.Felt, error) {
	if root.IsZero() {
		return felt.Zero, nil // the empty trie binds every key to zero
	}
	byHash := map[felt.Felt]ProtoNode{}
	for _, n := range nodes {
		var got felt.Felt
		switch n.Kind {
		case "binary":
			got = h(&n.Left, &n.Right)
		case "edge":
			if n.Length == 0 || n.Length > height || n.Path == nil || n.Path.BitLen() > int(n.Length) {
				return felt.Zero, fmt.Errorf("%w: malformed edge", ErrInvalidProof)
			}
			pf := feltOfBig(n.Path)
			hh := h(&n.Child, &pf)
			lf := feltOfBig(new(big.Int).SetUint64(uint64(n.Length)))
			got.Add(&hh, &lf)
		default:
			return felt.Zero, fmt.Errorf("%w: unknown node kind %q", ErrInvalidProof, n.Kind)
		}
		byHash[got] = n // keyed by the hash WE computed
	}
	cur := root
	depth := uint(0)
	for depth < height {
		n, ok := byHash[cur]
		if !ok {
			return felt.Zero, fmt.Errorf("%w: node %s missing at depth %d", ErrInvalidProof, cur.String(), depth)
		}
		if n.Kind == "binary" {
			if key.Bit(int(height-1-depth)) == 1 {
				cur = n.Right
			} else {
				cur = n.Left
			}
			depth++
			continue
		}
		if depth+n.Length > height {
			return felt.Zero, fmt.Errorf("%w: edge overruns the key", ErrInvalidProof)
		}
		if bitsValue(key, height, depth, depth+n.Length).Cmp(n.Path) != 0 {
			return felt.Zero, nil // authenticated divergence: the key is absent
		}
		cur = n.Child
		depth += n.Length
	}
	return cur, nil
}

// ---------------------------------------------------------------------------- state commitment

func shortString(s string) felt.Felt {
	return feltOfBig(new(big.Int).SetBytes([]byte(s)))
}

// ContractLeaf is the value stored in the contracts trie under the contract address.
func ContractLeaf(classHash, storageRoot, nonce *felt.Felt) felt.Felt {
	a := Pedersen(classHash, storageRoot)
	b := Pedersen(&a, nonce)
	zero := felt.Zero
	return Pedersen(&b, &zero)
}

// ClassLeaf is the value stored in the classes trie under the (Sierra) class hash.
func ClassLeaf(compiledClassHash *felt.Felt) felt.Felt {
	tag := shortString("CONTRACT_CLASS_LEAF_V0")
	return Poseidon(&tag, compiledClassHash)
}

// StateCommitment combines the two roots; since0140 selects the formula of Starknet >= 0.14.0.
func StateCommitment(contractsRoot, classesRoot *felt.Felt, since0140 bool) felt.Felt {
	if contractsRoot.IsZero() && classesRoot.IsZero() {
		return felt.Zero
	}
	if classesRoot.IsZero() && !since0140 {
		return *contractsRoot
	}
	tag := shortString("STARKNET_STATE_V0")
	return cur.poseidonMany(&tag, contractsRoot, classesRoot)
}

// Contract is the abstract per-contract record of the model state.
type Contract struct {
	ClassHash felt.Felt
	Nonce     felt.Felt
	Storage   KV
}

// State is the abstract Starknet state: deployed contracts and declared (Sierra) classes.
type State struct {
	Contracts map[string]*Contract // address (decimal) -> record
	Classes   KV                   // class hash -> compiled class hash
}

const StateTrieHeight = 251

// GlobalRoot is the protocol-defined commitment of an abstract state.
func GlobalRoot(s *State, since0140 bool) felt.Felt {
	contracts := KV{}
	for addr, c := range s.Contracts {
		sr := Root(c.Storage, StateTrieHeight, Pedersen)
		contracts[addr] = ContractLeaf(&c.ClassHash, &sr, &c.Nonce)
	}
	classes := KV{}
	for ch, compiled := range s.Classes {
		classes[ch] = ClassLeaf(&compiled)
	}
	cr := Root(contracts, StateTrieHeight, Pedersen)
	clr := Root(classes, StateTrieHeight, Poseidon)
	return StateCommitment(&cr, &clr, since0140)
}

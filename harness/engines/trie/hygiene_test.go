// Shared hygiene helpers of engine "trie": a POISONING key-value store (every value lent to a Get
// callback is a private copy that is scribbled over as soon as the callback returns, so code that keeps
// a lent buffer instead of copying it reads garbage - on Pebble the buffer is only valid inside the
// callback), panic guards that turn a crash caused by the real code into a keyed divergence, and result
// flushing so that a later hang of the real code cannot lose an already recorded divergence.
package trie

import (
	"fmt"
	"runtime/debug"

	"github.com/NethermindEth/juno/db"

	"verifharness/internal/vh"
)

func lend(cb func([]byte) error) func([]byte) error {
	return func(v []byte) error {
		c := make([]byte, len(v))
		copy(c, v)
		err := cb(c)
		for i := range c {
			c[i] = 0xA5 // scribble: the buffer is no longer valid
		}
		return err
	}
}

type poisonStore struct{ db.KeyValueStore }

func newPoisonStore(inner db.KeyValueStore) db.KeyValueStore { return &poisonStore{inner} }

func (p *poisonStore) Get(key []byte, cb func([]byte) error) error {
	return p.KeyValueStore.Get(key, lend(cb))
}
func (p *poisonStore) NewIndexedBatch() db.IndexedBatch {
	return &poisonBatch{p.KeyValueStore.NewIndexedBatch()}
}
func (p *poisonStore) NewIndexedBatchWithSize(n int) db.IndexedBatch {
	return &poisonBatch{p.KeyValueStore.NewIndexedBatchWithSize(n)}
}
func (p *poisonStore) NewSnapshot() db.Snapshot { return &poisonSnap{p.KeyValueStore.NewSnapshot()} }

type poisonBatch struct{ db.IndexedBatch }

func (b *poisonBatch) Get(key []byte, cb func([]byte) error) error {
	return b.IndexedBatch.Get(key, lend(cb))
}

type poisonSnap struct{ db.Snapshot }

func (s *poisonSnap) Get(key []byte, cb func([]byte) error) error {
	return s.Snapshot.Get(key, lend(cb))
}

// diverge records a divergence and flushes the result file at once.
func diverge(out *vh.Result, d vh.Divergence) {
	out.Diverge(d)
	_ = out.Write()
}

// guard is deferred (before out.Write) by every test: a panic that escapes the per-step recovers is a
// failure of the real code on an input the specification allows.
func guard(out *vh.Result, test string, input any) {
	if p := recover(); p != nil {
		out.Diverge(vh.Divergence{Key: "crash:" + test, What: fmt.Sprintf("the real code panicked in %s: %v", test, p),
			Input: input, Observed: string(debug.Stack())})
	}
}

// TestSharedProofSets (C10): proof SETS shared between the keys of one request (spec/trie/Proof.tla "shared proof
// sets", ProofSet.tla SharedSetComplete / SharedSetIsUnion; ProofMBT.tla Graft / Multi steps).
//
// No caller of the real Prove hands the result of ONE call to a verifier: rpc/v{8,9,10}/storage.go and both
// GetRangeProof create one ProofNodeSet per trie and call Prove(key, set) once per requested key, in request
// order. A node is identified in that set by its HASH, not by its position, so a trie with two equal sub-tries
// at different positions (equal values under different keys) contributes the same nodes from both while the
// edges that lead to them differ. This test builds such tries (TLC behaviours whose Graft steps copy a sub-trie
// to another prefix, and directed families lifted from TLC's counterexample to the "skip-known-child" mutant:
// keys 000 001 110 111 -> a b a b, request <<000, 110>>), fills ONE set exactly as the handlers do, in EVERY order
// of the request, with the legacy trie (Pedersen and Poseidon), the in-memory trie2 and the database-loaded
// trie2, at height 251 (embedding) and at small heights, and demands for every key of the request:
//   - the real VerifyProof (height 251 only: both verifiers hard-code it) establishes the key's value / absence;
//   - the independent refimpl.Verify establishes it from the same nodes (any height);
//   - the set holds exactly the nodes of the single-key proofs of its keys, each unaltered, whatever the order.
package trie

import (
	"fmt"
	"math/big"
	"math/rand"
	"sort"
	"strings"
	gosync "sync"
	"testing"

	"github.com/NethermindEth/juno/core/crypto"
	"github.com/NethermindEth/juno/core/felt"
	"github.com/NethermindEth/juno/core/trie"
	"github.com/NethermindEth/juno/core/trie2"
	"github.com/NethermindEth/juno/core/trie2/trienode"

	"verifharness/internal/refimpl"
	"verifharness/internal/vh"
)

type mAction struct {
	Name   string  `json:"name"`
	Impl   string  `json:"impl,omitempty"`
	Cached bool    `json:"cached,omitempty"`
	Req    [][]int `json:"req,omitempty"`
}

type mStep struct {
	A      mAction  `json:"a"`
	Outs   []pOut   `json:"outs,omitempty"`
	Truths []int    `json:"truths,omitempty"`
	Shape  []pShape `json:"shape,omitempty"`
	Twins  int      `json:"twins,omitempty"`
	P      []presKV `json:"pres"`
}

// sharedCase is one key/value set with one request, fully concrete (a replay file holds exactly one).
type sharedCase struct {
	V         variant  `json:"variant"`
	MaxV      int      `json:"maxv"`
	P         []presKV `json:"pres"`
	Req       [][]int  `json:"req"`
	Impl      string   `json:"impl,omitempty"` // "legacy" | "trie2" | "" (both)
	Cached    bool     `json:"cached"`
	AllOrders bool     `json:"allOrders"`
	Bins      int      `json:"bins"` // binary nodes in the model's set (-1: not given)
	Origin    string   `json:"origin"`
}

type sharedInput struct {
	H          int          `json:"h"`
	MaxV       int          `json:"maxv"`
	Behaviours [][]mStep    `json:"behaviours,omitempty"`
	Directed   bool         `json:"directed,omitempty"`
	Cases      []sharedCase `json:"cases,omitempty"`
}

// ------------------------------------------------------------------ one filled set, seen through one interface

type setEntry struct {
	hash   felt.Felt
	render string
}

type filledSet struct {
	entries []setEntry
	proto   []refimpl.ProtoNode
	bins    int
	verify  func(key *felt.Felt) (felt.Felt, error) // the real verifier on this very set
}

type setProver struct {
	name string // "legacy" | "trie2:mem" | "trie2:db"
	impl string
	fill func(keys []*felt.Felt) (*filledSet, error)
}

func renderBits(val *big.Int, n int) string { return fmt.Sprintf("%s/%d", val.Text(2), n) }

func legacyProver(bt *builtTries, hf crypto.HashFn) setProver {
	return setProver{name: "legacy", impl: "legacy", fill: func(keys []*felt.Felt) (*filledSet, error) {
		// rpc/v10/storage.go getClassProof / getContractProofWithDeprecatedTrie / getContractStorageProof
		ps := trie.NewProofNodeSet()
		for _, k := range keys {
			if err := bt.leg.Prove(k, ps); err != nil {
				return nil, err
			}
		}
		fs := &filledSet{verify: func(key *felt.Felt) (felt.Felt, error) { return trie.VerifyProof(&bt.root, key, ps, hf) }}
		hashes, nodes := ps.Keys(), ps.List()
		for i, n := range nodes {
			switch x := n.(type) {
			case *trie.Binary:
				fs.bins++
				fs.entries = append(fs.entries, setEntry{hashes[i], "B(" + x.LeftHash.String() + "," + x.RightHash.String() + ")"})
				fs.proto = append(fs.proto, refimpl.ProtoNode{Kind: "binary", Left: *x.LeftHash, Right: *x.RightHash})
			case *trie.Edge:
				val, ln := bigOfPath(x.Path)
				fs.entries = append(fs.entries, setEntry{hashes[i], "E(" + x.Child.String() + "," + renderBits(val, ln) + ")"})
				fs.proto = append(fs.proto, refimpl.ProtoNode{Kind: "edge", Child: *x.Child, Path: val, Length: uint(ln)})
			default:
				return nil, fmt.Errorf("unknown proof node %T", n)
			}
		}
		return fs, nil
	}}
}

func t2Prover(name string, tr *trie2.Trie, root *felt.Felt, hf crypto.HashFn) setProver {
	return setProver{name: name, impl: "trie2", fill: func(keys []*felt.Felt) (*filledSet, error) {
		// rpc/v10/storage.go getClassProof / getContractProofWithTrie / getContractStorageProof
		ps := trie2.NewProofNodeSet()
		for _, k := range keys {
			if err := tr.Prove(k, ps); err != nil {
				return nil, err
			}
		}
		fs := &filledSet{verify: func(key *felt.Felt) (felt.Felt, error) { return trie2.VerifyProof(root, key, ps, hf) }}
		hashes, nodes := ps.Keys(), ps.List()
		for i, n := range nodes {
			switch x := n.(type) {
			case *trienode.BinaryNode:
				fs.bins++
				l, r := t2ChildHash(x.Children[0]), t2ChildHash(x.Children[1])
				fs.entries = append(fs.entries, setEntry{hashes[i], "B(" + l.String() + "," + r.String() + ")"})
				fs.proto = append(fs.proto, refimpl.ProtoNode{Kind: "binary", Left: *l, Right: *r})
			case *trienode.EdgeNode:
				f := x.Path.Felt()
				c := t2ChildHash(x.Child)
				fs.entries = append(fs.entries, setEntry{hashes[i], "E(" + c.String() + "," + renderBits(bigOf(&f), int(x.Path.Len())) + ")"})
				fs.proto = append(fs.proto, refimpl.ProtoNode{Kind: "edge", Child: *c, Path: bigOf(&f), Length: uint(x.Path.Len())})
			default:
				return nil, fmt.Errorf("unknown proof node %T", n)
			}
		}
		return fs, nil
	}}
}

// ------------------------------------------------------------------ running one case

type sharedFinding struct {
	key, what string
	exp, obs  any
	order     [][]int
	impl      string
}

func bitsKey(b []int) string { return fmt.Sprint(b) }

func permutations(n int) [][]int {
	var out [][]int
	idx := make([]int, n)
	for i := range idx {
		idx[i] = i
	}
	var rec func(k int)
	rec = func(k int) {
		if k == n {
			out = append(out, append([]int{}, idx...))
			return
		}
		for i := k; i < n; i++ {
			idx[k], idx[i] = idx[i], idx[k]
			rec(k + 1)
			idx[k], idx[i] = idx[i], idx[k]
		}
	}
	rec(0)
	return out
}

func safely[T any](f func() (T, error)) (res T, err error, panicked string) {
	defer func() {
		if p := recover(); p != nil {
			panicked = fmt.Sprint(p)
		}
	}()
	res, err = f()
	return
}

// runSharedCase returns the findings of one case (at most one per key and order) and the number of verifications.
func runSharedCase(c *sharedCase, counts map[string]int, mu *gosync.Mutex) (finds []sharedFinding, nver int) {
	count := func(k string, n int) {
		mu.Lock()
		counts[k] += n
		mu.Unlock()
	}
	v := &c.V
	if len(c.P) == 0 {
		count("cases-skipped-empty-trie", 1)
		return nil, 0
	}
	bt, err := buildTries(v, c.P, c.Cached)
	if err != nil {
		return []sharedFinding{{key: "proof-harness:build", what: "building the real tries failed: " + err.Error(), order: c.Req}}, 0
	}
	hf, rh := crypto.HashFn(crypto.Pedersen), refimpl.HashFn(refimpl.Pedersen)
	hname := "pedersen"
	if v.Poseidon {
		hf, rh, hname = crypto.Poseidon, refimpl.Poseidon, "poseidon"
	}
	truth := map[string]int{}
	for _, p := range c.P {
		truth[bitsKey(p.K)] = p.V
	}
	var provers []setProver
	if c.Impl == "" || c.Impl == "legacy" {
		provers = append(provers, legacyProver(bt, hf))
	}
	if c.Impl == "" || c.Impl == "trie2" {
		provers = append(provers, t2Prover("trie2:mem", bt.t2, &bt.root, hf), t2Prover("trie2:db", bt.t2db.tr, &bt.root, hf))
	}
	orders := [][]int{nil}
	if c.AllOrders && len(c.Req) <= 4 {
		orders = permutations(len(c.Req))
	} else {
		orders[0] = permutations(len(c.Req))[0]
	}
	real := v.Height == 251
	for _, pr := range provers {
		// the single-key proofs of the request's keys: what the shared set must be the union of
		single := map[felt.Felt]string{}
		singleErr := false
		for _, kb := range c.Req {
			fs, err, pan := safely(func() (*filledSet, error) { return pr.fill([]*felt.Felt{v.key(kb)}) })
			if err != nil || pan != "" {
				finds = append(finds, sharedFinding{key: "shared-proof-set:prove-failed:" + pr.impl, impl: pr.impl,
					what: fmt.Sprintf("%s Prove(%s) on an empty set failed: %v %s", pr.name, v.key(kb), err, pan), order: [][]int{kb}})
				singleErr = true
				break
			}
			for _, e := range fs.entries {
				single[e.hash] = e.render
			}
		}
		if singleErr {
			continue
		}
		for oi, ord := range orders {
			req := make([][]int, len(ord))
			keys := make([]*felt.Felt, len(ord))
			for i, x := range ord {
				req[i] = c.Req[x]
				keys[i] = v.key(c.Req[x])
			}
			add := func(key, what string, exp, obs any) {
				finds = append(finds, sharedFinding{key: key, what: what, exp: exp, obs: obs, order: req, impl: pr.impl})
			}
			fs, err, pan := safely(func() (*filledSet, error) { return pr.fill(keys) })
			if err != nil || pan != "" {
				add("shared-proof-set:prove-failed:"+pr.impl, fmt.Sprintf("%s: filling one set with Prove for %d keys failed: %v %s", pr.name, len(keys), err, pan), nil, nil)
				continue
			}
			count("sets-filled-"+pr.name, 1)
			if oi == 0 && c.Bins >= 0 && (c.Impl == "" || c.Impl == pr.impl) && fs.bins != c.Bins {
				add("shared-proof-set:differs-from-model:"+pr.impl, fmt.Sprintf("%s: the accumulated set holds %d binary nodes, Proof.tla's SharedSet %d", pr.name, fs.bins, c.Bins), c.Bins, fs.bins)
			}
			// (1) the set is the union of the single-key proofs
			inSet := map[felt.Felt]string{}
			for _, e := range fs.entries {
				inSet[e.hash] = e.render
			}
			if len(inSet) != len(fs.entries) {
				add("shared-proof-set:not-the-union:"+pr.impl+":duplicate-hash", pr.name+": the set lists one hash twice", nil, nil)
			}
			var missing, foreign, altered []string
			for h, r := range single {
				if got, ok := inSet[h]; !ok {
					missing = append(missing, h.String()+"="+r)
				} else if got != r {
					altered = append(altered, h.String()+": "+r+" became "+got)
				}
			}
			for h, r := range inSet {
				if _, ok := single[h]; !ok {
					foreign = append(foreign, h.String()+"="+r)
				}
			}
			sort.Strings(missing)
			sort.Strings(foreign)
			sort.Strings(altered)
			switch {
			case len(missing) > 0:
				add("shared-proof-set:not-the-union:"+pr.impl+":node-missing", fmt.Sprintf("%s (%s, height %d): the set filled by one Prove call per key lacks %d node(s) "+
					"that the proof of one of its keys alone contains (the identity of a node in the set is its hash, not its position)", pr.name, hname, v.Height, len(missing)), nil, missing)
			case len(altered) > 0:
				add("shared-proof-set:not-the-union:"+pr.impl+":node-altered", pr.name+": a node of the set differs from the node of the single-key proof under the same hash", nil, altered)
			case len(foreign) > 0:
				add("shared-proof-set:not-the-union:"+pr.impl+":foreign-node", pr.name+": the set holds nodes that are on the path of none of its keys", nil, foreign)
			}
			// (2) every key of the request is established: real verifier and independent verifier
			for i, kb := range req {
				want := v.value(truth[bitsKey(kb)])
				pos := "first-key"
				if i > 0 {
					pos = "later-key"
				}
				if real {
					got, verr, pan := safely(func() (felt.Felt, error) { return fs.verify(keys[i]) })
					nver++
					switch {
					case pan != "":
						add("shared-proof-set:panic:"+pr.impl, pr.name+": VerifyProof panicked on a set filled by Prove: "+pan, nil, nil)
					case verr != nil:
						add("shared-proof-set:incomplete:"+pr.impl+":real-verifier:"+pos, fmt.Sprintf("%s (%s): key %d of %d of the request does not verify against the set "+
							"the request's Prove calls filled (VerifyProof: %v); alone in a set of its own it does", pr.name, hname, i+1, len(req), verr), want.String(), verr.Error())
					case !got.Equal(want):
						add("shared-proof-set:false-value:"+pr.impl+":real-verifier", fmt.Sprintf("%s (%s): key %d of %d of the request verifies against the shared set with a FALSE value", pr.name, hname, i+1, len(req)), want.String(), got.String())
					}
				}
				got, verr := refimpl.Verify(bt.root, bigOf(keys[i]), uint(v.Height), fs.proto, rh)
				nver++
				switch {
				case verr != nil:
					add("shared-proof-set:incomplete:"+pr.impl+":independent-verifier:"+pos, fmt.Sprintf("%s (%s, height %d): key %d of %d of the request cannot be established from the shared set "+
						"by the independent verifier: %v", pr.name, hname, v.Height, i+1, len(req), verr), want.String(), verr.Error())
				case !got.Equal(want):
					add("shared-proof-set:false-value:"+pr.impl+":independent-verifier", fmt.Sprintf("%s (%s): the independent verifier derives a FALSE value for key %d of %d from the shared set", pr.name, hname, i+1, len(req)), want.String(), got.String())
				}
			}
		}
	}
	count("cases", 1)
	if real {
		count("cases-height-251-"+hname, 1)
	} else {
		count(fmt.Sprintf("cases-height-%d", v.Height), 1)
	}
	return finds, nver
}

// ------------------------------------------------------------------ case generation

// smallEmbed spreads h model bits over `height` real bits (height-h padding bits, values random).
func smallEmbed(h, height int, r *rand.Rand, i int64) variant {
	perm := r.Perm(height)[:h]
	sort.Ints(perm)
	if perm[h-1] != height-1 && r.Intn(2) == 0 {
		perm[h-1] = height - 1 // leaves directly under their binary parent
	}
	pad := new(big.Int).Rand(r, new(big.Int).Lsh(big.NewInt(1), uint(height)))
	for _, q := range perm {
		pad.SetBit(pad, height-1-q, 0)
	}
	return variant{Height: height, Pos: perm, Pad: pad.String(), Poseidon: i%2 == 1, Owner: i%3 == 0, ValSeed: i}
}

// caseVariants: a height-251 embedding and a small height (5, the model's own height, or a few bits more); the
// hash function alternates. Quick tier, directed cases: ONE of the three kinds per case, in rotation (every
// family member occurs under every kind across the prefix pairs); thorough: both hash functions and a small height.
func caseVariants(h int, seed int64, ci int, thorough, directed bool) []variant {
	r := rand.New(rand.NewSource(seed*7_000_003 + int64(ci)))
	e := proofVariant(h, r, seed+int64(ci))
	e.Poison, e.Sweep, e.Flush = false, false, false
	e.Poseidon = ci%2 == 1
	e2 := proofVariant(h, r, seed+int64(ci)+1)
	e2.Poison, e2.Sweep, e2.Flush = false, false, false
	e2.Poseidon = !e.Poseidon
	height := 5
	if h > 5 || ci%3 == 2 {
		height = h + 3
	}
	if ci%3 == 1 {
		height = h
	}
	if height < h {
		height = h
	}
	sm := smallEmbed(h, height, r, seed+int64(ci))
	switch {
	case thorough:
		return []variant{e, e2, sm}
	case directed:
		return []variant{[]variant{e, sm, e2}[(ci/2)%3]}
	}
	return []variant{e, sm}
}

func bitsOf(x, n int) []int {
	b := make([]int, n)
	for i := 0; i < n; i++ {
		b[i] = (x >> (n - 1 - i)) & 1
	}
	return b
}

func cat(a, b []int) []int { return append(append([]int{}, a...), b...) }

type subShape struct {
	name string
	kv   map[int]int // suffix (as integer over s bits) -> value
}

func shapesOf(s int) []subShape {
	top := 1<<s - 1
	switch s {
	case 1:
		return []subShape{{"pair", map[int]int{0: 1, 1: 2}}, {"pair-same", map[int]int{0: 1, 1: 1}}}
	case 2:
		return []subShape{{"left-pair", map[int]int{0: 1, 1: 2}}, {"spread", map[int]int{0: 1, 3: 2}},
			{"full-abab", map[int]int{0: 1, 1: 2, 2: 1, 3: 2}}, {"middle", map[int]int{1: 1, 2: 1}}, {"three", map[int]int{0: 1, 1: 2, 2: 3}}}
	default:
		return []subShape{{"deep-pair", map[int]int{0: 1, 1: 2}}, {"ends", map[int]int{0: 1, top: 2}},
			{"three", map[int]int{0: 1, 1: 2, 1 << (s - 1): 3}}, {"pair-right", map[int]int{top - 1: 2, top: 1}}}
	}
}

// directedSharedCases: tries with one sub-trie at two (or three) prefixes of equal length, lifted from TLC's
// counterexample to ProofSet_x_skip.cfg (000 001 110 111 -> the same pair twice, request <<000, 110>>): every
// pair of prefixes (a sample when there are many), a catalogue of sub-trie shapes, with / without an unrelated
// key and a third copy; requests over a key of the first copy, its twin in the second copy, a present and an
// absent key of the second copy, and a bystander.
func directedSharedCases(seed int64, thorough bool) []sharedCase {
	r := rand.New(rand.NewSource(seed*31 + 17))
	var out []sharedCase
	ci := 0
	for _, h := range []int{3, 4, 5} {
		for j := 1; j < h; j++ {
			s := h - j
			np := 1 << j
			var pairs [][2]int
			for a := 0; a < np; a++ {
				for b := a + 1; b < np; b++ {
					pairs = append(pairs, [2]int{a, b})
				}
			}
			if len(pairs) > 6 {
				r.Shuffle(len(pairs), func(a, b int) { pairs[a], pairs[b] = pairs[b], pairs[a] })
				keep := [][2]int{{0, np - 1}, {0, 1}, {np/2 - 1, np / 2}}
				n := 4
				if thorough {
					n = 10
				}
				pairs = append(keep, pairs[:n]...)
			}
			for _, sh := range shapesOf(s) {
				for pi, pq := range pairs {
					for extra := 0; extra < 3; extra++ {
						if !thorough && ((h == 5 && (pi+extra+len(sh.kv))%4 != 0) || (h == 4 && (pi+extra+len(sh.kv))%2 != 0)) {
							continue // quick tier: a quarter of the height-5 family, half of the height-4 family
						}
						p, q := bitsOf(pq[0], j), bitsOf(pq[1], j)
						if (pi+extra)%2 == 1 {
							p, q = q, p // the copy proven first is the right-hand one as often as the left-hand one
						}
						var pres []presKV
						var sufs []int
						for suf := range sh.kv {
							sufs = append(sufs, suf)
						}
						sort.Ints(sufs)
						for _, suf := range sufs {
							pres = append(pres, presKV{cat(p, bitsOf(suf, s)), sh.kv[suf]}, presKV{cat(q, bitsOf(suf, s)), sh.kv[suf]})
						}
						// a prefix that is neither p nor q
						other := -1
						for x := 0; x < np; x++ {
							if x != pq[0] && x != pq[1] {
								other = (x + pi) % np
								if other == pq[0] || other == pq[1] {
									other = x
								}
								break
							}
						}
						z := cat(q, bitsOf(0, s)) // stand-in when there is no third prefix
						switch {
						case other < 0 && extra > 0:
							continue
						case extra == 1:
							z = cat(bitsOf(other, j), bitsOf((1<<s)-1, s))
							pres = append(pres, presKV{z, 3})
						case extra == 2:
							for _, suf := range sufs {
								pres = append(pres, presKV{cat(bitsOf(other, j), bitsOf(suf, s)), sh.kv[suf]})
							}
							z = cat(bitsOf(other, j), bitsOf(sufs[0], s))
						case other >= 0:
							z = cat(bitsOf(other, j), bitsOf(0, s)) // absent, leaves the trie above the copies
						}
						a1, a2 := cat(p, bitsOf(sufs[0], s)), cat(q, bitsOf(sufs[0], s))
						b1, b2 := cat(p, bitsOf(sufs[len(sufs)-1], s)), cat(q, bitsOf(sufs[len(sufs)-1], s))
						var n2 []int // absent, inside the second copy
						for suf := 0; suf < 1<<s; suf++ {
							if _, ok := sh.kv[suf]; !ok {
								n2 = cat(q, bitsOf(suf, s))
								break
							}
						}
						reqs := [][][]int{{a1, a2}}
						if n2 != nil {
							reqs = append(reqs, [][]int{a1, n2})
						}
						if bitsKey(z) != bitsKey(a1) && bitsKey(z) != bitsKey(b2) {
							reqs = append(reqs, [][]int{a1, b2, z})
						}
						if len(sufs) > 1 && (thorough || ci%3 == 0) {
							reqs = append(reqs, [][]int{a1, a2, b1, b2})
						}
						for _, rq := range reqs {
							out = append(out, sharedCase{MaxV: 3, P: pres, Req: rq, Cached: ci%2 == 0, AllOrders: true, Bins: -1,
								Origin: fmt.Sprintf("directed:h%d-j%d-%s-extra%d", h, j, sh.name, extra)})
						}
						ci++
					}
				}
			}
		}
	}
	return out
}

func TestSharedProofSets(t *testing.T) {
	if !vh.Enabled() {
		t.Skip("driver only")
	}
	var in sharedInput
	if err := vh.Input(&in); err != nil {
		t.Fatal(err)
	}
	out := vh.NewResult()
	defer out.Write()
	defer guard(out, "TestSharedProofSets", nil)
	counts := map[string]int{}
	var cases []sharedCase
	explicit := len(in.Cases) > 0
	if explicit {
		cases = in.Cases
	} else {
		for _, beh := range in.Behaviours {
			for _, s := range beh {
				if s.A.Name != "Multi" || len(s.A.Req) < 2 {
					continue
				}
				bins := 0
				for _, sh := range s.Shape {
					if sh.T == "bin" {
						bins++
					}
				}
				for i := range s.Outs {
					if s.Outs[i].Kind != "leaf" || s.Outs[i].V != s.Truths[i] {
						t.Fatalf("Proof.tla's own verdict on a shared set is not the key's value: %+v", s) // broken model, never a verdict
					}
				}
				if s.Twins > 0 {
					counts["tlc-requests-on-tries-with-equal-subtries"]++
				}
				cases = append(cases, sharedCase{MaxV: in.MaxV, P: s.P, Req: s.A.Req, Impl: s.A.Impl, Cached: s.A.Cached, AllOrders: true, Bins: bins, Origin: "tlc"})
			}
		}
		counts["tlc-requests"] = len(cases)
		if in.Directed {
			d := directedSharedCases(vh.Seed(), vh.Thorough())
			counts["directed-requests"] = len(d)
			cases = append(cases, d...)
		}
	}
	// concretise: every case under its variants
	type job struct {
		c sharedCase
	}
	var jobs []job
	for ci, c := range cases {
		if explicit {
			jobs = append(jobs, job{c})
			continue
		}
		for _, v := range caseVariants(len(c.Req[0]), vh.Seed(), ci, vh.Thorough(), strings.HasPrefix(c.Origin, "directed")) {
			cc := c
			cc.V = v
			jobs = append(jobs, job{cc})
		}
	}
	results := make([][]sharedFinding, len(jobs))
	nvers := make([]int, len(jobs))
	var mu gosync.Mutex
	var wg gosync.WaitGroup
	next := make(chan int)
	for w := 0; w < 6; w++ {
		wg.Add(1)
		go func() {
			defer wg.Done()
			for ji := range next {
				func() {
					defer func() {
						if p := recover(); p != nil {
							results[ji] = append(results[ji], sharedFinding{key: "shared-proof-set:panic:harness-or-code", what: fmt.Sprintf("panic while running a shared-set case: %v", p), order: jobs[ji].c.Req})
						}
					}()
					results[ji], nvers[ji] = runSharedCase(&jobs[ji].c, counts, &mu)
				}()
			}
		}()
	}
	for ji := range jobs {
		next <- ji
	}
	close(next)
	wg.Wait()
	for ji, fs := range results {
		out.Done(1, nvers[ji])
		seen := map[string]bool{}
		for _, f := range fs {
			if seen[f.key] {
				continue
			}
			seen[f.key] = true
			c := jobs[ji].c
			c.Req, c.AllOrders, c.Bins = f.order, false, -1
			if f.impl != "" {
				c.Impl = f.impl
			}
			what := f.what + " [" + c.Origin + "; keys " + strings.ReplaceAll(fmt.Sprint(c.P), " ", "") + "; request order " + strings.ReplaceAll(fmt.Sprint(f.order), " ", "") + "]"
			diverge(out, vh.Divergence{Key: f.key, What: what, Expected: f.exp, Observed: f.obs,
				Input: sharedInput{H: in.H, MaxV: in.MaxV, Cases: []sharedCase{c}}})
		}
	}
	for k, c := range counts {
		out.Count("shared_"+k, c)
	}
	if len(jobs) > 0 {
		c := jobs[len(jobs)/2].c
		out.Sample(vh.J{"kind": "shared-proof-set", "origin": c.Origin, "pres": c.P, "req": c.Req, "height": c.V.Height})
	}
}

// TestTempTries (C01): the temporary tries behind the transaction / event / receipt commitments.
// Both TempTrieBackends (core.TrieBackend = trie2, core.DeprecatedTrieBackend = legacy) must agree
// with each other on whole blocks (core.BlockHash commitments), the transaction commitment must
// equal refimpl.Root over the protocol's leaf definition, and height-64 insert-only tries of many
// sizes (incl. > 100 pending updates: trie2's parallel hasher) must commit to refimpl.Root.
//
// TestTrieBulk (C01): large batches (> 100 updates per commit: trie2's parallel collector, the
// legacy concurrent updateValueIfDirty) at height 251 with clustered keys, mixed overwrite / delete,
// commit, reopen; roots against refimpl.Root and against each other.
package trie

import (
	"fmt"
	"math/big"
	"math/rand"
	"testing"

	"github.com/NethermindEth/juno/blockchain/networks"
	"github.com/NethermindEth/juno/core"
	"github.com/NethermindEth/juno/core/felt"

	"verifharness/internal/refcrypto"
	"verifharness/internal/refimpl"
	"verifharness/internal/vh"
)

type tempInput struct {
	Sizes []int `json:"sizes,omitempty"`
	Seed  int64 `json:"seed,omitempty"`
}

func rf(r *rand.Rand) *felt.Felt { return new(felt.Felt).SetBigInt(randFelt251(r)) }

// rfx is rf with the value-domain dimension: one felt in four is a member of an extreme magnitude class
// (FeltDomain.tla: >= 2^248, >= 2^250, >= 2^251, p-1, 1).
func rfx(r *rand.Rand) *felt.Felt {
	if r.Intn(4) != 0 {
		return rf(r)
	}
	classes := []string{"b248", "b250", "b251", "b251", "pm1", "one"}
	return magFelt(classes[r.Intn(len(classes))], r.Int63n(1<<40), r.Intn(1<<20))
}

func mkBlock(r *rand.Rand, ntx int, version string) (*core.Block, *core.StateDiff) {
	one := felt.NewFromUint64[felt.Felt](1)
	b := &core.Block{Header: &core.Header{
		ParentHash: rf(r), Number: uint64(1000 + r.Intn(1000)), SequencerAddress: rf(r), Timestamp: 1_700_000_000,
		ProtocolVersion: version, GlobalStateRoot: rf(r), TransactionCount: uint64(ntx),
		L1GasPriceETH: one, L1GasPriceSTRK: one, L2GasPrice: &core.GasPrice{PriceInWei: one, PriceInFri: one},
		L1DataGasPrice: &core.GasPrice{PriceInWei: one, PriceInFri: one},
	}}
	for i := 0; i < ntx; i++ {
		sig := []felt.Felt{}
		for j := r.Intn(3); j > 0; j-- {
			sig = append(sig, *rfx(r))
		}
		tx := &core.InvokeTransaction{TransactionHash: rf(r), TransactionSignature: sig, Version: new(core.TransactionVersion).SetUint64(3)}
		b.Transactions = append(b.Transactions, tx)
		rc := &core.TransactionReceipt{TransactionHash: tx.TransactionHash, Fee: rf(r), Reverted: r.Intn(5) == 0, RevertReason: "r"}
		for j := r.Intn(3); j > 0; j-- {
			rc.Events = append(rc.Events, &core.Event{From: rf(r), Keys: []felt.Felt{*rf(r)}, Data: []felt.Felt{*rf(r), *rf(r)}})
		}
		b.EventCount += uint64(len(rc.Events))
		b.Receipts = append(b.Receipts, rc)
	}
	b.EventsBloom = core.EventsBloom(b.Receipts)
	return b, &core.StateDiff{}
}

func seqKV(vals []felt.Felt) refimpl.KV {
	kv := refimpl.KV{}
	for i := range vals {
		kv[refimpl.Key(big.NewInt(int64(i)))] = vals[i]
	}
	return kv
}

func TestTempTries(t *testing.T) {
	if !vh.Enabled() {
		t.Skip("driver only")
	}
	var in tempInput
	if err := vh.Input(&in); err != nil {
		t.Fatal(err)
	}
	out := vh.NewResult()
	defer out.Write()
	defer guard(out, "TestTempTries", in)
	restore, err := refimpl.UseIndependent()
	if err != nil {
		t.Fatal(err) // broken machinery, never a verdict
	}
	defer restore()
	seed := in.Seed
	if seed == 0 {
		seed = vh.Seed()
	}
	sizes := in.Sizes
	if len(sizes) == 0 {
		sizes = []int{0, 1, 2, 3, 4, 5, 7, 8, 9, 16, 17, 33, 100, 101, 102, 150, 257}
		if vh.Thorough() {
			sizes = append(sizes, 6, 31, 32, 64, 65, 128, 129, 300, 513, 1000, 131073)
		}
	}
	backends := []struct {
		name string
		b    core.TempTrieBackend
	}{{"trie2", core.TrieBackend}, {"legacy", core.DeprecatedTrieBackend}}
	report := func(key, what string, n int, exp, obs string) {
		diverge(out, vh.Divergence{Key: key, What: what, Step: n, Expected: exp, Observed: obs, Input: tempInput{Sizes: []int{n}, Seed: seed}})
	}
	for _, n := range sizes {
		r := rand.New(rand.NewSource(seed*104729 + int64(n)))
		// (1) raw height-64 insert-only tries, both hash functions, both backends vs refimpl
		vals := make([]felt.Felt, n)
		for i := range vals {
			vals[i] = *rfx(r)
		}
		for _, poseidon := range []bool{false, true} {
			if n > 2000 && !poseidon {
				continue // the > 131072-entry trie is hashed with Poseidon only (cost)
			}
			h, hn := refimpl.HashFn(refimpl.Pedersen), "pedersen"
			if poseidon {
				h, hn = refimpl.Poseidon, "poseidon"
			}
			want := refimpl.Root(seqKV(vals), 64, h)
			for _, be := range backends {
				run := be.b.RunOnTempTriePedersen
				if poseidon {
					run = be.b.RunOnTempTriePoseidon
				}
				var got felt.Felt
				err := run(64, func(tr core.Trie) error {
					for i := range vals {
						k := felt.FromUint64[felt.Felt](uint64(i))
						if err := tr.Update(&k, &vals[i]); err != nil {
							return err
						}
					}
					var err error
					got, err = tr.Hash()
					return err
				})
				out.Done(1, n+1)
				if err == nil && !got.Equal(&want) {
					if o := primitiveOutcome(seqKV(vals), 64, poseidon, &want, &got, nil, n, "Hash of a temporary trie"); o != nil {
						report(o.key, o.what, n, want.String(), got.String())
						continue
					}
				}
				if err != nil || !got.Equal(&want) {
					report(fmt.Sprintf("temp-trie-root:%s:%s", be.name, hn),
						fmt.Sprintf("height-64 temporary trie (%s, %s) over %d sequential keys differs from refimpl.Root (err %v)", be.name, hn, n, err), n, want.String(), got.String())
				}
			}
		}
		// (2) whole-block commitments through core.BlockHash, both backends, versions on both hash schemes
		for _, ver := range []string{"0.13.1", "0.13.2", "0.13.4", "0.14.0"} {
			if n > 300 {
				continue
			}
			blk, sd := mkBlock(r, n, ver)
			var hashes [2]felt.Felt
			var comms [2]*core.BlockCommitments
			for i, be := range backends {
				var err error
				hashes[i], comms[i], err = core.BlockHash(blk, sd, &networks.Sepolia, blk.SequencerAddress, be.b)
				out.Done(1, 3)
				if err != nil {
					report("temp-trie-error:"+be.name, fmt.Sprintf("core.BlockHash (%s, %d txs, backend %s) failed: %v", ver, n, be.name, err), n, "", "")
					comms[i] = nil
				}
			}
			if comms[0] == nil || comms[1] == nil {
				continue
			}
			eq := func(a, b *felt.Felt) bool { return (a == nil && b == nil) || (a != nil && b != nil && a.Equal(b)) }
			switch {
			case !eq(comms[0].TransactionCommitment, comms[1].TransactionCommitment):
				report("temp-trie-cross:transaction-commitment", fmt.Sprintf("transaction commitment differs between the backends (%s, %d txs)", ver, n), n,
					comms[1].TransactionCommitment.String(), comms[0].TransactionCommitment.String())
			case !eq(comms[0].EventCommitment, comms[1].EventCommitment):
				report("temp-trie-cross:event-commitment", fmt.Sprintf("event commitment differs between the backends (%s, %d txs)", ver, n), n,
					comms[1].EventCommitment.String(), comms[0].EventCommitment.String())
			case !eq(comms[0].ReceiptCommitment, comms[1].ReceiptCommitment):
				report("temp-trie-cross:receipt-commitment", fmt.Sprintf("receipt commitment differs between the backends (%s, %d txs)", ver, n), n,
					comms[1].ReceiptCommitment.String(), comms[0].ReceiptCommitment.String())
			case !hashes[0].Equal(&hashes[1]):
				report("temp-trie-cross:block-hash", fmt.Sprintf("block hash differs between the backends (%s, %d txs)", ver, n), n, hashes[1].String(), hashes[0].String())
			}
			// the transaction commitment from the protocol's leaf definition (>= 0.13.4: poseidon(hash, sig...))
			if ver == "0.13.4" || ver == "0.14.0" {
				leaves := make([]felt.Felt, n)
				for i, tx := range blk.Transactions {
					elems := []felt.Felt{*tx.Hash()}
					for _, s := range tx.Signature() {
						elems = append(elems, s)
					}
					leaves[i] = refcrypto.PoseidonMany(ptrs(elems)...)
				}
				want := refimpl.Root(seqKV(leaves), 64, refimpl.Poseidon)
				if !comms[0].TransactionCommitment.Equal(&want) {
					report("temp-trie-root:transaction-commitment", fmt.Sprintf("transaction commitment (%s, %d txs) differs from the protocol definition", ver, n), n,
						want.String(), comms[0].TransactionCommitment.String())
				}
			}
		}
	}
	out.Stats["temp_trie_sizes"] = sizes
}

type bulkInput struct {
	Seeds []int64 `json:"seeds,omitempty"`
}

func TestTrieBulk(t *testing.T) {
	if !vh.Enabled() {
		t.Skip("driver only")
	}
	var in bulkInput
	if err := vh.Input(&in); err != nil {
		t.Fatal(err)
	}
	out := vh.NewResult()
	defer out.Write()
	defer guard(out, "TestTrieBulk", in)
	restore, err := refimpl.UseIndependent()
	if err != nil {
		t.Fatal(err) // broken machinery, never a verdict
	}
	defer restore()
	seeds := in.Seeds
	if len(seeds) == 0 {
		n := 3
		if vh.Thorough() {
			n = 12
		}
		for i := 0; i < n; i++ {
			seeds = append(seeds, vh.Seed()*31+int64(i))
		}
	}
	for _, seed := range seeds {
		r := rand.New(rand.NewSource(seed))
		pos := make([]int, 251)
		for i := range pos {
			pos[i] = i
		}
		v := variant{Height: 251, Pos: pos, Pad: "0", Poseidon: seed%2 == 0, Flush: seed%3 == 0, Owner: seed%2 == 1, ValSeed: seed, Poison: seed%2 == 1}
		report := func(key, what string, round int, exp, obs string) {
			diverge(out, vh.Divergence{Key: key, What: what, Step: round, Expected: exp, Observed: obs, Input: bulkInput{Seeds: []int64{seed}}})
		}
		leg, err := newLegacy(&v)
		if err != nil {
			report("trie-error:legacy:open", err.Error(), 0, "", "")
			continue
		}
		t2, err := newT2(&v)
		if err != nil {
			report("trie-error:trie2:open", err.Error(), 0, "", "")
			continue
		}
		hash := refimpl.HashFn(refimpl.Pedersen)
		if v.Poseidon {
			hash = refimpl.Poseidon
		}
		kv := refimpl.KV{}
		var keys []*big.Int
		// clustered keys: a few random 251-bit bases, many keys differing from a base only in low bits
		var bases []*big.Int
		for i := 0; i < 4; i++ {
			bases = append(bases, randFelt251(r))
		}
		newKey := func() *big.Int {
			b := new(big.Int).Set(bases[r.Intn(len(bases))])
			switch r.Intn(3) {
			case 0:
				return b.Xor(b, big.NewInt(int64(r.Intn(64))))
			case 1:
				return b.Xor(b, new(big.Int).Lsh(big.NewInt(int64(1+r.Intn(255))), uint(r.Intn(240))))
			}
			return randFelt251(r)
		}
		bad := false
		for round := 0; round < 4 && !bad; round++ {
			nops := 110 + r.Intn(150)
			for i := 0; i < nops; i++ {
				var k *big.Int
				val := rfx(r)
				switch {
				case len(keys) > 0 && r.Intn(4) == 0: // delete an existing key
					k = keys[r.Intn(len(keys))]
					val = new(felt.Felt)
				case len(keys) > 0 && r.Intn(4) == 0: // overwrite
					k = keys[r.Intn(len(keys))]
				default:
					k = newKey()
					keys = append(keys, k)
				}
				kf := new(felt.Felt).SetBigInt(k)
				if _, err := leg.put(kf, val); err != nil {
					report("trie-error:legacy:bulk", err.Error(), round, "", "")
					bad = true
					break
				}
				if err := t2.put(kf, val); err != nil {
					report("trie-error:trie2:bulk", err.Error(), round, "", "")
					bad = true
					break
				}
				if val.IsZero() {
					delete(kv, refimpl.Key(k))
				} else {
					kv[refimpl.Key(k)] = *val
				}
			}
			if bad {
				break
			}
			want := refimpl.Root(kv, 251, hash)
			lroot, err := leg.commit()
			if err == nil && !lroot.Equal(&want) {
				if o := primitiveOutcome(kv, 251, v.Poseidon, &want, &lroot, nil, round, "a bulk commit"); o != nil {
					report(o.key, o.what, round, want.String(), lroot.String())
					break
				}
			}
			if err != nil || !lroot.Equal(&want) {
				report("trie-root:legacy:bulk", fmt.Sprintf("core/trie root after a batch of %d updates differs from refimpl.Root (err %v)", nops, err), round, want.String(), lroot.String())
				bad = true
			}
			t2root, err := t2.commit()
			if err != nil || !t2root.Equal(&want) {
				report("trie-root:trie2:bulk", fmt.Sprintf("core/trie2 root after a batch of %d updates (parallel hasher/collector) differs from refimpl.Root (err %v)", nops, err), round, want.String(), t2root.String())
				bad = true
			}
			out.Done(1, nops+1)
			if err := leg.reopen(); err != nil {
				report("trie-reopen:legacy", err.Error(), round, "", "")
				bad = true
			}
			if err := t2.reopen(); err != nil {
				report("trie-reopen:trie2", err.Error(), round, "", "")
				bad = true
			}
			if bad {
				break
			}
			lroot, _ = leg.tr.Hash()
			t2root, _ = t2.hash()
			if !lroot.Equal(&want) || !t2root.Equal(&want) {
				report("trie-reopen-root:bulk", "root after reopen differs", round, want.String(), lroot.String()+" / "+t2root.String())
				bad = true
			}
			// spot-check reads
			for i := 0; i < 40 && len(keys) > 0; i++ {
				k := keys[r.Intn(len(keys))]
				kf := new(felt.Felt).SetBigInt(k)
				wantV := kv[refimpl.Key(k)]
				g1, _ := leg.get(kf)
				g2, _ := t2.get(kf)
				if !g1.Equal(&wantV) || !g2.Equal(&wantV) {
					report("trie-get:bulk", "Get after bulk commit+reopen differs from the model", round, wantV.String(), g1.String()+" / "+g2.String())
					bad = true
					break
				}
			}
		}
	}
}

// Value-domain dimension of C01 (spec/trie/FeltDomain.tla, PedersenWin.tla).
//
// magFelt is the concretisation of the magnitude classes of FeltDomain.tla: (class, seed, index) -> a
// felt of that class, injective in the index for the non-singleton classes.  The behaviour generators
// (LegacyMBT / Trie2MBT / StateMBT) choose a class per abstract value, class hash, compiled class hash
// and nonce; the replayers place the resulting felts in every hash-operand position they control.
//
// TestCryptoDiff is the direct differential round on the primitives: every function of core/crypto the
// commitments are built from (Pedersen, PedersenArray, PedersenElems, PedersenDigest, Poseidon,
// PoseidonArray, PoseidonElems, PoseidonDigest, HadesPermutation) against the independent references of
// harness/internal/refcrypto (textbook math/big elliptic-curve evaluation and gnark-crypto's
// implementation for Pedersen; Hades from derived round constants for Poseidon) on boundary-heavy
// inputs: every ordered pair of boundary operands, every magnitude class in every operand position of
// arrays of length 0..5.
package trie

import (
	"fmt"
	"math/big"
	"math/rand"
	"sort"
	"strings"
	"testing"

	"github.com/NethermindEth/juno/core/crypto"
	"github.com/NethermindEth/juno/core/felt"

	"verifharness/internal/refcrypto"
	"verifharness/internal/vh"
)

// magClasses in increasing magnitude (FeltDomain.tla Mag).
var magClasses = []string{"one", "small", "b248", "b250", "b251", "pm1"}

func magRank(c string) int {
	for i, x := range magClasses {
		if x == c {
			return i
		}
	}
	return 1 // "" = small
}

func pow2(n uint) *big.Int { return new(big.Int).Lsh(big.NewInt(1), n) }

// magBig returns a member of the class; distinct idx give distinct members of a non-singleton class.
func magBig(class string, seed int64, idx int) *big.Int {
	r := rand.New(rand.NewSource(seed*7_368_787 + int64(idx)*104_729 + int64(magRank(class))))
	between := func(lo, hi *big.Int) *big.Int { // [lo, hi)
		return new(big.Int).Add(lo, new(big.Int).Rand(r, new(big.Int).Sub(hi, lo)))
	}
	i := big.NewInt(int64(idx))
	switch class {
	case "one":
		return big.NewInt(1)
	case "pm1":
		return new(big.Int).Sub(refcrypto.P, big.NewInt(1))
	case "b248":
		switch idx % 3 {
		case 0:
			return new(big.Int).Add(pow2(248), i) // the lower edge
		case 1:
			return new(big.Int).Sub(new(big.Int).Sub(pow2(250), big.NewInt(1)), i) // the upper edge
		}
		return between(pow2(248), pow2(250))
	case "b250":
		switch idx % 3 {
		case 0:
			return between(pow2(250), pow2(251))
		case 1:
			return new(big.Int).Add(pow2(250), i)
		}
		return new(big.Int).Sub(new(big.Int).Sub(pow2(251), big.NewInt(1)), i) // 2^251 - 1 - idx: the largest 251-bit integers
	case "b251":
		top := new(big.Int).Sub(refcrypto.P, big.NewInt(1)) // exclusive: p-1 is class pm1
		switch idx % 3 {
		case 0:
			return new(big.Int).Sub(new(big.Int).Sub(top, big.NewInt(1)), i) // p - 2 - idx
		case 1:
			return between(pow2(251), top)
		}
		return new(big.Int).Add(pow2(251), i) // 2^251 + idx
	case "", "small":
		return between(big.NewInt(2), pow2(248))
	}
	panic("magnitude class unknown to the harness: " + class)
}

func magFelt(class string, seed int64, idx int) *felt.Felt {
	return new(felt.Felt).SetBigInt(magBig(class, seed, idx))
}

func classOfBig(b *big.Int) string {
	switch {
	case b.Sign() == 0:
		return "zero"
	case b.Cmp(big.NewInt(1)) == 0:
		return "one"
	case b.Cmp(new(big.Int).Sub(refcrypto.P, big.NewInt(1))) == 0:
		return "pm1"
	case b.Cmp(pow2(248)) < 0:
		return "small"
	case b.Cmp(pow2(250)) < 0:
		return "b248"
	case b.Cmp(pow2(251)) < 0:
		return "b250"
	}
	return "b251"
}

func classOfFelt(f *felt.Felt) string { return classOfBig(refcrypto.BigOf(f)) }

// topClass is the highest magnitude class among the given felts ("" when there is none): part of the keys
// of divergences that are localised in a hash primitive.
func topClass(fs []felt.Felt) string {
	best, bestRank := "", -1
	for i := range fs {
		c := classOfFelt(&fs[i])
		if c == "zero" {
			continue
		}
		if r := magRank(c); r > bestRank {
			best, bestRank = c, r
		}
	}
	return best
}

// ------------------------------------------------------------------ TestCryptoDiff

type cryptoInput struct {
	// explicit case (replay): function name and operands (hex)
	Fn  string   `json:"fn,omitempty"`
	Ops []string `json:"ops,omitempty"`
}

type cryptoFn struct {
	name string
	ref  func(ops []felt.Felt) felt.Felt // independent reference (fast path)
	slow func(ops []felt.Felt) felt.Felt // textbook / math/big reference (nil: none)
	impl func(ops []felt.Felt) felt.Felt // core/crypto
	pair bool                            // exactly two operands
}

func ptrs(ops []felt.Felt) []*felt.Felt {
	out := make([]*felt.Felt, len(ops))
	for i := range ops {
		out[i] = &ops[i]
	}
	return out
}

func cryptoFns() []cryptoFn {
	pedArrayRef := func(ops []felt.Felt) felt.Felt { return refcrypto.PedersenArray(ptrs(ops)...) }
	pedArraySlow := func(ops []felt.Felt) felt.Felt {
		bs := make([]*big.Int, len(ops))
		for i := range ops {
			bs[i] = refcrypto.BigOf(&ops[i])
		}
		return refcrypto.FeltOf(refcrypto.PedersenArrayBig(refcrypto.PedersenBig, bs))
	}
	posManyRef := func(ops []felt.Felt) felt.Felt { return refcrypto.PoseidonMany(ptrs(ops)...) }
	posManySlow := func(ops []felt.Felt) felt.Felt { return refcrypto.PoseidonManySlow(ptrs(ops)...) }
	return []cryptoFn{
		{name: "Pedersen", pair: true,
			ref:  func(o []felt.Felt) felt.Felt { return refcrypto.PedersenFast(&o[0], &o[1]) },
			slow: func(o []felt.Felt) felt.Felt { return refcrypto.PedersenSlow(&o[0], &o[1]) },
			impl: func(o []felt.Felt) felt.Felt { return crypto.Pedersen(&o[0], &o[1]) }},
		{name: "PedersenArray", ref: pedArrayRef, slow: pedArraySlow,
			impl: func(o []felt.Felt) felt.Felt { return crypto.PedersenArray(append([]felt.Felt{}, o...)) }},
		{name: "PedersenElems", ref: pedArrayRef,
			impl: func(o []felt.Felt) felt.Felt { return crypto.PedersenElems(ptrs(o)...) }},
		{name: "PedersenDigest", ref: pedArrayRef,
			impl: func(o []felt.Felt) felt.Felt {
				// mixed use of the digest: one by one, then the rest as an array
				var d crypto.PedersenDigest
				h := len(o) / 2
				for i := 0; i < h; i++ {
					d.Update(&o[i])
				}
				d.UpdateArray(o[h:])
				return d.Finish()
			}},
		{name: "Poseidon", pair: true,
			ref:  func(o []felt.Felt) felt.Felt { return refcrypto.Poseidon(&o[0], &o[1]) },
			slow: func(o []felt.Felt) felt.Felt { return refcrypto.PoseidonSlow(&o[0], &o[1]) },
			impl: func(o []felt.Felt) felt.Felt { return crypto.Poseidon(&o[0], &o[1]) }},
		{name: "PoseidonArray", ref: posManyRef, slow: posManySlow,
			impl: func(o []felt.Felt) felt.Felt { return crypto.PoseidonArray(append([]felt.Felt{}, o...)) }},
		{name: "PoseidonElems", ref: posManyRef,
			impl: func(o []felt.Felt) felt.Felt { return crypto.PoseidonElems(ptrs(o)...) }},
		{name: "PoseidonDigest", ref: posManyRef,
			impl: func(o []felt.Felt) felt.Felt {
				var d crypto.PoseidonDigest
				h := (len(o) + 1) / 2
				for i := 0; i < h; i++ {
					d.Update(&o[i])
				}
				d.UpdateArray(o[h:])
				return d.Finish()
			}},
	}
}

func hexOps(ops []felt.Felt) []string {
	out := make([]string, len(ops))
	for i := range ops {
		out[i] = ops[i].String()
	}
	return out
}

func classVector(ops []felt.Felt) []string {
	out := make([]string, len(ops))
	for i := range ops {
		out[i] = classOfFelt(&ops[i])
	}
	return out
}

// cryptoKey names the operand position(s) and class(es) that make the function fail: it probes the failing
// input with every operand but one replaced by a small felt.
func cryptoKey(fn *cryptoFn, ops []felt.Felt) string {
	classes := classVector(ops)
	small := *magFelt("small", 99, 1)
	// wrong for ordinary operands as well: not a magnitude defect
	plain := make([]felt.Felt, len(ops))
	for j := range plain {
		plain[j] = small
	}
	if want, got := fn.ref(plain), fn.impl(plain); !want.Equal(&got) {
		return fmt.Sprintf("crypto:%s:any-operands", fn.name)
	}
	var culprits []string
	for i := range ops {
		probe := make([]felt.Felt, len(ops))
		for j := range probe {
			probe[j] = small
		}
		probe[i] = ops[i]
		want, got := fn.ref(probe), fn.impl(probe)
		if !want.Equal(&got) {
			pos := fmt.Sprintf("operand-%d", i)
			if fn.pair {
				pos = []string{"first-operand", "second-operand"}[i]
			}
			culprits = append(culprits, pos+"="+classes[i])
		}
	}
	if len(culprits) == 0 {
		return fmt.Sprintf("crypto:%s:operands=%s", fn.name, strings.Join(classes, ","))
	}
	if !fn.pair {
		// position-independent key for the array functions: the set of failing classes
		set := map[string]bool{}
		for _, c := range culprits {
			set[c[strings.Index(c, "=")+1:]] = true
		}
		var cs []string
		for c := range set {
			cs = append(cs, c)
		}
		sort.Strings(cs)
		return fmt.Sprintf("crypto:%s:element=%s", fn.name, strings.Join(cs, "+"))
	}
	return fmt.Sprintf("crypto:%s:%s", fn.name, strings.Join(culprits, ","))
}

func TestCryptoDiff(t *testing.T) {
	if !vh.Enabled() {
		t.Skip("driver only")
	}
	var in cryptoInput
	if err := vh.Input(&in); err != nil {
		t.Fatal(err)
	}
	if err := refcrypto.SelfTest(); err != nil {
		t.Fatal(err) // broken machinery, never a verdict
	}
	out := vh.NewResult()
	defer out.Write()
	defer guard(out, "TestCryptoDiff", in)
	fns := cryptoFns()
	reported := map[string]bool{}
	check := func(fn *cryptoFn, ops []felt.Felt, slow bool) {
		got := fn.impl(ops)
		want := fn.ref(ops)
		out.Done(0, 1)
		if slow && fn.slow != nil {
			// the fast reference is itself checked against the textbook one: a disagreement is broken machinery
			if sw := fn.slow(ops); !sw.Equal(&want) {
				t.Fatalf("references disagree on %s%v: fast %s textbook %s", fn.name, hexOps(ops), want.String(), sw.String())
			}
			out.Count("crypto_textbook_evaluations", 1)
		}
		if got.Equal(&want) {
			return
		}
		key := cryptoKey(fn, ops)
		if reported[key] {
			return
		}
		reported[key] = true
		diverge(out, vh.Divergence{Key: key,
			What: fmt.Sprintf("core/crypto %s differs from the independent reference (protocol definition evaluated with textbook arithmetic) for operands of magnitude classes %v",
				fn.name, classVector(ops)),
			Expected: want.String(), Observed: got.String(), Input: cryptoInput{Fn: fn.name, Ops: hexOps(ops)}})
	}
	if in.Fn != "" { // replay of one recorded case
		ops := make([]felt.Felt, len(in.Ops))
		for i, s := range in.Ops {
			f, err := felt.FromString[felt.Felt](s)
			if err != nil {
				t.Fatal(err)
			}
			ops[i] = f
		}
		for i := range fns {
			if fns[i].name == in.Fn {
				check(&fns[i], ops, true)
				out.Done(1, 0)
			}
		}
		return
	}
	seed := vh.Seed()
	r := rand.New(rand.NewSource(seed*15_485_863 + 11))
	// (1) pairs: every ordered pair of boundary operands (edges of every class), textbook-checked
	bops := refcrypto.BoundaryOperands()
	for i := range fns {
		fn := &fns[i]
		if !fn.pair {
			continue
		}
		for _, a := range bops {
			for _, b := range bops {
				check(fn, []felt.Felt{refcrypto.FeltOf(a), refcrypto.FeltOf(b)}, true)
			}
		}
		// every ordered pair of classes with seeded members
		all := append([]string{"zero"}, magClasses...)
		for ai, ca := range all {
			for bi, cb := range all {
				for k := 0; k < 3; k++ {
					ops := []felt.Felt{{}, {}}
					if ca != "zero" {
						ops[0] = *magFelt(ca, seed, 3*ai+k)
					}
					if cb != "zero" {
						ops[1] = *magFelt(cb, seed+1, 3*bi+k)
					}
					check(fn, ops, vh.Thorough())
				}
			}
		}
		out.Done(1, 0)
	}
	// (2) arrays of length 0..5: every class in every position, the other positions small (all vectors with at
	// most two non-small positions; thorough: every class vector up to length 4, sampled at length 5)
	all := append([]string{"zero"}, magClasses...)
	var vectors [][]string
	for n := 0; n <= 5; n++ {
		base := make([]string, n)
		for i := range base {
			base[i] = "small"
		}
		vectors = append(vectors, append([]string{}, base...))
		for i := 0; i < n; i++ {
			for _, ci := range all {
				if ci == "small" {
					continue
				}
				v := append([]string{}, base...)
				v[i] = ci
				vectors = append(vectors, v)
				for j := i + 1; j < n; j++ {
					for _, cj := range all {
						if cj == "small" {
							continue
						}
						w := append([]string{}, v...)
						w[j] = cj
						vectors = append(vectors, w)
					}
				}
			}
		}
	}
	if vh.Thorough() {
		for n := 1; n <= 5; n++ {
			total := 1
			for i := 0; i < n; i++ {
				total *= len(all)
			}
			for x := 0; x < total; x++ {
				if n == 5 && r.Intn(4) != 0 {
					continue
				}
				v := make([]string, n)
				for i, y := 0, x; i < n; i, y = i+1, y/len(all) {
					v[i] = all[y%len(all)]
				}
				vectors = append(vectors, v)
			}
		}
	}
	for vi, v := range vectors {
		ops := make([]felt.Felt, len(v))
		for i, c := range v {
			if c != "zero" {
				ops[i] = *magFelt(c, seed+int64(vi%5), vi*8+i)
			}
		}
		for i := range fns {
			fn := &fns[i]
			if fn.pair {
				continue
			}
			check(fn, ops, vi%16 == 0)
		}
		out.Done(1, 0)
	}
	// (3) the permutation itself, boundary states
	for i := 0; i < len(bops); i++ {
		st := [3]felt.Felt{refcrypto.FeltOf(bops[i]), refcrypto.FeltOf(bops[(i*5+2)%len(bops)]), refcrypto.FeltOf(bops[(i*11+7)%len(bops)])}
		want := refcrypto.HadesBig([3]*big.Int{refcrypto.BigOf(&st[0]), refcrypto.BigOf(&st[1]), refcrypto.BigOf(&st[2])})
		got := st
		crypto.HadesPermutation(&got)
		out.Done(1, 1)
		for j := range got {
			if refcrypto.BigOf(&got[j]).Cmp(want[j]) != 0 {
				key := "crypto:HadesPermutation"
				if !reported["hades"] {
					reported["hades"] = true
					diverge(out, vh.Divergence{Key: key, What: "core/crypto HadesPermutation differs from the math/big reference", Expected: want[j].String(), Observed: got[j].String()})
				}
				break
			}
		}
	}
	out.Stats["crypto_vectors"] = len(vectors)
	out.Stats["crypto_reference_pedersen_fast"] = refcrypto.NPedersenFast
	out.Stats["crypto_reference_pedersen_textbook"] = refcrypto.NPedersenBig
}

// TestProofReplay (C10): behaviours of spec/trie/ProofMBT.tla on the REAL tries at height 251 (both
// VerifyProof hard-code 251) under the bit-expansion embedding: real Prove, the model's tampering
// applied to the real proof objects, real VerifyProof / VerifyRangeProof; the outcome must equal the
// model's verdict, and - independently of the model - must never be a false value / false absence
// (soundness oracle) nor reject an honest proof (completeness oracle).
package trie

import (
	"fmt"
	"math/big"
	"math/rand"
	"sort"
	"strings"
	"testing"

	"github.com/NethermindEth/juno/core/crypto"
	"github.com/NethermindEth/juno/core/felt"
	"github.com/NethermindEth/juno/core/trie"
	"github.com/NethermindEth/juno/core/trie2"
	"github.com/NethermindEth/juno/core/trie2/trienode"
	"github.com/NethermindEth/juno/core/trie2/trieutils"

	"verifharness/internal/refimpl"
	"verifharness/internal/vh"
)

type tamper struct {
	Op   string `json:"op"`
	I    int    `json:"i,omitempty"`
	Mode string `json:"mode,omitempty"`
	K2   []int  `json:"k2,omitempty"`
}

type pAction struct {
	Name   string     `json:"name"`
	K      []int      `json:"k,omitempty"`
	V      int        `json:"v,omitempty"`
	Impl   string     `json:"impl,omitempty"`
	Cached bool       `json:"cached,omitempty"`
	Tm     *tamper    `json:"tm,omitempty"`
	First  *firstSpec `json:"first,omitempty"`
	M      string     `json:"m,omitempty"`
	Claim  []presKV   `json:"claim,omitempty"`
	Whole  bool       `json:"whole,omitempty"`
	// RTamper steps (range_test.go): the claim in the model's order, the right end of the proven range, the tampered
	// node as (path "first" | "last", 1-based index in the model's Prove of that boundary), the verifier's case
	Last []int    `json:"last,omitempty"`
	Cl   []presKV `json:"cl,omitempty"`
	Path string   `json:"path,omitempty"`
	Idx  int      `json:"idx,omitempty"`
	Case string   `json:"case,omitempty"`
}

// firstSpec is the left boundary of a range claim: the model key K, or (J < H) a key that agrees with K
// up to model bit J and leaves the model's key space inside the padding run after that bit, below
// ("below": on the left of the real edge there) or above every key with that prefix.
type firstSpec struct {
	K   []int  `json:"k"`
	J   int    `json:"j"`
	Dir string `json:"dir"`
}

// realFirst concretises a boundary; ok = false when the embedding has no suitable padding bit in run J.
func (v *variant) realFirst(f *firstSpec) (*felt.Felt, bool) {
	base := v.key(f.K)
	h := len(v.Pos)
	if f.J >= h {
		return base, true
	}
	lo := 0
	if f.J > 0 {
		lo = v.Pos[f.J-1] + 1
	}
	hi := v.Pos[f.J]
	pad, _ := new(big.Int).SetString(v.Pad, 10)
	want := uint(1) // "below": a padding 1 becomes 0
	if f.Dir == "above" {
		want = 0
	}
	var cands []int
	for p := lo; p < hi; p++ {
		if pad.Bit(v.Height-1-p) == want {
			cands = append(cands, p)
		}
	}
	if len(cands) == 0 {
		return nil, false
	}
	x := f.J * 7
	for _, b := range f.K {
		x = x*2 + b
	}
	p := cands[x%len(cands)]
	k := bigOf(base)
	k.SetBit(k, v.Height-1-p, 1-want)
	return new(felt.Felt).SetBigInt(k), true
}

type pOut struct {
	Kind string `json:"kind"`
	V    int    `json:"v,omitempty"`
}

type pShape struct {
	T    string `json:"t"`
	Plen int    `json:"plen"`
}

type pStep struct {
	A      pAction  `json:"a"`
	Out    *pOut    `json:"out,omitempty"`
	Shape  []pShape `json:"shape,omitempty"`
	Truth  int      `json:"truth,omitempty"`
	P      []presKV `json:"pres"`
	Expect string   `json:"expect,omitempty"`
	More   bool     `json:"more,omitempty"`
	// Sweep / RTamper steps (range_test.go)
	Claims []sweepClaim `json:"claims,omitempty"`
	Fc     string       `json:"fc,omitempty"`
	Lc     string       `json:"lc,omitempty"`
	Holds  bool         `json:"holds,omitempty"`
	Mv     string       `json:"mv,omitempty"`
	Shape2 []pShape     `json:"shape2,omitempty"`
}

type proofInput struct {
	H          int       `json:"h"`
	MaxV       int       `json:"maxv"`
	Behaviours [][]pStep `json:"behaviours"`
	Variants   []variant `json:"variants,omitempty"`
}

// ------------------------------------------------------------------ real tries for one key/value set

// keptProof is a proof the real Prove handed back, with its rendering at return time: it must not change
// under later calls on the same trie (pooled nodes, shared buffers).
type keptProof struct {
	impl   string
	snap   string
	render func() string
}

type builtTries struct {
	kept   []keptProof
	pres   []presKV
	leg    *trie.Trie
	t2     *trie2.Trie // built in memory, hashed or not
	t2db   *t2Drv      // committed and reopened from the database (what the RPC proves on)
	root   felt.Felt
	cached bool
}

func buildTries(v *variant, pres []presKV, cached bool) (*builtTries, error) {
	b := &builtTries{cached: cached, pres: pres}
	ld, err := newLegacy(v)
	if err != nil {
		return nil, err
	}
	b.leg = ld.tr
	hf := crypto.HashFn(crypto.Pedersen)
	if v.Poseidon {
		hf = crypto.Poseidon
	}
	b.t2 = trie2.NewEmpty(uint8(v.Height), hf)
	d, err := newT2(v)
	if err != nil {
		return nil, err
	}
	for _, p := range pres {
		k, val := v.key(p.K), v.value(p.V)
		if _, err := b.leg.Put(k, val); err != nil {
			return nil, err
		}
		if err := b.t2.Update(k, val); err != nil {
			return nil, err
		}
		if err := d.put(k, val); err != nil {
			return nil, err
		}
	}
	if b.root, err = b.leg.Hash(); err != nil {
		return nil, err
	}
	if cached {
		if _, err := b.t2.Hash(); err != nil {
			return nil, err
		}
	}
	if _, err := d.commit(); err != nil {
		return nil, err
	}
	if err := d.reopen(); err != nil {
		return nil, err
	}
	b.t2db = d
	return b, nil
}

// ------------------------------------------------------------------ tampering of real proof objects

func bigOfPath(b *trie.BitArray) (*big.Int, int) {
	f := b.Felt()
	return bigOf(&f), int(b.Len())
}

func alterPathBig(val *big.Int, n int, op string) (*big.Int, int) {
	switch op {
	case "flip":
		return new(big.Int).Xor(val, big.NewInt(1)), n
	case "short":
		return new(big.Int).Rsh(val, 1), n - 1
	}
	return new(big.Int).Lsh(val, 1), n + 1 // long
}

func legacyPath(val *big.Int, n int) *trie.BitArray {
	mod := new(big.Int).Lsh(big.NewInt(1), 251)
	v := new(big.Int).Mod(val, mod)
	return new(trie.BitArray).SetFelt(uint8(n), new(felt.Felt).SetBigInt(v))
}

func t2Path(val *big.Int, n int) *trieutils.Path {
	mod := new(big.Int).Lsh(big.NewInt(1), 251)
	v := new(big.Int).Mod(val, mod)
	return new(trieutils.Path).SetFelt(uint8(n), new(felt.Felt).SetBigInt(v))
}

type proofPair[N any] struct {
	key felt.Felt
	n   N
}

func legacyHashOf(n trie.ProofNode, hf crypto.HashFn) felt.Felt { return n.Hash(hf) }

// alterLegacy returns the altered copy of node n (nil if the op does not apply to this node kind).
func alterLegacy(n trie.ProofNode, op string, junk *felt.Felt) trie.ProofNode {
	switch x := n.(type) {
	case *trie.Binary:
		switch op {
		case "l:=junk":
			return &trie.Binary{LeftHash: junk, RightHash: x.RightHash}
		case "r:=junk":
			return &trie.Binary{LeftHash: x.LeftHash, RightHash: junk}
		case "l:=r":
			return &trie.Binary{LeftHash: x.RightHash, RightHash: x.RightHash}
		case "r:=l":
			return &trie.Binary{LeftHash: x.LeftHash, RightHash: x.LeftHash}
		case "swap":
			return &trie.Binary{LeftHash: x.RightHash, RightHash: x.LeftHash}
		}
	case *trie.Edge:
		switch op {
		case "c:=junk":
			return &trie.Edge{Child: junk, Path: x.Path}
		case "flip", "short", "long":
			val, n := bigOfPath(x.Path)
			v2, n2 := alterPathBig(val, n, op)
			return &trie.Edge{Child: x.Child, Path: legacyPath(v2, n2)}
		}
	}
	return nil
}

func t2ChildWith(c trienode.Node, h *felt.Felt) trienode.Node {
	hh := *h
	if _, ok := c.(*trienode.ValueNode); ok {
		return (*trienode.ValueNode)(&hh)
	}
	return (*trienode.HashNode)(&hh)
}

func t2ChildHash(c trienode.Node) *felt.Felt {
	h := c.Hash(nil)
	return &h
}

func t2Retype(c trienode.Node) trienode.Node {
	h := *t2ChildHash(c)
	if _, ok := c.(*trienode.ValueNode); ok {
		return (*trienode.HashNode)(&h)
	}
	return (*trienode.ValueNode)(&h)
}

// alterT2 returns the altered node, REBUILT from its content with fresh flags (no cached hash): a proof
// received from outside never carries nodeFlag.Hash.
func alterT2(n trienode.Node, op string, junk *felt.Felt) trienode.Node {
	switch x := n.(type) {
	case *trienode.BinaryNode:
		nb := &trienode.BinaryNode{Flags: trienode.NewNodeFlag()}
		nb.Children = x.Children
		switch op {
		case "l:=junk":
			nb.Children[0] = t2ChildWith(x.Children[0], junk)
		case "r:=junk":
			nb.Children[1] = t2ChildWith(x.Children[1], junk)
		case "l:=r":
			nb.Children[0] = t2ChildWith(x.Children[0], t2ChildHash(x.Children[1]))
		case "r:=l":
			nb.Children[1] = t2ChildWith(x.Children[1], t2ChildHash(x.Children[0]))
		case "swap":
			nb.Children[0], nb.Children[1] = x.Children[1], x.Children[0]
		case "retype-l":
			nb.Children[0] = t2Retype(x.Children[0])
		case "retype-r":
			nb.Children[1] = t2Retype(x.Children[1])
		default:
			return nil
		}
		return nb
	case *trienode.EdgeNode:
		ne := &trienode.EdgeNode{Flags: trienode.NewNodeFlag()}
		ne.Child, ne.Path = x.Child, x.Path
		switch op {
		case "c:=junk":
			ne.Child = t2ChildWith(x.Child, junk)
		case "retype-c":
			ne.Child = t2Retype(x.Child)
		case "flip", "short", "long":
			f := x.Path.Felt()
			v2, n2 := alterPathBig(bigOf(&f), int(x.Path.Len()), op)
			ne.Path = t2Path(v2, n2)
		default:
			return nil
		}
		return ne
	}
	return nil
}

func keyBit(k *felt.Felt, pos int) uint {
	if pos >= 251 {
		return 0
	}
	return bigOf(k).Bit(250 - pos)
}

type verdict struct {
	kind string // "err" | "leaf" | "inner"
	v    int
	raw  string
}

func classify(v *variant, maxv int, val felt.Felt, err error) verdict {
	if err != nil {
		return verdict{kind: "err", raw: err.Error()}
	}
	for x := 0; x <= maxv+1; x++ {
		if val.Equal(v.value(x)) {
			return verdict{kind: "leaf", v: x, raw: val.String()}
		}
	}
	return verdict{kind: "inner", raw: val.String()}
}

// runMembership executes one Query step on the real code.
func runMembership(v *variant, maxv int, bt *builtTries, a pAction, shape []pShape) (got verdict, shapeErr string, err error) {
	defer func() {
		if p := recover(); p != nil {
			got, err = verdict{kind: "panic", raw: fmt.Sprint(p)}, nil
		}
	}()
	hf := crypto.HashFn(crypto.Pedersen)
	if v.Poseidon {
		hf = crypto.Poseidon
	}
	key := v.key(a.K)
	target := key
	if a.Tm.Op == "otherkey" {
		target = v.key(a.Tm.K2)
	}
	junk := v.value(maxv + 1)
	idx := a.Tm.I - 1
	if a.Impl == "legacy" {
		ps := trie.NewProofNodeSet()
		if err := bt.leg.Prove(key, ps); err != nil {
			return got, "", err
		}
		keys, nodes := ps.Keys(), ps.List()
		if a.Tm.Op == "none" {
			render := func() string {
				var sb strings.Builder
				ks, ns := ps.Keys(), ps.List()
				for i := range ns {
					sb.WriteString(ks[i].String() + "=" + ns[i].String() + ";")
				}
				return sb.String()
			}
			bt.kept = append(bt.kept, keptProof{"legacy", render(), render})
		}
		mp, se := mapShape(len(nodes), func(i int) string {
			if _, ok := nodes[i].(*trie.Edge); ok {
				return "edge"
			}
			return "bin"
		}, shape)
		if se != "" {
			return got, se, nil
		}
		if idx >= 0 && idx < len(mp) {
			idx = mp[idx]
		}
		pairs := make([]proofPair[trie.ProofNode], len(nodes))
		for i := range nodes {
			pairs[i] = proofPair[trie.ProofNode]{keys[i], nodes[i]}
		}
		switch a.Tm.Op {
		case "none", "otherkey":
		case "drop":
			pairs = append(pairs[:idx:idx], pairs[idx+1:]...)
		case "leaf-rehash":
			pos := make([]int, len(pairs))
			for i := 1; i < len(pairs); i++ {
				pos[i] = pos[i-1] + int(pairs[i-1].n.Len())
			}
			below := junk
			for i := len(pairs) - 1; i >= 0; i-- {
				var nn trie.ProofNode
				switch x := pairs[i].n.(type) {
				case *trie.Edge:
					nn = &trie.Edge{Child: below, Path: x.Path}
				case *trie.Binary:
					if keyBit(key, pos[i]) == 1 {
						nn = &trie.Binary{LeftHash: x.LeftHash, RightHash: below}
					} else {
						nn = &trie.Binary{LeftHash: below, RightHash: x.RightHash}
					}
				}
				h := nn.Hash(hf)
				pairs[i] = proofPair[trie.ProofNode]{h, nn}
				below = &h
			}
		default:
			nn := alterLegacy(pairs[idx].n, a.Tm.Op, junk)
			if nn == nil {
				return got, "", fmt.Errorf("tamper %s does not apply to real node %d (%T)", a.Tm.Op, idx, pairs[idx].n)
			}
			if a.Tm.Mode == "rekey" {
				pairs[idx] = proofPair[trie.ProofNode]{nn.Hash(hf), nn}
			} else {
				pairs[idx].n = nn
			}
		}
		forged := trie.NewProofNodeSet()
		for _, p := range pairs {
			forged.Put(p.key, p.n)
		}
		val, verr := trie.VerifyProof(&bt.root, target, forged, hf)
		return classify(v, maxv, val, verr), "", nil
	}

	ps := trie2.NewProofNodeSet()
	if err := bt.t2.Prove(key, ps); err != nil {
		return got, "", err
	}
	keys, nodes := ps.Keys(), ps.List()
	if a.Tm.Op == "none" {
		render := func() string {
			var sb strings.Builder
			ks, ns := ps.Keys(), ps.List()
			for i := range ns {
				sb.WriteString(ks[i].String() + "=" + ns[i].String() + ";")
			}
			return sb.String()
		}
		bt.kept = append(bt.kept, keptProof{"trie2", render(), render})
	}
	mp, se := mapShape(len(nodes), func(i int) string {
		if _, ok := nodes[i].(*trienode.EdgeNode); ok {
			return "edge"
		}
		return "bin"
	}, shape)
	if se != "" {
		return got, se, nil
	}
	if idx >= 0 && idx < len(mp) {
		idx = mp[idx]
	}
	pairs := make([]proofPair[trienode.Node], len(nodes))
	for i := range nodes {
		pairs[i] = proofPair[trienode.Node]{keys[i], nodes[i]}
	}
	switch a.Tm.Op {
	case "none", "otherkey":
	case "drop":
		pairs = append(pairs[:idx:idx], pairs[idx+1:]...)
	case "leaf-rehash":
		pos := make([]int, len(pairs))
		for i := 1; i < len(pairs); i++ {
			step := 1
			if e, ok := pairs[i-1].n.(*trienode.EdgeNode); ok {
				step = int(e.Path.Len())
			}
			pos[i] = pos[i-1] + step
		}
		below := junk
		for i := len(pairs) - 1; i >= 0; i-- {
			var nn trienode.Node
			switch x := pairs[i].n.(type) {
			case *trienode.EdgeNode:
				nn = &trienode.EdgeNode{Path: x.Path, Child: t2ChildWith(x.Child, below), Flags: trienode.NewNodeFlag()}
			case *trienode.BinaryNode:
				nb := &trienode.BinaryNode{Flags: trienode.NewNodeFlag()}
				nb.Children = x.Children
				b := keyBit(key, pos[i])
				nb.Children[b] = t2ChildWith(x.Children[b], below)
				nn = nb
			}
			h := nn.Hash(hf)
			pairs[i] = proofPair[trienode.Node]{h, nn}
			below = &h
		}
	default:
		nn := alterT2(pairs[idx].n, a.Tm.Op, junk)
		if nn == nil {
			return got, "", fmt.Errorf("tamper %s does not apply to real node %d (%T)", a.Tm.Op, idx, pairs[idx].n)
		}
		if a.Tm.Mode == "rekey" {
			pairs[idx] = proofPair[trienode.Node]{nn.Hash(hf), nn}
		} else {
			pairs[idx].n = nn
		}
	}
	forged := trie2.NewProofNodeSet()
	for _, p := range pairs {
		forged.Put(p.key, p.n)
	}
	val, verr := trie2.VerifyProof(&bt.root, target, forged, hf)
	return classify(v, maxv, val, verr), "", nil
}

// mapShape aligns the model's proof nodes with the real ones. Under the embedding the real trie has the
// model's binary nodes in the same order, and an edge wherever the model has one (longer); it may have
// additional pure-padding edges where the model goes from binary to binary (never a tamper target).
// Returns, for every model index, the real index.
func mapShape(n int, kind func(int) string, shape []pShape) ([]int, string) {
	m := make([]int, len(shape))
	ri := 0
	for mi, sh := range shape {
		if sh.T == "bin" {
			for ri < n && kind(ri) == "edge" {
				ri++ // padding edge without a model counterpart
			}
		}
		if ri >= n || kind(ri) != sh.T {
			got := "nothing"
			if ri < n {
				got = kind(ri)
			}
			return nil, fmt.Sprintf("model proof node %d is %s, the real proof has %s there (real length %d, model length %d)", mi, sh.T, got, n, len(shape))
		}
		m[mi] = ri
		ri++
	}
	for ; ri < n; ri++ {
		if kind(ri) != "edge" {
			return nil, fmt.Sprintf("real proof has an extra %s node at %d beyond the model's %d nodes", kind(ri), ri, len(shape))
		}
	}
	return m, ""
}

// independent check of an honest proof: the real proof nodes, re-expressed as protocol nodes, must
// verify with refimpl.Verify (written from the protocol definition) and bind the true value
func refVerifyLegacy(v *variant, bt *builtTries, key *felt.Felt) (felt.Felt, error) {
	ps := trie.NewProofNodeSet()
	if err := bt.leg.Prove(key, ps); err != nil {
		return felt.Zero, err
	}
	var nodes []refimpl.ProtoNode
	for _, n := range ps.List() {
		switch x := n.(type) {
		case *trie.Binary:
			nodes = append(nodes, refimpl.ProtoNode{Kind: "binary", Left: *x.LeftHash, Right: *x.RightHash})
		case *trie.Edge:
			val, ln := bigOfPath(x.Path)
			nodes = append(nodes, refimpl.ProtoNode{Kind: "edge", Child: *x.Child, Path: val, Length: uint(ln)})
		}
	}
	h := refimpl.HashFn(refimpl.Pedersen)
	if v.Poseidon {
		h = refimpl.Poseidon
	}
	return refimpl.Verify(bt.root, bigOf(key), 251, nodes, h)
}

func refVerifyT2(v *variant, tr *trie2.Trie, root felt.Felt, key *felt.Felt) (felt.Felt, error) {
	ps := trie2.NewProofNodeSet()
	if err := tr.Prove(key, ps); err != nil {
		return felt.Zero, err
	}
	var nodes []refimpl.ProtoNode
	for _, n := range ps.List() {
		switch x := n.(type) {
		case *trienode.BinaryNode:
			nodes = append(nodes, refimpl.ProtoNode{Kind: "binary", Left: *t2ChildHash(x.Children[0]), Right: *t2ChildHash(x.Children[1])})
		case *trienode.EdgeNode:
			f := x.Path.Felt()
			nodes = append(nodes, refimpl.ProtoNode{Kind: "edge", Child: *t2ChildHash(x.Child), Path: bigOf(&f), Length: uint(x.Path.Len())})
		}
	}
	h := refimpl.HashFn(refimpl.Pedersen)
	if v.Poseidon {
		h = refimpl.Poseidon
	}
	return refimpl.Verify(root, bigOf(key), 251, nodes, h)
}

// ------------------------------------------------------------------ range proofs

type rangeVerdict struct {
	accepted bool
	more     bool
	raw      string
}

// runRange runs one claim. For trie2 the proof comes from `prover`: the in-memory trie (hashed before
// GetRangeProof when the step says cached - the production order, proof nodes then carry their cached
// hash - or never hashed) or the trie reopened from the database (what a node serving state proves on).
func runRange(v *variant, bt *builtTries, a pAction, first *felt.Felt, prover *trie2.Trie) (rv rangeVerdict) {
	defer func() {
		if p := recover(); p != nil {
			rv = rangeVerdict{raw: "panic: " + fmt.Sprint(p)}
		}
	}()
	claim := append([]presKV{}, a.Claim...)
	sort.Slice(claim, func(i, j int) bool { return v.key(claim[i].K).Cmp(v.key(claim[j].K)) < 0 })
	var keys, vals []*felt.Felt
	for _, c := range claim {
		keys = append(keys, v.key(c.K))
		vals = append(vals, v.value(c.V))
	}
	last := first
	if len(keys) > 0 {
		last = keys[len(keys)-1]
	}
	if a.Impl == "legacy" {
		var ps *trie.ProofNodeSet
		if !a.Whole {
			ps = trie.NewProofNodeSet()
			if err := bt.leg.GetRangeProof(first, last, ps); err != nil {
				return rangeVerdict{raw: "GetRangeProof: " + err.Error()}
			}
		}
		more, err := trie.VerifyRangeProof(&bt.root, first, keys, vals, ps)
		if err != nil {
			return rangeVerdict{raw: err.Error()}
		}
		return rangeVerdict{accepted: true, more: more}
	}
	var ps *trie2.ProofNodeSet
	if !a.Whole {
		ps = trie2.NewProofNodeSet()
		if err := prover.GetRangeProof(first, last, ps); err != nil {
			return rangeVerdict{raw: "GetRangeProof: " + err.Error()}
		}
	}
	more, err := trie2.VerifyRangeProof(&bt.root, first, keys, vals, ps)
	if err != nil {
		return rangeVerdict{raw: err.Error()}
	}
	return rangeVerdict{accepted: true, more: more}
}

// rangeKey: the known families range-proof:unsound:* / range-proof:incomplete:* describe the LEGACY verifier
// (it keeps subtree hashes of the edge proofs instead of recomputing them); the same symptom on trie2 has
// never been observed and must not hide behind those prefixes.
func rangeKey(impl, family, detail string) string {
	if impl == "legacy" {
		return fmt.Sprintf("range-proof:%s:legacy:%s", family, detail)
	}
	return fmt.Sprintf("range-proof-%s:%s:%s", impl, family, detail)
}

// ------------------------------------------------------------------ the replayer

// proofVariant is an embedding whose last model bit is the last real bit: the leaves hang where the
// model has them (directly under their binary parent / at the end of the model's leaf edge).
func proofVariant(h int, r *rand.Rand, i int64) variant {
	for {
		e := embedVariant(h, r, i)
		if e.Pos[h-1] == e.Height-1 {
			return e
		}
	}
}

func presSig(p []presKV) string { return fmt.Sprint(p) }

func TestProofReplay(t *testing.T) {
	if !vh.Enabled() {
		t.Skip("driver only")
	}
	var in proofInput
	if err := vh.Input(&in); err != nil {
		t.Fatal(err)
	}
	out := vh.NewResult()
	defer out.Write()
	defer guard(out, "TestProofReplay", nil)
	counts := map[string]int{}
	for bi, beh := range in.Behaviours {
		vs := in.Variants
		if len(vs) == 0 {
			r := rand.New(rand.NewSource(vh.Seed()*1_000_003 + int64(bi)))
			e := proofVariant(in.H, r, vh.Seed()+int64(bi))
			e.Poseidon = bi%4 == 3 // range proofs are Pedersen-only: most behaviours use Pedersen
			vs = []variant{e}
		}
		for vi := range vs {
			v := vs[vi]
			cache := map[string]*builtTries{}
			report := func(si int, key, what string, exp, obs any) {
				diverge(out, vh.Divergence{Key: key, What: what, Step: si, Expected: exp, Observed: obs,
					Input: proofInput{H: in.H, MaxV: in.MaxV, Behaviours: [][]pStep{append(append([]pStep{}, beh[:0]...), beh[si])}, Variants: []variant{v}}})
			}
			for si, s := range beh {
				if s.A.Name == "Put" {
					continue
				}
				sig := fmt.Sprint(s.A.Cached, presSig(s.P))
				bt := cache[sig]
				if bt == nil {
					var err error
					if bt, err = buildTries(&v, s.P, s.A.Cached); err != nil {
						report(si, "proof-harness:build", "building the real tries failed: "+err.Error(), nil, nil)
						continue
					}
					cache[sig] = bt
				}
				out.Done(0, 1)
				switch s.A.Name {
				case "Query":
					op, impl := s.A.Tm.Op, s.A.Impl
					counts["query-"+op]++
					got, shapeErr, err := runMembership(&v, in.MaxV, bt, s.A, s.Shape)
					if err != nil {
						report(si, "proof-harness:"+impl, err.Error(), nil, nil)
						continue
					}
					if shapeErr != "" {
						report(si, "membership-proof:proof-shape:"+impl, "the real Prove collects a different node sequence than Proof.tla: "+shapeErr, s.Shape, nil)
						continue
					}
					if got.kind == "panic" {
						report(si, fmt.Sprintf("membership-proof:panic:%s:%s", op, impl), "VerifyProof panicked: "+got.raw, nil, nil)
						continue
					}
					truthOK := got.kind == "err" || (got.kind == "leaf" && got.v == s.Truth)
					switch {
					case op == "none" && !(got.kind == "leaf" && got.v == s.Truth):
						key := "membership-proof:incomplete:" + impl
						if len(s.P) == 0 {
							key = "membership-proof:empty-trie-rejected:" + impl
						}
						report(si, key, "an honest proof does not establish the key's value/absence: VerifyProof answers "+got.kind+" "+got.raw+
							" (for the empty trie both verifiers answer 'proof node not found' instead of proving absence)", s.Truth, got.raw)
					case !truthOK:
						key := fmt.Sprintf("membership-proof:unsound:%s:%s", op, impl)
						what := "a tampered proof verifies and yields a FALSE value/absence"
						switch {
						case op == "retype-l" || op == "retype-r" || op == "retype-c":
							key = "membership-proof:retyped-child:" + impl
							what += ": trie2.VerifyProof ends the walk at any child TYPED as value, so a hash child retyped as value 'proves' an inner hash as the key's value"
						}
						report(si, key, what, fmt.Sprintf("error or value %d", s.Truth), got.kind+" "+got.raw)
					}
					// conformance with the model's transcription of VerifyProof
					if s.A.Tm.Mode == "mem" {
						report(si, "proof-harness:unsupported-tamper-mode", "in-place tampering with the cached hash kept is not a proof tampering and is not supported", nil, nil)
						continue
					}
					if got.kind != s.Out.Kind || (got.kind == "leaf" && got.v != s.Out.V) {
						report(si, fmt.Sprintf("membership-proof:verify-differs-from-model:%s:%s", op, impl),
							"the real VerifyProof outcome differs from Proof.tla's transcription", s.Out, got.kind+" "+fmt.Sprint(got.v)+" "+got.raw)
					}
					// honest proofs: independent verifier over the real proof nodes, incl. the database-loaded trie2
					if op == "none" {
						want := v.value(s.Truth)
						key := v.key(s.A.K)
						var rv felt.Felt
						var rerr error
						if impl == "legacy" {
							rv, rerr = refVerifyLegacy(&v, bt, key)
						} else {
							rv, rerr = refVerifyT2(&v, bt.t2db.tr, bt.root, key)
						}
						counts["independent-verifications"]++
						if rerr != nil || !rv.Equal(want) {
							report(si, "membership-proof:independent-verifier:"+impl, fmt.Sprintf("the real proof does not verify with the independent verifier (err %v)", rerr), want.String(), rv.String())
						}
					}
				case "Sweep":
					if v.Poseidon {
						counts["range-skipped-poseidon"]++
						continue
					}
					first, ok := v.realFirst(s.A.First)
					if !ok {
						counts["range-skipped-no-padding-bit"]++
						continue
					}
					other := cache[fmt.Sprint(!s.A.Cached, presSig(s.P))]
					if other == nil {
						var err error
						if other, err = buildTries(&v, s.P, !s.A.Cached); err != nil {
							report(si, "proof-harness:build", "building the real tries failed: "+err.Error(), nil, nil)
							continue
						}
						cache[fmt.Sprint(!s.A.Cached, presSig(s.P))] = other
					}
					hashed, plain := other, bt
					if s.A.Cached {
						hashed, plain = bt, other
					}
					counts["sweeps"]++
					counts["sweep-first-"+s.Fc]++
					counts["sweep-last-"+s.Lc]++
					runSweep(&v, hashed, plain, s, first, counts, func(key, what string, exp, obs any) { report(si, key, what, exp, obs) })
				case "RTamper":
					if v.Poseidon {
						counts["range-skipped-poseidon"]++
						continue
					}
					rv, shapeErr, err := runRTamper(&v, in.MaxV, bt, s)
					if err != nil {
						report(si, "proof-harness:rtamper:"+s.A.Impl, err.Error(), nil, nil)
						continue
					}
					if shapeErr != "" {
						report(si, "membership-proof:proof-shape:"+s.A.Impl, "the real Prove collects a different node sequence than Proof.tla: "+shapeErr, s.Shape, nil)
						continue
					}
					judgeRTamper(s, rv, counts, func(key, what string, exp, obs any) { report(si, key, what, exp, obs) })
				case "Range":
					if v.Poseidon {
						counts["range-skipped-poseidon"]++
						continue
					}
					first, ok := v.realFirst(s.A.First)
					if !ok {
						counts["range-skipped-no-padding-bit"]++
						continue
					}
					counts["range-"+s.A.M]++
					if s.A.First.J < in.H {
						counts[fmt.Sprintf("range-first-inside-edge-%s-run%d", s.A.First.Dir, s.A.First.J)]++
					}
					provers := []*trie2.Trie{bt.t2}
					if s.A.Impl == "trie2" && s.A.Cached {
						provers = append(provers, bt.t2db.tr) // database-loaded: resolved nodes carry their hash
						counts["range-trie2-cached-provers"]++
					}
					for pi, prover := range provers {
						rv := runRange(&v, bt, s.A, first, prover)
						impl := s.A.Impl
						switch {
						case len(rv.raw) > 6 && rv.raw[:6] == "panic:":
							report(si, fmt.Sprintf("range-proof:panic:%s:%s", impl, s.A.M), "VerifyRangeProof panics on a "+s.Expect+"-class claim ("+s.A.M+") instead of returning a verdict: "+rv.raw, s.Expect, rv.raw)
						case s.Expect == "accept" && !rv.accepted && len(s.P) == 0:
							report(si, "range-proof:empty-trie-rejected:"+impl, "the (true) empty claim on the empty trie is rejected: "+rv.raw, "accept", rv.raw)
						case s.Expect == "accept" && !rv.accepted:
							report(si, rangeKey(impl, "incomplete", "true-claim-rejected"), "a true range claim is rejected: "+rv.raw, "accept", rv.raw)
						case s.Expect == "accept" && rv.more != s.More:
							report(si, rangeKey(impl, "incomplete", "has-more-wrong"), "a true range claim is accepted with a wrong has-more flag", s.More, rv.more)
						case s.Expect == "reject" && rv.accepted:
							report(si, rangeKey(impl, "unsound", s.A.M), "a false range claim ("+s.A.M+") is accepted", "reject", "accepted")
						case s.Expect == "left-edge" && rv.accepted:
							counts["left-edge-accepted-"+impl]++
							report(si, "range-proof:left-edge-omission:"+impl,
								"VerifyRangeProof accepts a claim that omits present keys between `first` and the smallest claimed key (no production caller yet; TODO in core/trie/proof.go:220)",
								"reject", "accepted")
						case s.Expect == "left-edge":
							counts["left-edge-rejected-"+impl]++
						case s.Expect == "left-edge-aliased" && rv.accepted:
							counts["left-edge-aliased-accepted-"+impl]++
							report(si, "range-proof:left-edge-omission:"+impl+":aliased-siblings",
								"trie2 VerifyRangeProof accepts a left-edge omission with an ABSENT `first` when two sibling subtrees have the same commitment "+
									"(e.g. {1:5, 18:7, 22:7}, first=16, answer [22]): proofToPath resolves both children to one node object and "+
									"unsetInternal finds the fork point by pointer inequality", "reject", "accepted")
						case s.Expect == "left-edge-aliased":
							counts["left-edge-aliased-rejected-"+impl]++
						}
						_ = pi
					}
				}
			}
			// retained proofs: unchanged after all the later Prove / GetRangeProof / Get calls on the same tries
			for _, bt := range cache {
				for _, kv := range bt.pres {
					_, _ = bt.leg.Get(v.key(kv.K)) // churn the legacy node pool
				}
				for _, kp := range bt.kept {
					counts["retained-proofs-rechecked"]++
					if now := kp.render(); now != kp.snap {
						diverge(out, vh.Divergence{Key: "proof-alias:" + kp.impl + ":proof-changed-after-later-calls",
							What:     "a proof returned by Prove changed its content under later calls on the same trie (it aliases pooled / shared storage)",
							Expected: kp.snap, Observed: now,
							Input: proofInput{H: in.H, MaxV: in.MaxV, Behaviours: [][]pStep{beh}, Variants: []variant{v}}})
						break
					}
				}
			}
			out.Done(1, 0)
		}
	}
	for k, c := range counts {
		out.Count("proof_"+k, c)
	}
	if len(in.Behaviours) > 0 {
		var qs []pStep
		for _, s := range in.Behaviours[0] {
			if s.A.Name != "Put" && len(qs) < 4 {
				s.P = nil
				qs = append(qs, s)
			}
		}
		out.Sample(vh.J{"kind": "proof", "first_queries": qs})
	}
}

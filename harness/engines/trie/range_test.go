// Range-proof sweeps and tampered range proofs (C10): the Sweep / RTamper steps of spec/trie/ProofMBT.tla on
// the REAL VerifyRangeProof of core/trie2 and core/trie at height 251.
//
// Sweep: for one (first, last) EVERY claim of the contract's shapes (every subset of the in-range keys
// withheld, each value altered, a key added inside / below / beyond the range, the empty claim), each verified
// with the proof nodes of every PROVENANCE - the dimension a verifier that trusts cached node hashes is
// sensitive to:
//
//	mem-hashed    the objects GetRangeProof returns on a trie that was hashed before (the production order;
//	              the nodes are copies of the trie's nodes and carry nodeFlag.Hash)
//	mem-unhashed  the same on a trie that was never hashed (no cache)
//	db            the trie reopened from the database (resolved nodes carry their hash)
//	wire          the nodes re-decoded from their encoding (trienode.EncodeNode / DecodeNode): no cache
//
// The verdict must be the contract's (accept iff the claim is the trie's content in the range, has-more right)
// and, where RangeProof.tla's transcription of the code as it is applies (trie2, `first` a model key), the
// transcription's - which closes the verdicts the contract leaves open for the known left-edge deviations.
//
// RTamper: one node of the range proof dropped / altered (rebuilt from its content, stored under its old key
// or under its new hash) under a true or singly falsified claim: an accepted claim must hold.
package trie

import (
	"fmt"
	"os"
	"sort"
	"strings"

	"github.com/NethermindEth/juno/core/crypto"
	"github.com/NethermindEth/juno/core/felt"
	"github.com/NethermindEth/juno/core/trie"
	"github.com/NethermindEth/juno/core/trie2"
	"github.com/NethermindEth/juno/core/trie2/trienode"
)

type sweepClaim struct {
	M      string   `json:"m"`
	Claim  []presKV `json:"claim"`
	Expect string   `json:"expect"`
	More   bool     `json:"more"`
	Mv     string   `json:"mv"`
}

// wireCopy re-decodes every node of an honest trie2 proof set from its encoding (what a proof received from
// outside looks like: no cached hash). The depth of a node, which the decoder needs to type bottom-level
// children as values, is found by walking the boundary keys from the root.
func wireCopy(ps *trie2.ProofNodeSet, root *felt.Felt, keys ...*felt.Felt) (*trie2.ProofNodeSet, error) {
	depth := map[felt.Felt]int{}
	for _, key := range keys {
		h, d := *root, 0
	walk:
		for {
			n, ok := ps.Get(h)
			if !ok {
				break
			}
			if _, seen := depth[h]; !seen {
				depth[h] = d
			}
			var child trienode.Node
			switch x := n.(type) {
			case *trienode.BinaryNode:
				child = x.Children[keyBit(key, d)]
				d++
			case *trienode.EdgeNode:
				for i := 0; i < int(x.Path.Len()); i++ {
					if keyBit(key, d+i) != uint(x.Path.Bit(uint8(i))) {
						break walk
					}
				}
				child = x.Child
				d += int(x.Path.Len())
			default:
				break walk
			}
			hn, ok := child.(*trienode.HashNode)
			if !ok {
				break
			}
			h = felt.Felt(*hn)
		}
	}
	out := trie2.NewProofNodeSet()
	ks, ns := ps.Keys(), ps.List()
	for i := range ns {
		d, ok := depth[ks[i]]
		if !ok {
			return nil, fmt.Errorf("proof node %s is not on the path of a boundary key", ks[i].String())
		}
		nn, err := trienode.DecodeNode(trienode.EncodeNode(ns[i]), &felt.Zero, uint8(d), 251)
		if err != nil {
			return nil, fmt.Errorf("re-decoding proof node %s: %w", ks[i].String(), err)
		}
		out.Put(ks[i], nn)
	}
	return out, nil
}

type provenance struct {
	name   string
	prover *trie2.Trie
	wire   bool
}

func sortedClaim(v *variant, claim []presKV) (keys, vals []*felt.Felt) {
	c := append([]presKV{}, claim...)
	sort.Slice(c, func(i, j int) bool { return v.key(c[i].K).Cmp(v.key(c[j].K)) < 0 })
	for _, p := range c {
		keys = append(keys, v.key(p.K))
		vals = append(vals, v.value(p.V))
	}
	return keys, vals
}

// runRangeProv: one claim on the real verifier with the honest proof of the given provenance (legacy: p == nil).
func runRangeProv(v *variant, bt *builtTries, impl string, claim []presKV, first *felt.Felt, p *provenance) (rv rangeVerdict) {
	defer func() {
		if r := recover(); r != nil {
			rv = rangeVerdict{raw: "panic: " + fmt.Sprint(r)}
		}
	}()
	keys, vals := sortedClaim(v, claim)
	last := first
	if len(keys) > 0 {
		last = keys[len(keys)-1]
	}
	if impl == "legacy" {
		ps := trie.NewProofNodeSet()
		if err := bt.leg.GetRangeProof(first, last, ps); err != nil {
			return rangeVerdict{raw: "GetRangeProof: " + err.Error()}
		}
		more, err := trie.VerifyRangeProof(&bt.root, first, keys, vals, ps)
		if err != nil {
			return rangeVerdict{raw: err.Error()}
		}
		return rangeVerdict{accepted: true, more: more}
	}
	ps := trie2.NewProofNodeSet()
	if err := p.prover.GetRangeProof(first, last, ps); err != nil {
		return rangeVerdict{raw: "GetRangeProof: " + err.Error()}
	}
	if p.wire {
		var err error
		if ps, err = wireCopy(ps, &bt.root, first, last); err != nil {
			return rangeVerdict{raw: "harness: " + err.Error()}
		}
	}
	more, err := trie2.VerifyRangeProof(&bt.root, first, keys, vals, ps)
	if err != nil {
		return rangeVerdict{raw: err.Error()}
	}
	return rangeVerdict{accepted: true, more: more}
}

func (rv rangeVerdict) panicked() bool { return strings.HasPrefix(rv.raw, "panic:") }
func (rv rangeVerdict) harness() bool  { return strings.HasPrefix(rv.raw, "harness:") }

// class: the verdict in the vocabulary of ProofMBT.tla's MV
func (rv rangeVerdict) class() string {
	switch {
	case rv.panicked():
		return "panic"
	case rv.accepted && rv.more:
		return "accept+"
	case rv.accepted:
		return "accept-"
	}
	return "reject"
}

type stepReporter func(key, what string, exp, obs any)

// runSweep: every claim of one Sweep step, every provenance. hashed / plain are the real tries of the step's
// key/value set built with / without hashing the in-memory trie2 before proving.
func runSweep(v *variant, hashed, plain *builtTries, s pStep, first *felt.Felt, counts map[string]int, report stepReporter) {
	impl := s.A.Impl
	provs := []*provenance{nil}
	if impl == "trie2" {
		provs = []*provenance{
			{name: "mem-hashed", prover: hashed.t2},
			{name: "mem-unhashed", prover: plain.t2},
			{name: "db", prover: hashed.t2db.tr},
			{name: "wire", prover: hashed.t2, wire: true},
		}
	}
	reported := map[string]bool{}
	once := func(key, what string, exp, obs any) {
		if !reported[key] {
			reported[key] = true
			report(key, what, exp, obs)
		}
	}
	for _, c := range s.Claims {
		counts["sweep-claims"]++
		counts["sweep-"+c.M]++
		// the claims that re-insert nothing but boundary leaves left in place by unset (no insert re-creates a node):
		// only the dirty marks of unsetInternal / unset stand between a cached hash and the verdict
		if s.Lc == "leaf-under-bin" && (c.M == "omit-all-but-last" || (c.M == "omit-interior-all" && s.Fc == "leaf-under-bin")) {
			counts["sweep-claims-of-kept-boundary-leaves-only"]++
			if c.M == "omit-interior-all" {
				counts["sweep-claims-of-two-kept-boundary-leaves"]++
			}
		}
		for _, p := range provs {
			pname := "direct"
			if p != nil {
				pname = p.name
			}
			rv := runRangeProv(v, hashed, impl, c.Claim, first, p)
			counts["sweep-verifications"]++
			if rv.harness() {
				once("proof-harness:sweep", rv.raw, nil, nil)
				continue
			}
			where := fmt.Sprintf("%s:%s:first=%s:last=%s", c.M, pname, s.Fc, s.Lc)
			desc := fmt.Sprintf("claim %s (first %s, last %s), proof nodes %s", c.M, s.Fc, s.Lc, pname)
			got := rv.class()
			modelSays := c.Mv != "" && impl == "trie2"
			switch {
			case rv.panicked() && modelSays && c.Mv != "panic":
				once("range-proof-trie2:panic-where-model-returns:"+where, "VerifyRangeProof panics where the transcription of the code as it is returns a verdict ("+desc+"): "+rv.raw, c.Mv, rv.raw)
			case rv.panicked():
				once(fmt.Sprintf("range-proof:panic:%s:%s", impl, c.M), "VerifyRangeProof panics on a "+c.Expect+"-class claim ("+desc+") instead of returning a verdict: "+rv.raw, c.Expect, rv.raw)
			case c.Expect == "accept" && !rv.accepted && len(s.P) == 0:
				once("range-proof:empty-trie-rejected:"+impl, "the (true) empty claim on the empty trie is rejected: "+rv.raw, "accept", rv.raw)
			case c.Expect == "accept" && !rv.accepted:
				once(rangeKey(impl, "incomplete", "true-claim-rejected:"+pname), "a true range claim is rejected ("+desc+"): "+rv.raw, "accept", rv.raw)
			case c.Expect == "accept" && rv.more != c.More:
				once(rangeKey(impl, "incomplete", "has-more-wrong:"+pname), "a true range claim is accepted with a wrong has-more flag ("+desc+")", c.More, rv.more)
			case c.Expect == "reject" && rv.accepted:
				once(rangeKey(impl, "unsound", where), "a false range claim is accepted: "+desc, "reject", "accepted")
			case (c.Expect == "left-edge" || c.Expect == "left-edge-aliased") && rv.accepted:
				// the known left-edge deviations - unless the transcription of the code as it is rejects this very claim
				if modelSays && !strings.HasPrefix(c.Mv, "accept") {
					once(rangeKey(impl, "unsound", where), "a false range claim is accepted that the code as it is (RangeProof.tla) rejects: "+desc, c.Mv, "accepted")
					break
				}
				counts["left-edge-accepted-"+impl]++
				key := "range-proof:left-edge-omission:" + impl
				if c.Expect == "left-edge-aliased" {
					key += ":aliased-siblings"
				}
				once(key, "VerifyRangeProof accepts a claim that omits present keys between `first` and the smallest claimed key ("+desc+"; no production caller yet; TODO in core/trie/proof.go:220)", "reject", "accepted")
			case modelSays && got != c.Mv:
				once("range-proof-trie2:verify-differs-from-model:"+where, "the real VerifyRangeProof outcome differs from RangeProof.tla's transcription of the code as it is ("+desc+"): "+rv.raw, c.Mv, got)
			}
			if modelSays && got == c.Mv {
				counts["sweep-model-agreed"]++
			}
		}
	}
}

// ------------------------------------------------------------------ tampered range proofs

// tamperTarget: the key (hash) of the real proof node that corresponds to node idx (1-based) of the model's
// Prove(pathKey), aligned by shape.
func tamperTargetLegacy(bt *builtTries, pathKey *felt.Felt, shape []pShape, idx int) (felt.Felt, string, error) {
	ps := trie.NewProofNodeSet()
	if err := bt.leg.Prove(pathKey, ps); err != nil {
		return felt.Zero, "", err
	}
	nodes := ps.List()
	mp, se := mapShape(len(nodes), func(i int) string {
		if _, ok := nodes[i].(*trie.Edge); ok {
			return "edge"
		}
		return "bin"
	}, shape)
	if se != "" || idx < 1 || idx > len(mp) {
		return felt.Zero, se, nil
	}
	return ps.Keys()[mp[idx-1]], "", nil
}

func tamperTargetT2(tr *trie2.Trie, pathKey *felt.Felt, shape []pShape, idx int) (felt.Felt, string, error) {
	ps := trie2.NewProofNodeSet()
	if err := tr.Prove(pathKey, ps); err != nil {
		return felt.Zero, "", err
	}
	nodes := ps.List()
	mp, se := mapShape(len(nodes), func(i int) string {
		if _, ok := nodes[i].(*trienode.EdgeNode); ok {
			return "edge"
		}
		return "bin"
	}, shape)
	if se != "" || idx < 1 || idx > len(mp) {
		return felt.Zero, se, nil
	}
	return ps.Keys()[mp[idx-1]], "", nil
}

// runRTamper executes one RTamper step; shapeErr != "" when the real proof has another node sequence than the model's.
func runRTamper(v *variant, maxv int, bt *builtTries, s pStep) (rv rangeVerdict, shapeErr string, err error) {
	defer func() {
		if r := recover(); r != nil {
			rv, err = rangeVerdict{raw: "panic: " + fmt.Sprint(r)}, nil
		}
	}()
	a := s.A
	first := v.key(a.K)
	last := first
	if len(a.Last) > 0 {
		last = v.key(a.Last)
	}
	var keys, vals []*felt.Felt
	for _, c := range a.Cl { // in the model's (sorted) order
		keys = append(keys, v.key(c.K))
		vals = append(vals, v.value(c.V))
	}
	junk := v.value(maxv + 1)
	pathKey, shape := first, s.Shape
	if a.Path == "last" {
		pathKey, shape = last, s.Shape2
	}
	hf := crypto.HashFn(crypto.Pedersen) // range proofs are Pedersen-only
	if a.Impl == "legacy" {
		ps := trie.NewProofNodeSet()
		if err := bt.leg.GetRangeProof(first, last, ps); err != nil {
			return rv, "", err
		}
		forged := ps
		if a.Tm.Op != "none" {
			target, se, err := tamperTargetLegacy(bt, pathKey, shape, a.Idx)
			if err != nil || se != "" {
				return rv, se, err
			}
			forged = trie.NewProofNodeSet()
			ks, ns := ps.Keys(), ps.List()
			found := false
			for i := range ns {
				if !ks[i].Equal(&target) {
					forged.Put(ks[i], ns[i])
					continue
				}
				found = true
				if a.Tm.Op == "drop" {
					continue
				}
				nn := alterLegacy(ns[i], a.Tm.Op, junk)
				if nn == nil {
					return rv, "", fmt.Errorf("tamper %s does not apply to real node %T", a.Tm.Op, ns[i])
				}
				if a.Tm.Mode == "rekey" {
					forged.Put(nn.Hash(hf), nn)
				} else {
					forged.Put(ks[i], nn)
				}
			}
			if !found {
				return rv, "", fmt.Errorf("tamper target %s is not in the range proof", target.String())
			}
		}
		more, verr := trie.VerifyRangeProof(&bt.root, first, keys, vals, forged)
		if verr != nil {
			return rangeVerdict{raw: verr.Error()}, "", nil
		}
		return rangeVerdict{accepted: true, more: more}, "", nil
	}
	ps := trie2.NewProofNodeSet()
	if err := bt.t2.GetRangeProof(first, last, ps); err != nil {
		return rv, "", err
	}
	ps, err = wireCopy(ps, &bt.root, first, last) // a proof received from outside: no cached hashes
	if err != nil {
		return rv, "", err
	}
	forged := ps
	if a.Tm.Op != "none" {
		target, se, err := tamperTargetT2(bt.t2, pathKey, shape, a.Idx)
		if err != nil || se != "" {
			return rv, se, err
		}
		forged = trie2.NewProofNodeSet()
		ks, ns := ps.Keys(), ps.List()
		found := false
		for i := range ns {
			if !ks[i].Equal(&target) {
				forged.Put(ks[i], ns[i])
				continue
			}
			found = true
			if a.Tm.Op == "drop" {
				continue
			}
			nn := alterT2(ns[i], a.Tm.Op, junk)
			if nn == nil {
				return rv, "", fmt.Errorf("tamper %s does not apply to real node %T", a.Tm.Op, ns[i])
			}
			if a.Tm.Mode == "rekey" {
				forged.Put(nn.Hash(hf), nn)
			} else {
				forged.Put(ks[i], nn)
			}
		}
		if !found {
			return rv, "", fmt.Errorf("tamper target %s is not in the range proof", target.String())
		}
	}
	more, verr := trie2.VerifyRangeProof(&bt.root, first, keys, vals, forged)
	if verr != nil {
		return rangeVerdict{raw: verr.Error()}, "", nil
	}
	return rangeVerdict{accepted: true, more: more}, "", nil
}

// judgeRTamper: an accepted claim must hold (and, for the untouched proof, carry the right has-more flag).
func judgeRTamper(s pStep, rv rangeVerdict, counts map[string]int, report stepReporter) {
	a := s.A
	op, mode := a.Tm.Op, a.Tm.Mode
	if mode == "" {
		mode = op // none / drop
	}
	counts["rtamper-"+op]++
	counts["rtamper-case-"+a.Case]++
	counts[fmt.Sprintf("rtamper-%s-%s-holds=%v-%s", a.Case, mode, s.Holds, rv.class())]++
	desc := fmt.Sprintf("%s case, claim %s, node %d of Prove(%s) %s (%s)", a.Case, a.M, a.Idx, a.Path, op, mode)
	switch {
	case rv.panicked():
		report(fmt.Sprintf("range-proof:panic:%s:tampered-%s", a.Impl, op), "VerifyRangeProof panics on a tampered range proof ("+desc+"): "+rv.raw, "a verdict", rv.raw)
	case rv.accepted && !s.Holds && a.Impl == "legacy":
		report(rangeKey("legacy", "unsound", fmt.Sprintf("tampered:%s:%s:%s:%s", mode, a.Case, op, a.M)), "a range claim that does not hold is accepted with a tampered proof ("+desc+")", "reject", "accepted")
	case rv.accepted && !s.Holds:
		what := "a range claim that does not hold is accepted with a tampered proof (" + desc + ")"
		if mode == "keep" {
			what += ": proofToPath takes a node from the proof set by the key it is stored under and never compares the node's own hash with that key; " +
				"only the general case re-hashes the nodes (final root comparison), the single-element and empty cases never do"
		}
		report(fmt.Sprintf("range-proof-trie2:unsound-tampered:%s:%s:%s:%s", mode, a.Case, op, a.M), what, "reject", "accepted")
	case rv.accepted && op == "none" && rv.more != s.More:
		report(rangeKey(a.Impl, "incomplete", "has-more-wrong"), "a true range claim is accepted with a wrong has-more flag ("+desc+")", s.More, rv.more)
	case !rv.accepted && op == "none" && a.M == "true" && len(s.P) > 0:
		report(rangeKey(a.Impl, "incomplete", "true-claim-rejected"), "a true range claim is rejected ("+desc+"): "+rv.raw, "accept", rv.raw)
	}
	if a.Impl == "trie2" && s.Mv != "" {
		if rv.class() == s.Mv {
			counts["rtamper-model-agreed"]++
		} else {
			counts["rtamper-model-differs"]++
			if op == "none" && !rv.panicked() {
				report("range-proof-trie2:verify-differs-from-model:"+a.Case+":"+a.M, "the real VerifyRangeProof outcome on an honest proof differs from RangeProof.tla's transcription ("+desc+"): "+rv.raw, s.Mv, rv.class())
			} else if os.Getenv("VH_DEBUG_TAMPER") != "" {
				report("debug:tampered-differs-from-model:"+a.Case+":"+op+":"+mode, desc+": "+rv.raw, s.Mv, rv.class())
			}
		}
	}
}

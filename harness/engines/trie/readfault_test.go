// Read-fault dimension of C01 at the state level (spec/trie/StateCommit.tla ReadFault / FailedUpdateIsNoOp).
//
// readFaultStore numbers every READ of a key-value store (Get / Has / iterator creation / iterator value,
// on the store itself, on its indexed batches and on its snapshots) and makes the k-th one fail with an
// error that is not db.ErrKeyNotFound (an I/O error, a closed database, an undecodable blob all look like
// this to the caller).  sweepReadFaults applies ONE block once per read position on a copy of the node's
// database: the application may fail, but whenever it succeeds the root it computed and stored must be the
// reference commitment, and after a failed attempt the next fault-free attempt on the same node must give
// the right root (a failed read must not poison what later updates compute).
package trie

import (
	"errors"
	"fmt"
	"sync"

	"github.com/NethermindEth/juno/blockchain"
	"github.com/NethermindEth/juno/blockchain/networks"
	"github.com/NethermindEth/juno/core"
	"github.com/NethermindEth/juno/core/felt"
	"github.com/NethermindEth/juno/db"
	"github.com/NethermindEth/juno/db/memory"
)

var errInjectedRead = errors.New("verif: injected storage read failure")

// stateObservations: behaviour outside what C01 states (printed as OBSERVATION lines by the check).
var stateObservations []string

type readFaults struct {
	mu    sync.Mutex
	n, at int
	fired bool
	kind  string // what the failing read was
}

func (f *readFaults) arm(k int) { f.mu.Lock(); f.n, f.at, f.fired, f.kind = 0, k, false, ""; f.mu.Unlock() }
func (f *readFaults) disarm()   { f.mu.Lock(); f.at = 0; f.mu.Unlock() }
func (f *readFaults) count() int {
	f.mu.Lock()
	defer f.mu.Unlock()
	return f.n
}

// hit counts one read and reports whether it is the one that fails.
func (f *readFaults) hit(kind string, key []byte) bool {
	f.mu.Lock()
	defer f.mu.Unlock()
	if f.at == 0 {
		return false
	}
	f.n++
	if f.n == f.at {
		f.fired = true
		f.kind = fmt.Sprintf("%s %x", kind, key)
		return true
	}
	return false
}

type faultReader struct {
	db.KeyValueReader
	f *readFaults
}

func (r faultReader) Get(key []byte, cb func([]byte) error) error {
	if r.f.hit("Get", key) {
		return errInjectedRead
	}
	return r.KeyValueReader.Get(key, cb)
}

func (r faultReader) Has(key []byte) (bool, error) {
	if r.f.hit("Has", key) {
		return false, errInjectedRead
	}
	return r.KeyValueReader.Has(key)
}

func (r faultReader) NewIterator(prefix []byte, withUpperBound bool) (db.Iterator, error) {
	if r.f.hit("NewIterator", prefix) {
		return nil, errInjectedRead
	}
	it, err := r.KeyValueReader.NewIterator(prefix, withUpperBound)
	if err != nil {
		return nil, err
	}
	return &faultIter{Iterator: it, f: r.f}, nil
}

type faultIter struct {
	db.Iterator
	f *readFaults
}

func (i *faultIter) Value() ([]byte, error) {
	if i.f.hit("Iterator.Value", i.Iterator.Key()) {
		return nil, errInjectedRead
	}
	return i.Iterator.Value()
}

func (i *faultIter) UncopiedValue() ([]byte, error) {
	if i.f.hit("Iterator.UncopiedValue", i.Iterator.Key()) {
		return nil, errInjectedRead
	}
	return i.Iterator.UncopiedValue()
}

type readFaultStore struct {
	db.KeyValueStore
	f *readFaults
}

func newReadFaultStore(inner db.KeyValueStore) *readFaultStore {
	return &readFaultStore{KeyValueStore: inner, f: &readFaults{}}
}

func (s *readFaultStore) reader() faultReader { return faultReader{s.KeyValueStore, s.f} }
func (s *readFaultStore) Get(key []byte, cb func([]byte) error) error {
	return s.reader().Get(key, cb)
}
func (s *readFaultStore) Has(key []byte) (bool, error) { return s.reader().Has(key) }
func (s *readFaultStore) NewIterator(prefix []byte, ub bool) (db.Iterator, error) {
	return s.reader().NewIterator(prefix, ub)
}
func (s *readFaultStore) NewIndexedBatch() db.IndexedBatch {
	return &faultBatch{IndexedBatch: s.KeyValueStore.NewIndexedBatch(), f: s.f}
}
func (s *readFaultStore) NewIndexedBatchWithSize(n int) db.IndexedBatch {
	return &faultBatch{IndexedBatch: s.KeyValueStore.NewIndexedBatchWithSize(n), f: s.f}
}
func (s *readFaultStore) NewSnapshot() db.Snapshot {
	return &faultSnap{Snapshot: s.KeyValueStore.NewSnapshot(), f: s.f}
}
func (s *readFaultStore) Update(fn func(db.IndexedBatch) error) error {
	return s.KeyValueStore.Update(func(b db.IndexedBatch) error { return fn(&faultBatch{IndexedBatch: b, f: s.f}) })
}

type faultBatch struct {
	db.IndexedBatch
	f *readFaults
}

func (b *faultBatch) Get(key []byte, cb func([]byte) error) error {
	return faultReader{b.IndexedBatch, b.f}.Get(key, cb)
}
func (b *faultBatch) Has(key []byte) (bool, error) { return faultReader{b.IndexedBatch, b.f}.Has(key) }
func (b *faultBatch) NewIterator(prefix []byte, ub bool) (db.Iterator, error) {
	return faultReader{b.IndexedBatch, b.f}.NewIterator(prefix, ub)
}

type faultSnap struct {
	db.Snapshot
	f *readFaults
}

func (s *faultSnap) Get(key []byte, cb func([]byte) error) error {
	return faultReader{s.Snapshot, s.f}.Get(key, cb)
}
func (s *faultSnap) Has(key []byte) (bool, error) { return faultReader{s.Snapshot, s.f}.Has(key) }
func (s *faultSnap) NewIterator(prefix []byte, ub bool) (db.Iterator, error) {
	return faultReader{s.Snapshot, s.f}.NewIterator(prefix, ub)
}

// cloneStore copies every entry of a store into a fresh in-memory database.
func cloneStore(src db.KeyValueStore) (db.KeyValueStore, error) {
	dst := memory.New()
	it, err := src.NewIterator(nil, false)
	if err != nil {
		return nil, err
	}
	defer it.Close()
	for ok := it.First(); ok; ok = it.Next() {
		v, err := it.Value()
		if err != nil {
			return nil, err
		}
		if err := dst.Put(append([]byte{}, it.Key()...), append([]byte{}, v...)); err != nil {
			return nil, err
		}
	}
	return dst, nil
}

type blockBuilder func() (*core.Block, *core.StateUpdate, map[felt.Felt]core.ClassDefinition)

// sweepReadFaults applies the block built by `build` on copies of `raw`, once per read position (at most
// maxAttempts positions, spread over all of them), with that read failing.
// alt (optional) is the same commitment evaluated with core/crypto's primitives: a root equal to it is a
// defect of the hash primitive, which the main run reports under a crypto:* key.
func sweepReadFaults(raw db.KeyValueStore, newState bool, build blockBuilder, want, alt *felt.Felt, bi int, maxAttempts int,
	counts map[string]int,
) *stOutcome {
	be := backendName(newState)
	// how many reads does a fault-free application make?
	total := 0
	{
		clone, err := cloneStore(raw)
		if err != nil {
			return &stOutcome{key: "state-harness:clone", what: err.Error(), block: bi}
		}
		fs := newReadFaultStore(clone)
		bc := blockchain.New(fs, &networks.Sepolia, blockchain.WithNewState(newState))
		fs.f.arm(1 << 30)
		block, su, classes := build()
		if err := bc.Finalise(block, su, classes, nil); err != nil {
			return nil // the fault-free application fails: reported by the main run
		}
		total = fs.f.count()
	}
	positions := make([]int, 0, total)
	for k := 1; k <= total; k++ {
		positions = append(positions, k)
	}
	if len(positions) > maxAttempts { // spread: keep the first reads (the tries' root nodes) and an even sample of the rest
		keep := positions[:maxAttempts/2]
		rest := positions[maxAttempts/2:]
		stride := float64(len(rest)) / float64(maxAttempts-maxAttempts/2)
		for i := 0; i < maxAttempts-maxAttempts/2; i++ {
			keep = append(keep, rest[int(float64(i)*stride)])
		}
		positions = keep
	}
	counts["read_fault_blocks"]++
	counts["read_fault_reads_per_block_max"] = max(counts["read_fault_reads_per_block_max"], total)
	for _, k := range positions {
		clone, err := cloneStore(raw)
		if err != nil {
			return &stOutcome{key: "state-harness:clone", what: err.Error(), block: bi}
		}
		fs := newReadFaultStore(clone)
		bc := blockchain.New(fs, &networks.Sepolia, blockchain.WithNewState(newState))
		fs.f.arm(k)
		block, su, classes := build()
		err = bc.Finalise(block, su, classes, nil)
		fired, kind := fs.f.fired, fs.f.kind
		fs.f.disarm()
		counts["read_fault_attempts"]++
		if !fired {
			continue // concurrency inside the update made this run shorter than the counted one
		}
		where := fmt.Sprintf("block %d, read %d of %d (%s) failing", bi, k, total, kind)
		if err == nil {
			counts["read_fault_tolerated"]++
			// the update SUCCEEDED although a read failed: what it computed and stored must still be right
			if o := checkStoredRoot(bc, block, want, alt, be, bi, "Finalise succeeded with "+where); o != nil {
				return o
			}
			continue
		}
		counts["read_fault_rejected"]++
		// the update failed (fine); the next fault-free application on the same node must give the right root
		block, su, classes = build()
		if err := bc.Finalise(block, su, classes, nil); err != nil {
			// no root is stored, so nothing C01 states is violated: an observation, never a verdict
			counts["read_fault_retry_failed"]++
			if len(stateObservations) < 5 {
				stateObservations = append(stateObservations, fmt.Sprintf("state-finalise-error:after-read-fault:%s after a block application that failed on an injected "+
					"read fault (%s), the fault-free retry on the same node fails: %v", be, where, err))
			}
			continue
		}
		if o := checkStoredRoot(bc, block, want, alt, be, bi, "fault-free retry after "+where); o != nil {
			return o
		}
	}
	return nil
}

func checkStoredRoot(bc *blockchain.Blockchain, block *core.Block, want, alt *felt.Felt, be string, bi int, ctx string) *stOutcome {
	got := block.GlobalStateRoot
	if got != nil && alt != nil && !alt.Equal(want) && got.Equal(alt) {
		return nil // wrong because of the hash primitive, with or without the fault: keyed crypto:* by the main run
	}
	if got == nil || !got.Equal(want) {
		gs := "nil"
		if got != nil {
			gs = got.String()
		}
		return &stOutcome{key: "state-root:wrong-after-read-fault:" + be, block: bi,
			what:     ctx + ": the state root it computed differs from the protocol commitment of the resulting abstract state",
			expected: want.String(), observed: gs}
	}
	h, err := bc.BlockHeaderByNumber(block.Number)
	if err != nil || h.GlobalStateRoot == nil || !h.GlobalStateRoot.Equal(want) {
		return &stOutcome{key: "state-root:wrong-after-read-fault:stored:" + be, block: bi,
			what: fmt.Sprintf("%s: the stored header does not carry the protocol commitment (err %v)", ctx, err), expected: want.String()}
	}
	return nil
}

// TestStateReplay (C01, state level): behaviours of spec/trie/StateCommit.tla (atomic state updates
// with block boundaries) are applied through the REAL Blockchain.Finalise on both state backends
// (core/deprecatedstate and core/state), for protocol versions on both sides of 0.14.0 and with
// several splits of the same update sequence into blocks.  After every block the header's
// GlobalStateRoot must equal refimpl.GlobalRoot of the abstract state (independent implementation
// of the protocol definition); at the end the state must read back as the model's.
package trie

import (
	"fmt"
	"math/big"
	"math/rand"
	"sort"
	"strings"
	"testing"

	"github.com/NethermindEth/juno/blockchain"
	"github.com/NethermindEth/juno/blockchain/networks"
	"github.com/NethermindEth/juno/core"
	"github.com/NethermindEth/juno/core/felt"
	"github.com/NethermindEth/juno/db"
	"github.com/NethermindEth/juno/db/memory"

	"verifharness/internal/refimpl"
	"verifharness/internal/vh"
)

type stAction struct {
	Name string `json:"name"`
	C    string `json:"c,omitempty"`
	H    string `json:"h,omitempty"`
	N    int    `json:"n,omitempty"`
	S    string `json:"s,omitempty"`
	V    int    `json:"v,omitempty"`
	K    string `json:"k,omitempty"`
	X    string `json:"x,omitempty"`
	F    string `json:"f,omitempty"` // ReadFault: the model's fault position (a written contract, "ctrie", "cltrie")
}

// stMag is the behaviour's magnitude assignment (FeltDomain.tla / StateMBT.tla): a class per storage value
// index, class hash, compiled class hash and nonce value.
type stMag struct {
	Val   []string          `json:"val,omitempty"`
	Class map[string]string `json:"class,omitempty"`
	Comp  map[string]string `json:"comp,omitempty"`
	Nonce []string          `json:"nonce,omitempty"`
}

type stState struct {
	Deployed map[string]string         `json:"deployed"`
	Nonce    map[string]int            `json:"nonce"`
	Store    map[string]map[string]int `json:"store"`
	Declared map[string]string         `json:"declared"`
}

type stStep struct {
	A   stAction `json:"a"`
	St  *stState `json:"st,omitempty"`
	Mag *stMag   `json:"mag,omitempty"` // on the first step of a behaviour
}

type stConfig struct {
	NewState bool   `json:"newState"`
	Versions string `json:"versions"` // "pre" | "post" | "upgrade"
	Split    string `json:"split"`    // "model" | "single" | "merged"
	Seed     int64  `json:"seed"`
	Poison   bool   `json:"poison"`  // poisoning store: lent Get buffers are scribbled after the callback
	NilMaps  bool   `json:"nilMaps"` // empty dimensions of a state diff are nil maps instead of empty maps
	Faults   int    `json:"faults"`  // read-fault sweep: at most this many read positions per marked block (0 = no sweep)
}

type stateInput struct {
	Behaviours [][]stStep `json:"behaviours"`
	Configs    []stConfig `json:"configs,omitempty"`
}

// concretisation of the model's names, seeded; slots s1/s2 and contracts c1/c2 are adjacent keys
type stConcrete struct {
	addr, slot, class, sierra, compiled map[string]*felt.Felt
	val                                 []*felt.Felt
	nonces                              []*felt.Felt // nonces[n] = the felt of abstract nonce value n
}

func (c *stConcrete) nonce(n int) *felt.Felt {
	if n < len(c.nonces) && c.nonces[n] != nil {
		return c.nonces[n]
	}
	return felt.NewFromUint64[felt.Felt](uint64(n))
}

func randFelt251(r *rand.Rand) *big.Int {
	return new(big.Int).Rand(r, new(big.Int).Lsh(big.NewInt(1), 251))
}

func newStConcrete(seed int64, mag *stMag) *stConcrete {
	r := rand.New(rand.NewSource(seed))
	f := func(b *big.Int) *felt.Felt { return new(felt.Felt).SetBigInt(b) }
	c := &stConcrete{addr: map[string]*felt.Felt{}, slot: map[string]*felt.Felt{}, class: map[string]*felt.Felt{},
		sierra: map[string]*felt.Felt{}, compiled: map[string]*felt.Felt{}}
	a := randFelt251(r)
	a.SetBit(a, 0, 0)
	a.SetBit(a, 250, 0)
	a.SetBit(a, 8, 1) // not a system contract
	c.addr["c1"] = f(a)
	c.addr["c2"] = f(new(big.Int).SetBit(new(big.Int).Set(a), 0, 1)) // sibling leaf of c1
	c.addr["c3"] = f(randFelt251(r))
	c.addr["sys"] = felt.NewFromUint64[felt.Felt](1)
	s := randFelt251(r)
	if r.Intn(2) == 0 {
		s = big.NewInt(int64(2 * r.Intn(8))) // small consecutive slots, as real contracts use
	}
	s.SetBit(s, 0, 0)
	c.slot["s1"] = f(s)
	c.slot["s2"] = f(new(big.Int).SetBit(new(big.Int).Set(s), 0, 1)) // sibling leaf of s1
	s3 := randFelt251(r)
	c.slot["s3"] = f(s3)
	c.slot["s4"] = f(new(big.Int).SetBit(new(big.Int).Set(s3), r.Intn(60), 1-s3.Bit(0)&1)) // long shared prefix with s3
	if c.slot["s4"].Equal(c.slot["s3"]) {
		c.slot["s4"] = f(new(big.Int).Xor(s3, big.NewInt(2)))
	}
	for _, n := range []string{"h1", "h2"} {
		c.class[n] = f(randFelt251(r))
	}
	c.class["0"] = new(felt.Felt)
	for _, n := range []string{"k1", "k2"} {
		c.sierra[n] = f(randFelt251(r))
	}
	for _, n := range []string{"x1", "x2"} {
		c.compiled[n] = f(randFelt251(r))
	}
	c.val = []*felt.Felt{new(felt.Felt)}
	for i := 0; i < 8; i++ {
		c.val = append(c.val, f(new(big.Int).Add(randFelt251(r), big.NewInt(1))))
	}
	c.nonces = make([]*felt.Felt, 8)
	// value-domain dimension: the behaviour's magnitude classes replace the default (random 251-bit) felts
	if mag != nil {
		for i, cl := range mag.Val {
			if i+1 < len(c.val) && cl != "" {
				c.val[i+1] = magFelt(cl, seed, i+1)
			}
		}
		for n, cl := range mag.Class {
			if cl != "" && c.class[n] != nil && n != "0" {
				c.class[n] = magFelt(cl, seed+1, 10+len(n)+int(n[len(n)-1]))
			}
		}
		for n, cl := range mag.Comp {
			if cl != "" && c.compiled[n] != nil {
				c.compiled[n] = magFelt(cl, seed+2, 20+int(n[len(n)-1]))
			}
		}
		for i, cl := range mag.Nonce {
			if i+1 < len(c.nonces) && cl != "" {
				c.nonces[i+1] = magFelt(cl, seed+3, 30+i)
			}
		}
	}
	return c
}

// topClassUsed is the highest magnitude class among the felts the abstract state holds (values, class hashes,
// nonces, compiled class hashes).
func (c *stConcrete) topClassUsed(s *stState) string {
	var fs []felt.Felt
	for name, h := range s.Deployed {
		if h == "" || h == "-" {
			continue
		}
		fs = append(fs, *c.class[h], *c.nonce(s.Nonce[name]))
		for _, v := range s.Store[name] {
			fs = append(fs, *c.val[v])
		}
	}
	for _, x := range s.Declared {
		if x != "" && x != "-" {
			fs = append(fs, *c.compiled[x])
		}
	}
	return topClass(fs)
}

func newStState() *stState {
	return &stState{Deployed: map[string]string{}, Nonce: map[string]int{}, Store: map[string]map[string]int{}, Declared: map[string]string{}}
}

func (s *stState) apply(a stAction) {
	switch a.Name {
	case "Deploy", "Replace":
		s.Deployed[a.C] = a.H
	case "Nonce":
		s.Nonce[a.C] = a.N
	case "Write":
		if a.C == "sys" && s.Deployed["sys"] == "" {
			s.Deployed["sys"] = "0"
		}
		if s.Store[a.C] == nil {
			s.Store[a.C] = map[string]int{}
		}
		s.Store[a.C][a.S] = a.V
	case "Declare":
		s.Declared[a.K] = a.X
	}
}

func bigOf(f *felt.Felt) *big.Int { var b big.Int; return f.BigInt(&b) }

func (s *stState) ref(c *stConcrete) *refimpl.State {
	out := &refimpl.State{Contracts: map[string]*refimpl.Contract{}, Classes: refimpl.KV{}}
	for name, h := range s.Deployed {
		if h == "" || h == "-" {
			continue
		}
		rc := &refimpl.Contract{ClassHash: *c.class[h], Storage: refimpl.KV{}}
		rc.Nonce = *c.nonce(s.Nonce[name])
		for slot, v := range s.Store[name] {
			rc.Storage[refimpl.Key(bigOf(c.slot[slot]))] = *c.val[v]
		}
		out.Contracts[refimpl.Key(bigOf(c.addr[name]))] = rc
	}
	for k, x := range s.Declared {
		if x == "" || x == "-" {
			continue
		}
		out.Classes[refimpl.Key(bigOf(c.sierra[k]))] = *c.compiled[x]
	}
	return out
}

// equalModel compares the engine's own sequential application with the model's projection.
func (s *stState) equalModel(m *stState) bool {
	norm := func(x string) string {
		if x == "-" {
			return ""
		}
		return x
	}
	for k, v := range m.Deployed {
		if norm(v) != norm(s.Deployed[k]) {
			return false
		}
	}
	for k, v := range m.Nonce {
		if v != s.Nonce[k] {
			return false
		}
	}
	for c, mm := range m.Store {
		for sl, v := range mm {
			if v != s.Store[c][sl] {
				return false
			}
		}
	}
	for k, v := range m.Declared {
		if norm(v) != norm(s.Declared[k]) {
			return false
		}
	}
	return true
}

// splitBlocks groups the behaviour's updates into blocks; restart[i] = the node is restarted (new
// Blockchain on the same store) before block i.
// fault[i] = the model had a ReadFault step while block i was under construction: the replayer sweeps the
// read positions of that block's application.
func splitBlocks(beh []stStep, mode string) (blocks [][]stAction, restart, fault []bool) {
	var model [][]stAction
	var mrestart, mfault []bool
	cur := []stAction{}
	pending, fpending := false, false
	for _, s := range beh {
		switch s.A.Name {
		case "Restart":
			pending = true
		case "ReadFault":
			fpending = true
		case "EndBlock":
			model = append(model, cur)
			mrestart, mfault = append(mrestart, pending), append(mfault, fpending)
			cur, pending, fpending = []stAction{}, false, false
		default:
			cur = append(cur, s.A)
		}
	}
	if len(cur) > 0 {
		model = append(model, cur)
		mrestart, mfault = append(mrestart, pending), append(mfault, fpending)
	}
	switch mode {
	case "single":
		for i, b := range model {
			if len(b) == 0 {
				blocks, restart, fault = append(blocks, b), append(restart, mrestart[i]), append(fault, false)
			}
			for j, a := range b {
				// the fault lands on the last update of the model's block (the tries are fullest then)
				blocks, restart, fault = append(blocks, []stAction{a}), append(restart, mrestart[i] && j == 0), append(fault, mfault[i] && j == len(b)-1)
			}
		}
		return blocks, restart, fault
	case "merged":
		for i := 0; i < len(model); i++ {
			b := append([]stAction{}, model[i]...)
			r, f := mrestart[i], mfault[i]
			if i+1 < len(model) && !mrestart[i+1] && mergeable(b, model[i+1]) {
				b = append(b, model[i+1]...)
				f = f || mfault[i+1]
				i++
			}
			blocks, restart, fault = append(blocks, b), append(restart, r), append(fault, f)
		}
		return blocks, restart, fault
	}
	return model, mrestart, mfault
}

// a state diff cannot both deploy a contract and replace its class
func mergeable(a, b []stAction) bool {
	dep := map[string]bool{}
	for _, x := range a {
		if x.Name == "Deploy" {
			dep[x.C] = true
		}
	}
	for _, x := range b {
		if x.Name == "Replace" && dep[x.C] {
			return false
		}
	}
	return true
}

// renderDiff is a canonical rendering of a state diff (sorted), for "unchanged" comparisons.
func renderDiff(d *core.StateDiff) string {
	var parts []string
	for a, m := range d.StorageDiffs {
		for k, v := range m {
			parts = append(parts, "s:"+a.String()+":"+k.String()+"="+v.String())
		}
	}
	for a, v := range d.Nonces {
		parts = append(parts, "n:"+a.String()+"="+v.String())
	}
	for a, v := range d.DeployedContracts {
		parts = append(parts, "d:"+a.String()+"="+v.String())
	}
	for a, v := range d.ReplacedClasses {
		parts = append(parts, "r:"+a.String()+"="+v.String())
	}
	for a, v := range d.DeclaredV1Classes {
		parts = append(parts, "c:"+a.String()+"="+v.String())
	}
	for _, v := range d.DeclaredV0Classes {
		parts = append(parts, "c0:"+v.String())
	}
	sort.Strings(parts)
	return strings.Join(parts, ",")
}

func minimalSierra(seed int64) *core.SierraClass {
	r := rand.New(rand.NewSource(seed))
	f := func() *felt.Felt { return new(felt.Felt).SetBigInt(randFelt251(r)) }
	return &core.SierraClass{
		Abi: "[]", AbiHash: f(), ProgramHash: f(), SemanticVersion: "0.1.0",
		Program: felt.Slice[felt.Felt]{*f(), *f()},
		Compiled: &core.CasmClass{
			Bytecode: felt.Slice[felt.Felt]{*f()}, CompilerVersion: "2.1.0", Prime: new(big.Int).SetUint64(17),
			External: []core.CasmEntryPoint{}, L1Handler: []core.CasmEntryPoint{}, Constructor: []core.CasmEntryPoint{},
		},
	}
}

func versionOf(mode string, i, n int) (string, bool) {
	switch mode {
	case "pre":
		return "0.13.2", false
	case "post":
		return "0.14.0", true
	}
	if i < n/2 {
		return "0.13.4", false
	}
	return "0.14.1", true
}

type stOutcome struct {
	key, what          string
	block              int
	expected, observed string
}

func runStateConfig(beh []stStep, cfg stConfig, counts map[string]int) (o *stOutcome, blocks int) {
	defer func() {
		if p := recover(); p != nil {
			o = &stOutcome{key: "state-panic:" + backendName(cfg.NewState), what: fmt.Sprintf("panic: %v", p), block: blocks}
		}
	}()
	var mag *stMag
	if len(beh) > 0 {
		mag = beh[0].Mag
	}
	conc := newStConcrete(cfg.Seed, mag)
	raw := memory.New()
	var store db.KeyValueStore = raw
	if cfg.Poison {
		store = newPoisonStore(store)
	}
	bc := blockchain.New(store, &networks.Sepolia, blockchain.WithNewState(cfg.NewState))
	groups, restarts, faults := splitBlocks(beh, cfg.Split)
	var rootCopies []felt.Felt // GlobalStateRoot of every block at the time Finalise returned
	var rootPtrs []*felt.Felt  // ... and the pointer the block header kept
	st := newStState()
	parent := &felt.Zero
	oldRoot := &felt.Zero
	be := backendName(cfg.NewState)
	one := felt.NewFromUint64[felt.Felt](1)
	for bi, g := range groups {
		if restarts[bi] {
			// restart between two blocks: alternately graceful (running event filter written) and abrupt
			if bi%2 == 0 {
				_ = bc.WriteRunningEventFilter()
			}
			bc = blockchain.New(store, &networks.Sepolia, blockchain.WithNewState(cfg.NewState))
		}
		for _, a := range g {
			st.apply(a)
		}
		ver, since0140 := versionOf(cfg.Versions, bi, len(groups))
		parentNow, oldRootNow := parent, oldRoot
		build := func() (*core.Block, *core.StateUpdate, map[felt.Felt]core.ClassDefinition) {
			diff := &core.StateDiff{}
			if !cfg.NilMaps {
				diff = &core.StateDiff{
					StorageDiffs: map[felt.Felt]map[felt.Felt]*felt.Felt{}, Nonces: map[felt.Felt]*felt.Felt{},
					DeployedContracts: map[felt.Felt]*felt.Felt{}, DeclaredV1Classes: map[felt.Felt]*felt.Felt{},
					ReplacedClasses: map[felt.Felt]*felt.Felt{}, DeclaredV0Classes: []*felt.Felt{},
					MigratedClasses: map[felt.SierraClassHash]felt.CasmClassHash{},
				}
			}
			classes := map[felt.Felt]core.ClassDefinition{}
			for _, a := range g {
				switch a.Name {
				case "Deploy":
					if diff.DeployedContracts == nil {
						diff.DeployedContracts = map[felt.Felt]*felt.Felt{}
					}
					diff.DeployedContracts[*conc.addr[a.C]] = conc.class[a.H]
				case "Replace":
					if diff.ReplacedClasses == nil {
						diff.ReplacedClasses = map[felt.Felt]*felt.Felt{}
					}
					diff.ReplacedClasses[*conc.addr[a.C]] = conc.class[a.H]
				case "Nonce":
					if diff.Nonces == nil {
						diff.Nonces = map[felt.Felt]*felt.Felt{}
					}
					diff.Nonces[*conc.addr[a.C]] = conc.nonce(a.N)
				case "Write":
					if diff.StorageDiffs == nil {
						diff.StorageDiffs = map[felt.Felt]map[felt.Felt]*felt.Felt{}
					}
					m := diff.StorageDiffs[*conc.addr[a.C]]
					if m == nil {
						m = map[felt.Felt]*felt.Felt{}
						diff.StorageDiffs[*conc.addr[a.C]] = m
					}
					m[*conc.slot[a.S]] = conc.val[a.V]
				case "Declare":
					if diff.DeclaredV1Classes == nil {
						diff.DeclaredV1Classes = map[felt.Felt]*felt.Felt{}
					}
					diff.DeclaredV1Classes[*conc.sierra[a.K]] = conc.compiled[a.X]
					classes[*conc.sierra[a.K]] = minimalSierra(cfg.Seed + int64(len(a.K)) + int64(a.K[1]))
				}
			}
			receipts := []*core.TransactionReceipt{}
			block := &core.Block{
				Header: &core.Header{
					ParentHash: parentNow, Number: uint64(bi), SequencerAddress: one, Timestamp: uint64(1_700_000_000 + bi),
					ProtocolVersion: ver, EventsBloom: core.EventsBloom(receipts),
					L1GasPriceETH: one, L1GasPriceSTRK: one, L2GasPrice: &core.GasPrice{PriceInWei: one, PriceInFri: one},
					L1DataGasPrice: &core.GasPrice{PriceInWei: one, PriceInFri: one},
				},
				Transactions: []core.Transaction{}, Receipts: receipts,
			}
			su := &core.StateUpdate{OldRoot: oldRootNow, StateDiff: diff}
			return block, su, classes
		}
		want := refimpl.GlobalRoot(st.ref(conc), since0140)
		if faults[bi] && cfg.Faults > 0 {
			var junoWant felt.Felt
			refimpl.WithJuno(func() { junoWant = refimpl.GlobalRoot(st.ref(conc), since0140) })
			if o := sweepReadFaults(raw, cfg.NewState, build, &want, &junoWant, bi, cfg.Faults, counts); o != nil {
				return o, bi
			}
		}
		block, su, classes := build()
		diff := su.StateDiff
		diffBefore := renderDiff(diff)
		if err := bc.Finalise(block, su, classes, nil); err != nil {
			return &stOutcome{key: "state-finalise-error:" + be, block: bi,
				what: fmt.Sprintf("Finalise of block %d (%d updates, version %s) failed: %v", bi, len(g), ver, err)}, bi
		}
		blocks = bi + 1
		got := block.GlobalStateRoot
		if got == nil || !got.Equal(&want) {
			gs := "nil"
			if got != nil {
				gs = got.String()
			}
			side := "pre-0.14.0"
			if since0140 {
				side = "since-0.14.0"
			}
			// localisation: equal to the same definition evaluated with core/crypto's primitives => the primitive is wrong
			if refimpl.Independent() && got != nil {
				var junoWant felt.Felt
				refimpl.WithJuno(func() { junoWant = refimpl.GlobalRoot(st.ref(conc), since0140) })
				if !junoWant.Equal(&want) && junoWant.Equal(got) {
					return &stOutcome{key: "crypto:state-root:operands-up-to-" + conc.topClassUsed(st), block: bi,
						what: fmt.Sprintf("GlobalStateRoot of block %d (backend %s, protocol %s) differs from the protocol commitment computed with the independent hash "+
							"references and equals the same definition computed with core/crypto: a hash primitive is wrong for operands of this magnitude", bi, be, ver),
						expected: want.String(), observed: gs}, bi
				}
			}
			return &stOutcome{key: fmt.Sprintf("state-root:%s:%s", be, side), block: bi,
				what:     fmt.Sprintf("GlobalStateRoot of block %d (protocol %s, split %s) differs from the protocol commitment of the abstract state", bi, ver, cfg.Split),
				expected: want.String(), observed: gs}, bi
		}
		if su.NewRoot == nil || !su.NewRoot.Equal(got) {
			return &stOutcome{key: "state-root:stateupdate-newroot:" + be, block: bi, what: "StateUpdate.NewRoot differs from Header.GlobalStateRoot"}, bi
		}
		// the caller's state diff is an input: Finalise must not rewrite it
		if now := renderDiff(diff); now != diffBefore {
			return &stOutcome{key: "state-alias:input-diff-mutated:" + be, block: bi, what: "Finalise modified the state diff it was given",
				expected: diffBefore, observed: now}, bi
		}
		rootCopies, rootPtrs = append(rootCopies, *block.GlobalStateRoot), append(rootPtrs, block.GlobalStateRoot)
		parent, oldRoot = block.Hash, block.GlobalStateRoot
	}
	// retained results: the roots handed back earlier are unchanged, and the stored headers carry them
	for i := range rootCopies {
		if !rootPtrs[i].Equal(&rootCopies[i]) {
			return &stOutcome{key: "state-alias:returned-root-changed:" + be, block: i, what: "the GlobalStateRoot a finalised block carried changed under later blocks",
				expected: rootCopies[i].String(), observed: rootPtrs[i].String()}, blocks
		}
		h, err := bc.BlockHeaderByNumber(uint64(i))
		if err != nil || h.GlobalStateRoot == nil || !h.GlobalStateRoot.Equal(&rootCopies[i]) {
			return &stOutcome{key: "state-root:stored-header:" + be, block: i, what: fmt.Sprintf("stored header %d does not carry the root Finalise computed (err %v)", i, err),
				expected: rootCopies[i].String()}, blocks
		}
	}
	// the stored head and the state must read back as the model's
	head, err := bc.HeadsHeader()
	if len(groups) > 0 {
		if err != nil || !head.GlobalStateRoot.Equal(oldRoot) {
			return &stOutcome{key: "state-root:stored-header:" + be, block: len(groups) - 1, what: fmt.Sprintf("stored head header root differs (err %v)", err)}, blocks
		}
		reader, closer, err := bc.HeadState()
		if err != nil {
			return &stOutcome{key: "state-read-error:" + be, what: "HeadState: " + err.Error()}, blocks
		}
		defer closer()
		names := make([]string, 0, len(st.Deployed))
		for n := range st.Deployed {
			names = append(names, n)
		}
		sort.Strings(names)
		for _, name := range names {
			h := st.Deployed[name]
			if h == "" {
				continue
			}
			ch, err := reader.ContractClassHash(conc.addr[name])
			if err != nil || !ch.Equal(conc.class[h]) {
				return &stOutcome{key: "state-read:class-hash:" + be, what: fmt.Sprintf("ContractClassHash(%s) differs from the model (err %v)", name, err),
					expected: conc.class[h].String(), observed: ch.String()}, blocks
			}
			nn, err := reader.ContractNonce(conc.addr[name])
			if err != nil || !nn.Equal(conc.nonce(st.Nonce[name])) {
				return &stOutcome{key: "state-read:nonce:" + be, what: fmt.Sprintf("ContractNonce(%s) differs from the model (err %v)", name, err),
					expected: conc.nonce(st.Nonce[name]).String(), observed: nn.String()}, blocks
			}
			for _, slot := range []string{"s1", "s2", "s3", "s4"} {
				want := conc.val[st.Store[name][slot]]
				got, err := reader.ContractStorage(conc.addr[name], conc.slot[slot])
				if err != nil || !got.Equal(want) {
					key := "state-read:storage:" + be
					if want.IsZero() && !got.IsZero() {
						key = "state-read:stale-storage-after-zero-write:" + be
					}
					return &stOutcome{key: key, what: fmt.Sprintf("ContractStorage(%s, %s) at head differs from the model (err %v); "+
						"a slot whose sibling slot (last bit flipped) is set and which was written to zero keeps its old value", name, slot, err),
						expected: want.String(), observed: got.String()}, blocks
				}
			}
		}
	}
	return nil, blocks
}

func backendName(newState bool) string {
	if newState {
		return "newstate"
	}
	return "deprecatedstate"
}

func TestStateReplay(t *testing.T) {
	if !vh.Enabled() {
		t.Skip("driver only")
	}
	var in stateInput
	if err := vh.Input(&in); err != nil {
		t.Fatal(err)
	}
	out := vh.NewResult()
	defer out.Write()
	defer guard(out, "TestStateReplay", nil)
	restore, err := refimpl.UseIndependent()
	if err != nil {
		t.Fatal(err) // the references fail their own known answers: broken machinery, never a verdict
	}
	defer restore()
	counts := map[string]int{}
	stateObservations = nil
	defer func() { out.Stats["observations"] = stateObservations }()
	splits := []string{"model", "single", "merged"}
	versions := []string{"pre", "post", "upgrade"}
	for bi, beh := range in.Behaviours {
		// the engine's own sequential application must agree with the model's projection at every cut
		st := newStState()
		for si, s := range beh {
			st.apply(s.A)
			if s.St != nil && !st.equalModel(s.St) {
				diverge(out, vh.Divergence{Key: "state-harness:model-projection", What: "harness state application disagrees with StateCommit.tla", Step: si,
					Input: stateInput{Behaviours: [][]stStep{beh}}})
				break
			}
		}
		cfgs := in.Configs
		if len(cfgs) == 0 {
			// both backends always see the same (split, versions) pairs so that they are compared like for like
			npairs := 2
			if vh.Thorough() {
				npairs = 3
			}
			for k := 0; k < npairs; k++ {
				sp := splits[(bi+k)%3]
				ve := versions[(bi/3+k+int(vh.Seed()))%3]
				for _, ns := range []bool{false, true} {
					// read-fault sweep on the blocks the model marked: one (split, versions) pair per behaviour
					faults := 0
					if k == 0 {
						faults = 24
						if vh.Thorough() {
							faults = 1000
						}
					}
					cfgs = append(cfgs, stConfig{NewState: ns, Versions: ve, Split: sp, Seed: vh.Seed()*7919 + int64(bi),
						Poison: (bi+k)%2 == 0, NilMaps: (bi+k)%3 == 0, Faults: faults})
				}
			}
		}
		for _, cfg := range cfgs {
			o, nblocks := runStateConfig(beh, cfg, counts)
			out.Done(1, nblocks)
			out.Count("state_blocks_"+backendName(cfg.NewState), nblocks)
			out.Count("state_runs_"+cfg.Versions+"_"+cfg.Split, 1)
			for _, s := range beh {
				if s.A.Name == "Restart" {
					out.Count("state_restarts", 1)
				}
			}
			if o != nil {
				diverge(out, vh.Divergence{Key: o.key, What: o.what, Step: o.block, Expected: o.expected, Observed: o.observed,
					Input: stateInput{Behaviours: [][]stStep{beh}, Configs: []stConfig{cfg}}})
			}
		}
	}
	for k, c := range counts {
		out.Count("state_"+k, c)
	}
	if len(in.Behaviours) > 0 {
		out.Sample(vh.J{"kind": "state", "first_steps": in.Behaviours[0][:min(8, len(in.Behaviours[0]))]})
	}
}
